"""Lane K: Kani/CBMC harnesses on a per-run scratch copy of the real crate.

The scratch copy is /repo/rust/core as it is *now* (src, Cargo.toml without [[bench]], Cargo.lock); the
specification modules of specs/kani/*.rs are appended to the source files they name (`//@append <file>`),
a `#[cfg(kani)]` thread_local! shim is prepended to lib.rs (Kani cannot compile thread-locals with
destructors).  Repository lines are never edited.  The scratch copy lives in a fixed directory under
/tmp that is re-synchronised on every run (so cargo can reuse compiled dependencies) and is protected
by a lock; it is re-created from nothing when absent.
"""
import fcntl
import json
import os
import re
import shutil
import subprocess
import time

VERIF = os.path.dirname(os.path.dirname(os.path.abspath(__file__)))
REPO = os.environ.get("VERIF_REPO", "/repo")
KSPECS = os.path.join(VERIF, "specs/kani")
SCRATCH = os.environ.get("VERIF_KANI_SCRATCH", "/tmp/verif_kani_scratch")

TLS_SHIM = '''
#[cfg(kani)]
#[macro_use]
mod verif_tls {
    use std::cell::UnsafeCell;
    pub struct VerifLocal<T: 'static> { init: fn() -> T, cell: UnsafeCell<Option<T>> }
    unsafe impl<T> Sync for VerifLocal<T> {}
    impl<T: 'static> VerifLocal<T> {
        pub const fn new(init: fn() -> T) -> Self { Self { init, cell: UnsafeCell::new(None) } }
        pub fn with<R, F: FnOnce(&T) -> R>(&'static self, f: F) -> R {
            unsafe {
                let slot = &mut *self.cell.get();
                if slot.is_none() { *slot = Some((self.init)()); }
                f(slot.as_ref().unwrap())
            }
        }
    }
    macro_rules! thread_local {
        ($(static $name:ident : $t:ty = $init:expr;)*) => {
            $( static $name: crate::verif_tls::VerifLocal<$t> = crate::verif_tls::VerifLocal::new(|| $init); )*
        };
    }
}
'''


def spec_files():
    out = {}
    for f in sorted(os.listdir(KSPECS)):
        if f.endswith(".rs"):
            text = open(os.path.join(KSPECS, f)).read()
            m = re.search(r"^//@append\s+(\S+)", text, re.M)
            if m:
                out[f] = (m.group(1), text)
    return out


def prepare_scratch():
    """(re)creates the scratch crate from /repo's current working tree; returns its path"""
    core = os.path.join(SCRATCH, "core")
    os.makedirs(core, exist_ok=True)
    src = os.path.join(REPO, "rust/core")
    # mirror src/ (delete removed files), keep target/
    subprocess.run(["rsync", "-a", "--delete", "--checksum", os.path.join(src, "src") + "/", os.path.join(core, "src_repo") + "/"], check=True)
    cargo = open(os.path.join(src, "Cargo.toml")).read()
    cargo = re.sub(r"\[\[bench\]\][^\[]*", "", cargo)
    cargo = re.sub(r"\[dev-dependencies\][^\[]*", "", cargo)
    write_if_changed(os.path.join(core, "Cargo.toml"), cargo)
    lock = os.path.join(src, "Cargo.lock")
    if not os.path.exists(lock):
        lock = os.path.join(REPO, "Cargo.lock")
    if os.path.exists(lock):
        write_if_changed(os.path.join(core, "Cargo.lock"), open(lock).read())
    os.makedirs(os.path.join(core, ".cargo"), exist_ok=True)
    write_if_changed(os.path.join(core, ".cargo/config.toml"), "[net]\noffline = true\n")
    # build src/ = src_repo/ + appended specification modules
    specs = spec_files()
    appended = {}
    for name, (target, text) in specs.items():
        appended.setdefault(target, []).append((name, text))
    srcdir = os.path.join(core, "src")
    repo_src = os.path.join(core, "src_repo")
    seen = set()
    for root, _dirs, files in os.walk(repo_src):
        for f in files:
            if f.endswith(".snap") or f.endswith(".snap.new"):
                continue
            p = os.path.join(root, f)
            rel = os.path.relpath(p, repo_src)
            seen.add(rel)
            text = open(p, errors="replace").read()
            key = "rust/core/src/" + rel
            if rel == "lib.rs":
                text = TLS_SHIM + text
            for name, t in appended.get(key, []):
                text += f"\n\n// ===== appended by /verif lane K: specs/kani/{name} =====\n" + t
            write_if_changed(os.path.join(srcdir, rel), text)
    for root, _dirs, files in os.walk(srcdir):
        for f in files:
            rel = os.path.relpath(os.path.join(root, f), srcdir)
            if rel not in seen:
                os.unlink(os.path.join(root, f))
    missing = [t for t in appended if not os.path.exists(os.path.join(srcdir, os.path.relpath(t, "rust/core/src")))]
    return core, missing


def write_if_changed(path, text):
    os.makedirs(os.path.dirname(path), exist_ok=True)
    if os.path.exists(path) and open(path, errors="replace").read() == text:
        return
    open(path, "w").write(text)


HARN_RE = re.compile(r"^Checking harness ([\w:]+)\.\.\.", re.M)


def run_kani(harnesses, timeout=1500, jobs=8, extra=None):
    """runs the harnesses in one cargo-kani invocation; returns dict name -> dict(ok, s, out)"""
    os.makedirs(SCRATCH, exist_ok=True)
    lockf = open(os.path.join(SCRATCH, ".lock"), "w")
    fcntl.flock(lockf, fcntl.LOCK_EX)
    try:
        core, missing = prepare_scratch()
        if missing:
            return {"__error__": f"lost anchor: files to append to are missing: {missing}"}
        cmd = ["cargo", "kani", "-Z", "stubbing", "-Z", "function-contracts", "--output-format=terse", "-j", str(jobs)]
        for h in harnesses:
            cmd += ["--harness", h]
        if extra:
            cmd += extra
        env = dict(os.environ)
        env["CARGO_NET_OFFLINE"] = "true"
        t0 = time.time()
        try:
            p = subprocess.run(cmd, cwd=core, capture_output=True, text=True, timeout=timeout, env=env)
            out = p.stdout + "\n" + p.stderr
            rc = p.returncode
        except subprocess.TimeoutExpired as e:
            out = (e.stdout or b"").decode(errors="replace") + "\n" + (e.stderr or b"").decode(errors="replace") if isinstance(e.stdout, bytes) else str(e.stdout) + str(e.stderr)
            rc = -9
        wall = time.time() - t0
    finally:
        fcntl.flock(lockf, fcntl.LOCK_UN)
        lockf.close()
    res = {"__wall__": wall, "__rc__": rc, "__cmd__": " ".join(cmd), "__out__": out[-6000:]}
    # per-harness blocks; with -j every line group is tagged "Thread k:"
    cur = {}      # thread -> harness name
    blocks = {}   # harness -> text
    active = None
    for line in out.split("\n"):
        m = re.match(r"^(?:Thread (\d+): )?Checking harness ([\w:]+)\.\.\.", line)
        if m:
            t = m.group(1) or "0"
            cur[t] = m.group(2)
            blocks.setdefault(m.group(2), "")
            active = m.group(2)
            continue
        m = re.match(r"^Thread (\d+):\s*$", line)
        if m:
            active = cur.get(m.group(1))
            continue
        if line.startswith("Manual Harness Summary") or line.startswith("Complete - ") or line.startswith("Verification failed for"):
            active = None
        if active is not None:
            blocks[active] += line + "\n"
    for name, b in blocks.items():
        short = name.split("::")[-1]
        ok = "VERIFICATION:- SUCCESSFUL" in b
        failed = "VERIFICATION:- FAILED" in b
        m = re.search(r"Verification Time: ([\d.]+)s", b)
        cover_bad = re.findall(r"(\d+) of (\d+) cover properties satisfied", b)
        unsat_cover = any(int(a) < int(c) for a, c in cover_bad)
        res[short] = {"name": short, "full": name, "ok": ok and not unsat_cover, "failed": failed, "s": float(m.group(1)) if m else None,
                      "vacuous_cover": unsat_cover, "out": b[-3000:]}
    return res


def run_kani_obligations(obs, work, tier, seed):
    """obs: registry entries {id, harnesses:[...], kind}; one cargo-kani run for all of them"""
    names = []
    for o in obs:
        for h in o["harnesses"]:
            if h not in names:
                names.append(h)
    if not names:
        return []
    r = run_kani(names)
    results = []
    for o in obs:
        res = {"id": o["id"], "lane": "kani", "backend": "kani 0.68 / cbmc 6.11", "kind": o.get("kind", "complete"), "status": "undecided",
               "harnesses": [], "failures": [], "notes": [], "seconds": round(r.get("__wall__", 0), 1), "cmd": r.get("__cmd__")}
        if "__error__" in r:
            res["notes"].append(r["__error__"])
            results.append(res)
            continue
        allok = True
        for h in o["harnesses"]:
            hr = r.get(h)
            if hr is None:
                res["notes"].append(f"harness {h} produced no verdict (build error, time-out or crash): " + r.get("__out__", "")[-800:])
                allok = False
                res["harnesses"].append({"name": h, "ok": False, "s": None})
                continue
            res["harnesses"].append({"name": h, "ok": hr["ok"], "s": hr["s"]})
            if hr["vacuous_cover"]:
                res["notes"].append(f"vacuity guard: cover property of {h} not satisfied")
                allok = False
            elif hr["failed"] and "unwinding assertion" in hr["out"] and not re.search(r"Failed Checks: (?!unwinding assertion)", hr["out"]):
                allok = False
                res["notes"].append(f"harness {h}: only unwinding assertions failed (bound too small): undecided")
            elif hr["failed"]:
                allok = False
                res["failures"].append({"function": h, "class": "verification", "msg": "harness assertion failed (CBMC counterexample)", "line": None,
                                        "code": "", "block": hr["out"]})
            elif not hr["ok"]:
                allok = False
                res["notes"].append(f"harness {h}: no SUCCESSFUL verdict")
        if allok:
            res["status"] = "ok"
        elif res["failures"] and not res["notes"]:
            res["status"] = "failed"
        results.append(res)
    return results


def concrete_playback(harness, timeout=900):
    """CBMC's counterexample for a failed harness as concrete kani::any() values (call order)"""
    r = run_kani([harness], timeout=timeout, jobs=1, extra=["-Z", "concrete-playback", "--concrete-playback=print"])
    out = r.get("__out__", "")
    m = re.search(r"```\s*\n(.*?)```", out, re.S)
    test = m.group(1) if m else None
    if not test:
        return None
    vals = []
    for vec in re.findall(r"vec!\[([0-9, ]*)\]", test):
        bs = [int(x) for x in vec.replace(" ", "").split(",") if x != ""]
        if not bs:
            continue
        vals.append(int.from_bytes(bytes(bs), "little"))
    return {"values": vals, "test": test}


def counterexample_search(prop, result, failure):
    """lane K: turn CBMC's counterexample into concrete inputs; lane V: no counterexample is available from Verus"""
    if result.get("lane") != "kani":
        return None
    cp = concrete_playback(failure["function"])
    if not cp:
        return None
    text = "harness: %s\nkani::any() values in call order (little-endian decoded): %s\n\nconcrete playback test generated by Kani (runs the harness body on these values against the real crate):\n%s" % (
        failure["function"], cp["values"], cp["test"])
    return {"text": text}
