"""Lane K: Kani harnesses on a per-run scratch copy of the real crate (filled in below)."""


def run_kani_obligations(obs, work, tier, seed):
    return []


def counterexample_search(prop, result, failure):
    return None
