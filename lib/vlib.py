"""Lane V: mechanical extraction of repository code, weaving of specification lines, Verus runs.

The verified text is produced on every run as follows (DESIGN.md §4):

  1. `vextract` (tools/extract, syn-based) copies the selected items of the unit from the
     *current* /repo working tree and applies the syntactic rewrite rules R1..R23;
  2. rustfmt (fixed config, max_width 400) puts the text into a canonical one-statement-per-line
     form; `normalise()` moves the `{` of fn/for/while/loop heads onto its own line and names
     every return value `ret` (Verus syntax `-> (ret: T)`);
  3. `weave()` inserts the specification lines of specs/verus/<unit>/annotated.rs.  That file is
     the code generated at the pinned commit (`base.rs`) plus inserted specification-only lines;
     code lines are re-identified on every run (`tag()`), the base code is diffed against the
     current code, and every specification line keeps its place relative to the code lines
     around it.  Code lines of the output are *always* the current repository code.
"""
import difflib
import hashlib
import json
import os
import tempfile
import re
import subprocess
import sys
import time

VERIF = os.path.dirname(os.path.dirname(os.path.abspath(__file__)))
REPO = os.environ.get("VERIF_REPO", "/repo")
EXTRACT = os.path.join(VERIF, "tools/extract/target/release/vextract")
UNITS = os.path.join(VERIF, "specs/verus")
RUSTFMT_CFG = os.path.join(VERIF, "lib/rustfmt.toml")


class Undecided(Exception):
    """lost anchor / unsupported construct / tool failure: exit 2, never an alarm"""


# --------------------------------------------------------------------------- extraction

def run_extract(unit, repo=None, use_known=True):
    repo = repo or REPO
    udir = os.path.join(UNITS, unit)
    # R35: the function names of the pinned extraction; a method of a wholly selected impl that is not among them is a helper split
    # off later and is inlined at its call sites (not passed when base.rs itself is being generated)
    known_args = []
    known_path = None
    base_path = os.path.join(udir, "base.rs")
    if use_known and os.path.exists(base_path):
        names = sorted(set(re.findall(r"\bfn\s+([A-Za-z_][A-Za-z0-9_]*)", open(base_path).read())))
        fdk, known_path = tempfile.mkstemp(prefix=f"vknown_{unit}_", suffix=".txt")
        os.write(fdk, "\n".join(names).encode())
        os.close(fdk)
        known_args = ["--known", known_path]
    # one log file per call: obligations of the same unit run concurrently in threads of one process
    fd, log_path = tempfile.mkstemp(prefix=f"vextract_{unit}_", suffix=".json")
    os.close(fd)
    p = subprocess.run([EXTRACT, repo, os.path.join(udir, "unit.toml"), "--log", log_path] + known_args,
                       capture_output=True, text=True)
    if known_path and os.path.exists(known_path):
        os.unlink(known_path)
    if p.returncode != 0:
        if os.path.exists(log_path):
            os.unlink(log_path)
        raise Undecided(f"extraction of unit {unit} failed: {p.stderr.strip()}")
    rules = []
    try:
        text = open(log_path).read()
        rules = json.loads(text) if text.strip() else []
    finally:
        if os.path.exists(log_path):
            os.unlink(log_path)
    q = subprocess.run(["rustfmt", "--config-path", RUSTFMT_CFG, "--edition", "2021"],
                       input=p.stdout, capture_output=True, text=True)
    if q.returncode != 0:
        raise Undecided(f"rustfmt failed on extracted unit {unit}: {q.stderr[:400]}")
    return normalise(q.stdout), rules


HEAD_RE = re.compile(r"^(\s*)((?:pub(?:\([a-z]+\))? )?(?:const )?(?:unsafe )?fn\b.*|for\b.*|while\b.*|loop|'\w+: (?:for|while|loop)\b.*) \{$")
RET_RE = re.compile(r"^(\s*(?:pub(?:\([a-z]+\))? )?(?:const )?(?:unsafe )?fn\b.*\)) -> (.+)$")


CLO_RE = re.compile(r"^(.*\|) -> (.+) \{$")


def normalise(text):
    out = []
    src = text.split("\n")
    for n, line in enumerate(src):
        if not line.strip():
            continue
        if line.strip().startswith("__vclo!("):
            continue
        nxt = src[n + 1].strip() if n + 1 < len(src) else ""
        if nxt.startswith("__vclo!("):
            # R17 closure head: `... |params| -> T {`  ->  `... |params| -> (ret: T)` / `{`
            c = CLO_RE.match(line)
            if c:
                out.append(f"{c.group(1)} -> (ret: {c.group(2)})")
                out.append(" " * indent_of(line) + "{")
                continue
        td = re.match(r"^(\s*)(fn\b.*\)) -> (.+);$", line)
        if td:
            # trait method declaration: `fn f(..) -> T;`  ->  `fn f(..) -> (ret: T)` / `;` (room for requires/ensures)
            out.append(f"{td.group(1)}{td.group(2)} -> (ret: {td.group(3)})")
            out.append(td.group(1) + ";")
            continue
        wh = re.match(r"^(\s*(?:pub(?:\([a-z]+\))? )?(?:unsafe )?fn\b.*\)) -> (.+)$", line)
        if wh and nxt == "where" and not wh.group(2).startswith("(ret:"):
            # a signature followed by a where clause: `fn f(..) -> T` / `where` ..
            out.append(f"{wh.group(1)} -> (ret: {wh.group(2)})")
            continue
        m = HEAD_RE.match(line)
        if m:
            head = m.group(1) + m.group(2)
            r = RET_RE.match(head)
            if r and not r.group(2).startswith("(ret:"):
                head = f"{r.group(1)} -> (ret: {r.group(2)})"
            out.append(head)
            out.append(m.group(1) + "{")
        else:
            out.append(line)
    return "\n".join(out) + "\n"


def unit_chain(unit, seen=None):
    """the unit and the units it inherits, in extraction order (parents first, each once)"""
    import tomllib
    seen = seen if seen is not None else []
    cfg = tomllib.load(open(os.path.join(UNITS, unit, "unit.toml"), "rb"))
    out = []
    for parent in cfg.get("inherit", []):
        if parent in seen:
            continue
        seen.append(parent)
        out.extend(unit_chain(parent, seen))
    out.append(unit)
    return out


# --------------------------------------------------------------------------- weaving

def strip_strings(s):
    s = re.sub(r'"(?:[^"\\]|\\.)*"', '""', s)
    s = re.sub(r"'(?:[^'\\]|\\.)'", "' '", s)
    s = re.sub(r"//.*$", "", s)
    return s


def expand_includes(path, seen=None):
    seen = seen or set()
    out = []
    base = os.path.dirname(path)
    for line in open(path).read().split("\n"):
        m = re.match(r"^\s*//@include\s+(\S+)\s*$", line)
        if m:
            inc = os.path.normpath(os.path.join(base, m.group(1)))
            if inc in seen:
                raise Undecided(f"recursive include {inc}")
            out.append(f"// ---- include {m.group(1)}")
            out.extend(expand_includes(inc, seen | {inc}))
            out.append(f"// ---- end include {m.group(1)}")
        else:
            out.append(line)
    return out


def tag(annotated, base):
    """greedy embedding of the base lines into the annotated lines; a line is only taken as a
    code line when the pending specification chunk is brace-balanced"""
    tags = []
    k = 0
    depth = 0
    for line in annotated:
        s = line.strip()
        if k < len(base) and depth == 0 and s == base[k].strip() and s != "":
            tags.append(k)
            k += 1
        else:
            tags.append(None)
            if s.startswith("verus! {") or s.startswith("} // verus!"):
                continue
            t = strip_strings(s)
            depth += t.count("{") - t.count("}")
            if depth < 0:
                depth = 0
    if k != len(base):
        raise Undecided(f"specification file is stale: base line {k + 1} `{base[k].strip()}` not found in annotated text")
    return tags


def match_keys(lines):
    """keys by which code lines of two versions are aligned: the stripped text, except that a line closing a block carries the
    text of the line that opened it (so that the `}` of a newly inserted block is not confused with its neighbours)"""
    keys = []
    stack = []
    prev = ""
    for l in lines:
        t = l.strip()
        c = strip_strings(t)
        opens, closes = c.count("{"), c.count("}")
        key = t
        if c.startswith("}"):
            opener = stack.pop() if stack else "?"
            closes -= 1
            # the KIND of the opener (its first word: for / while / loop / if / match / fn ...), not its full text: a loop whose
            # head was edited still closes with "its" brace
            words = re.sub(r"^'\w+:\s*", "", opener).replace("(", " ").split()
            kind = next((w for w in words if w not in ("pub", "unsafe", "const", "let", "mut")), "?") if words else "?"
            key = t + " @" + kind
        # remaining closers on this line (rare after rustfmt)
        for _ in range(min(closes, opens)):
            opens -= 1; closes -= 1
        for _ in range(closes):
            if stack:
                stack.pop()
        for _ in range(opens):
            stack.append(prev if t == "{" else t)
        keys.append(key)
        prev = t
    return keys


def weave(unit, repo=None, variant=None):
    """returns dict(text, rules, changed, fuzzy_fns, code_lines, spec_lines, base_same)"""
    udir = os.path.join(UNITS, unit)
    cur_text, rules = run_extract(unit, repo)
    cur = [l for l in cur_text.split("\n") if l.strip()]
    base = [l for l in open(os.path.join(udir, "base.rs")).read().split("\n") if l.strip()]
    annotated = expand_includes(os.path.join(udir, f"annotated_{variant}.rs" if variant else "annotated.rs"))
    tags = tag(annotated, base)
    sm = difflib.SequenceMatcher(None, match_keys(base), match_keys(cur), autojunk=False)
    emit = {k: [] for k in range(len(base))}      # base index -> indices of the current lines emitted in its place
    before = {k: [] for k in range(len(base) + 1)}  # indices of inserted current lines, emitted just before base k
    eqmap = {}                                       # base index -> current index, for unchanged lines
    changed = []
    unequal_hunks = []
    equal_size_hunks = []
    for op, i1, i2, j1, j2 in sm.get_opcodes():
        if op == "equal":
            for d in range(i2 - i1):
                emit[i1 + d] = [j1 + d]
                eqmap[i1 + d] = j1 + d
        elif op == "replace":
            changed.append((op, base[i1:i2], cur[j1:j2]))
            if i2 - i1 == j2 - j1:
                for d in range(i2 - i1):
                    emit[i1 + d] = [j1 + d]
                equal_size_hunks.append((i1, i2 - i1, j1))
            else:
                emit[i1] = list(range(j1, j2))
                unequal_hunks.append((i1, i2))
        elif op == "delete":
            changed.append((op, base[i1:i2], []))
            if i2 - i1 > 1:
                unequal_hunks.append((i1, i2))
        elif op == "insert":
            changed.append((op, [], cur[j1:j2]))
            before[i1].extend(range(j1, j2))
    # specification lines strictly inside an unequal hunk (lines replaced by a different number of lines, or deleted): their
    # place is re-derived from the neighbouring code lines, searched in the current text of the same function: the block goes
    # between the unique adjacent pair (line it followed, line it preceded), else after the unique current line equal to the
    # line it followed, else before the unique current line equal to the line it preceded.  When a block cannot be placed
    # that way the weave is "fuzzy" (the check then answers undecided for failures in that function).
    pos_of = {}
    for idx, t in enumerate(tags):
        if t is not None:
            pos_of[t] = idx
    fuzzy_ranges = []
    reanchored = []
    moved = set()
    attach = {}   # current line index -> [annotated indices] emitted right after that line
    cur_s = [l.strip() for l in cur]
    for (i1, i2) in unequal_hunks:
        a, b = pos_of[i1], pos_of[i2 - 1]
        blocks = []   # (prev base index, next base index, [annotated indices])
        x = a + 1
        while x < b:
            if tags[x] is None and annotated[x].strip():
                y = x
                while y < b and tags[y] is None:
                    y += 1
                pv = max(t for t in tags[a:x] if t is not None)
                blocks.append((pv, tags[y], [z for z in range(x, y)]))
                x = y
            else:
                x += 1
        if not blocks:
            continue
        fs, fe = fn_span(base, i1)
        cs = eqmap.get(fs)
        if fs is None or cs is None:
            fuzzy_ranges.append((i1, i2))
            continue
        _cs, ce = fn_span(cur, cs)
        placed = []
        ok = True
        for (pv, nx, idxs) in blocks:
            ptxt, ntxt = base[pv].strip(), base[nx].strip()
            pair = [k for k in range(cs, ce) if cur_s[k] == ptxt and cur_s[k + 1] == ntxt]
            pre = [k for k in range(cs, ce + 1) if cur_s[k] == ptxt]
            nxt = [k for k in range(cs + 1, ce + 1) if cur_s[k] == ntxt]
            if len(pair) == 1:
                at = pair[0]
            elif len(pre) == 1:
                at = pre[0]
            elif len(nxt) == 1:
                at = nxt[0] - 1
            else:
                ok = False
                break
            placed.append((at, idxs))
        if not ok:
            fuzzy_ranges.append((i1, i2))
            continue
        for at, idxs in placed:
            attach.setdefault(at, []).extend(idxs)
            moved.update(idxs)
        reanchored.append((i1, i2))
    # identifier renames: when lines replaced one-for-one differ from their old text only by a consistent substitution of
    # identifiers (a renamed local), and the old name is gone from the function while the new one was not there before, the
    # same substitution is applied to the specification lines of that function
    renames = {}   # function span (first, last base index) -> {old: new}
    tok = re.compile(r"[A-Za-z_][A-Za-z0-9_]*|\s+|.")
    bad_spans = set()
    for (i1, n, j1) in equal_size_hunks:
        for d in range(n):
            b_t = [t for t in tok.findall(base[i1 + d].strip()) if not t.isspace()]
            c_t = [t for t in tok.findall(cur[j1 + d].strip()) if not t.isspace()]
            if b_t == c_t:
                continue
            span = fn_span(base, i1 + d)
            if span[0] is None:
                continue
            if len(b_t) != len(c_t):
                bad_spans.add(span)
                continue
            m = renames.setdefault(span, {})
            for x, y in zip(b_t, c_t):
                if x == y:
                    continue
                if not (re.match(r"^[A-Za-z_]\w*$", x) and re.match(r"^[A-Za-z_]\w*$", y)) or m.get(x, y) != y:
                    bad_spans.add(span)
                    break
                m[x] = y
    ident = re.compile(r"[A-Za-z_][A-Za-z0-9_]*")
    applied_renames = {}
    for span, m in renames.items():
        if span in bad_spans or not m:
            continue
        cs = eqmap.get(span[0])
        if cs is None:
            # the signature line itself carries the rename (a renamed parameter): it was replaced one-for-one
            for (hi1, hn, hj1) in equal_size_hunks:
                if hi1 <= span[0] < hi1 + hn:
                    cs = hj1 + (span[0] - hi1)
        if cs is None:
            continue
        _c0, ce = fn_span(cur, cs)
        if ce is None:
            continue
        # names in field / method position (`x.name`) are not variables: a renamed local `offset` is gone from the function even
        # when a field `.offset` is still assigned, and the substitution leaves such positions alone
        var_ident = re.compile(r"(?<![\w.])[A-Za-z_][A-Za-z0-9_]*")
        cur_ids = set(x for l in cur[cs:ce + 1] for x in var_ident.findall(l))
        base_ids = set(x for l in base[span[0]:span[1] + 1] for x in var_ident.findall(l))
        a0, a1 = pos_of[span[0]], pos_of[span[1]]
        spec_ids = set(x for z in range(a0, a1 + 1) if tags[z] is None for x in var_ident.findall(annotated[z]))
        # per name: the old name must be gone from the function's variables and the new one must be new to it (a name that is still in
        # use elsewhere in the function is left alone; specification lines that meant the renamed occurrence then fail to resolve:
        # undecided)
        m = {o: nw for o, nw in m.items() if o not in cur_ids and nw not in base_ids and nw not in spec_ids}
        if not m:
            continue
        for z in range(a0, a1 + 1):
            if tags[z] is None:
                annotated[z] = var_ident.sub(lambda mo: m.get(mo.group(0), mo.group(0)), annotated[z])
        applied_renames[enclosing_fn(base, span[0]) or "?"] = dict(m)
    out = []
    origin = []  # per output line: ('code', base index or None) / ('spec', annotated index)

    def put_code(c, t):
        out.append(cur[c])
        origin.append(("code", t))
        for z in attach.get(c, []):
            out.append(annotated[z])
            origin.append(("spec", z))

    for idx, line in enumerate(annotated):
        t = tags[idx]
        if t is None:
            if idx in moved:
                continue
            out.append(line)
            origin.append(("spec", idx))
        else:
            for c in before[t]:
                put_code(c, None)
            for c in emit[t]:
                put_code(c, t)
    # insertions after the last base line go after the last code line
    if before[len(base)]:
        last = max(i for i, o in enumerate(origin) if o[0] == "code")
        for n, c in enumerate(before[len(base)]):
            out.insert(last + 1 + n, cur[c])
            origin.insert(last + 1 + n, ("code", None))
    # a loop header replaced one-for-one by a loop of another kind (`while let` -> `for`, a range loop -> an iterator loop, ...)
    # keeps its position but not the meaning of the invariant block that follows it: the function is fuzzy
    def loop_kind(line):
        t = re.sub(r"^'\w+:\s*", "", line.strip())
        if t.startswith("while let "):
            return "while-let"
        if t.startswith("while "):
            return "while"
        if t == "loop" or t.startswith("loop "):
            return "loop"
        if t.startswith("for "):
            return "for-range" if ".." in t else "for-iter"
        return None
    for (i1, n, j1) in equal_size_hunks:
        for d in range(n):
            kb = loop_kind(base[i1 + d])
            if kb is None or kb == loop_kind(cur[j1 + d]):
                continue
            a0 = pos_of[i1 + d]
            a1 = pos_of[i1 + d + 1] if i1 + d + 1 < len(base) else len(annotated)
            if any(tags[z] is None and annotated[z].strip() for z in range(a0 + 1, a1)):
                fuzzy_ranges.append((i1 + d, i1 + d + 1))
    text = "\n".join(out) + "\n"
    fuzzy_fns = set()
    for (i1, i2) in fuzzy_ranges:
        fuzzy_fns.add(enclosing_fn(base, i1))
    return {
        "text": text,
        "rules": rules,
        "changed": changed,
        "fuzzy_fns": sorted(f for f in fuzzy_fns if f),
        "renames": applied_renames,
        "reanchored_fns": sorted(set(f for f in (enclosing_fn(base, i1) for (i1, _i2) in reanchored) if f)),
        "code_lines": sum(1 for o in origin if o[0] == "code"),
        "spec_lines": sum(1 for i, o in enumerate(origin) if o[0] == "spec" and out[i].strip()),
        "base_same": not changed,
        "code_sha": hashlib.sha256(cur_text.encode()).hexdigest()[:16],
    }


FN_RE = re.compile(r"\bfn\s+(\w+)")


def enclosing_fn(lines, i):
    while i >= 0:
        m = FN_RE.search(lines[i])
        if m and not lines[i].strip().startswith("//"):
            return m.group(1)
        i -= 1
    return None


# --------------------------------------------------------------------------- Verus

def run_verus(path, rlimit=None, seed=None, threads=8, extra=None, timeout=1800):
    cmd = ["verus", path, "--output-json", "--time", "--num-threads", str(threads)]
    if not (extra and "--multiple-errors" in extra):
        cmd += ["--multiple-errors", "5"]
    if rlimit:
        cmd += ["--rlimit", str(rlimit)]
    if seed is not None:
        cmd += ["--smt-option", f"smt.random_seed={seed}"]
    if extra:
        cmd += extra
    t0 = time.time()
    try:
        p = subprocess.run(cmd, capture_output=True, text=True, timeout=timeout, cwd=os.path.dirname(path))
    except subprocess.TimeoutExpired:
        raise Undecided(f"verus timed out after {timeout}s on {path}")
    wall = time.time() - t0
    try:
        js = json.loads(p.stdout)
    except Exception:
        js = None
    return {"rc": p.returncode, "json": js, "stderr": p.stderr, "wall": wall, "cmd": " ".join(cmd)}


ERR_RE = re.compile(r"^(error|warning)(\[E\d+\])?: (.*)$")
LOC_RE = re.compile(r"^\s*--> (.+?):(\d+):(\d+)")


def parse_diagnostics(stderr):
    """rustc-style diagnostics -> list of dict(level, msg, line, text)"""
    diags = []
    cur = None
    for line in stderr.split("\n"):
        m = ERR_RE.match(line)
        if m:
            cur = {"level": m.group(1), "msg": m.group(3), "line": None, "block": [line]}
            diags.append(cur)
            continue
        if cur is not None:
            cur["block"].append(line)
            l = LOC_RE.match(line)
            if l and cur["line"] is None:
                cur["line"] = int(l.group(2))
    return diags


VERIFICATION_FAILURES = (
    "postcondition not satisfied", "precondition not satisfied", "assertion failed", "invariant not satisfied",
    "possible arithmetic underflow/overflow", "possible division by zero", "loop invariant not preserved",
    "decreases not satisfied", "could not prove termination", "possible bit shift underflow/overflow",
    "recommendation not met", "failed this postcondition", "index out of bounds", "unreachable",
    "possible overflow", "possible underflow", "cannot prove", "assert_by_compute", "bounds check", "not satisfied",
    "unable to prove", "loop invariant not satisfied", "loop ensures not satisfied", "might not hold", "possible arithmetic",
)


def classify(diag):
    """'verification' (Z3 answered on an obligation), 'rlimit', 'other' (type/syntax/tool error)"""
    m = diag["msg"]
    if "Resource limit" in m or "rlimit" in m or "resource limit" in m:
        return "rlimit"
    if any(v in m for v in VERIFICATION_FAILURES):
        return "verification"
    return "other"


# --------------------------------------------------------------------------- helpers for the driver

IMPL_RE = re.compile(r"^\s*impl(?:<[^>]*>)?\s+(?:[\w:]+(?:<[^>]*>)?\s+for\s+)?([\w:]+)")
MOD_RE = re.compile(r"^\s*(?:pub\s+)?mod\s+(\w+)\s*\{")


def indent_of(line):
    return len(line) - len(line.lstrip())


def fn_span(lines, i):
    """(first, last) line index of the function containing line i in rustfmt-formatted text; (None, None) when not in one"""
    j = min(i, len(lines) - 1)
    while j >= 0:
        s = lines[j].strip()
        if FN_RE.search(lines[j]) and not s.startswith("//") and re.match(r"^(pub(\([a-z]+\))? )?(const )?(open |closed |uninterp |broadcast |unsafe )*(spec |proof |axiom |exec )?(unsafe )?fn\b", s):
            ind = indent_of(lines[j])
            k = j + 1
            while k < len(lines):
                if lines[k].strip() == "}" and indent_of(lines[k]) == ind:
                    return (j, k) if k >= i else (None, None)
                k += 1
            return (None, None)
        j -= 1
    return (None, None)


def enclosing_fn(lines, i):
    """qualified name (`Type::method`, `module::name` or `name`) of the function containing line i"""
    i = min(i, len(lines) - 1)
    while i >= 0:
        s = lines[i].strip()
        m = FN_RE.search(lines[i])
        if m and not s.startswith("//") and re.match(r"^(pub(\([a-z]+\))? )?(const )?(open |closed |uninterp |broadcast |unsafe )*(spec |proof |axiom |exec )?(unsafe )?fn\b", s):
            name = m.group(1)
            ind = indent_of(lines[i])
            j = i - 1
            while j >= 0 and ind > 0:
                lj = lines[j]
                if lj.strip() and indent_of(lj) < ind:
                    im = IMPL_RE.match(lj)
                    if im:
                        return f"{im.group(1).split('::')[-1]}::{name}"
                    tm = re.match(r"^\s*(?:pub(?:\([a-z]+\))? )?trait (\w+)", lj)
                    if tm:
                        return f"{tm.group(1)}#decl::{name}"
                    mm = MOD_RE.match(lj)
                    if mm:
                        return f"{mm.group(1)}::{name}"
                    if indent_of(lj) == 0 and not lj.strip().startswith(("//", "#", ")", "}")) and lj.strip() not in ("{", "where"):
                        break
                j -= 1
            return name
        i -= 1
    return None


def qualify(functions, name):
    return name


def function_breakdown(js):
    out = []
    try:
        mods = js["times-ms"]["smt"]["smt-run-module-times"]
    except Exception:
        return out
    for m in mods:
        for f in m.get("function-breakdown", []):
            name = f["function"].split("::", 1)[1] if "::" in f["function"] else f["function"]
            mode = f.get("mode:", f.get("mode", ""))
            out.append({"function": name, "mode": mode, "ms": f.get("time", 0), "ok": bool(f.get("success", False))})
    return out


TRUST_PATTERNS = [
    ("assume_specification", re.compile(r"\bassume_specification\b")),
    ("external_body", re.compile(r"external_body")),
    ("axiom fn", re.compile(r"\baxiom fn\b")),
    ("assume(", re.compile(r"\bassume\s*\(")),
    ("admit(", re.compile(r"\badmit\s*\(")),
    ("external", re.compile(r"#\[verifier::external\]")),
    ("uninterp spec fn", re.compile(r"\buninterp spec fn\b")),
]


def scan_trusted(text):
    """mechanical scan of the generated unit for everything that is assumed rather than proved"""
    counts = {}
    items = []
    lines = text.split("\n")
    for i, line in enumerate(lines):
        s = line.strip()
        if s.startswith("//"):
            continue
        for name, rx in TRUST_PATTERNS:
            if rx.search(s):
                counts[name] = counts.get(name, 0) + 1
                if name in ("assume_specification", "axiom fn"):
                    if name == "axiom fn":
                        m = re.search(r"axiom fn\s+(\w+)", s)
                        items.append(f"axiom fn: {m.group(1) if m else s[:80]}")
                    else:
                        items.append("assume_specification: " + s.split("](")[0].rsplit("[ ", 1)[-1].strip()[:100])
                elif name == "external_body":
                    nxt = next((lines[j].strip() for j in range(i + 1, min(i + 4, len(lines))) if "fn " in lines[j]), "")
                    m = re.search(r"fn\s+(\w+)", nxt)
                    items.append(f"external_body: {m.group(1) if m else nxt[:60]}")
                elif name in ("assume(", "admit("):
                    items.append(f"{name} in {enclosing_fn(lines, i)}")
    return {"counts": counts, "items": sorted(set(items))}


HEADFN_RE = re.compile(r"^\s*(pub(\([a-z]+\))? )?(const )?(unsafe )?fn\s+(\w+)")


def make_canary(text):
    """vacuity guard: a twin of the unit in which every exec function body starts with assert(false);
    each of these must FAIL (otherwise the function's precondition is unsatisfiable), and a lemma
    `ensures false` over the axioms in scope must fail too"""
    lines = text.split("\n")
    out = []
    canaries = []
    i = 0
    n = len(lines)
    skip_next_fn = False
    while i < n:
        line = lines[i]
        out.append(line)
        s = line.strip()
        if "external_body" in s and s.startswith("#["):
            skip_next_fn = True
        m = HEADFN_RE.match(line)
        if m and "{" not in s:
            if skip_next_fn:
                skip_next_fn = False
                i += 1
                continue
            j = i + 1
            ok = False
            while j < n:
                sj = lines[j].strip()
                if sj == "{":
                    ok = True
                    break
                if "{" in strip_strings(sj) and not sj.startswith(("requires", "ensures", "invariant", "decreases", "forall", "&&", "||", "==>")) and re.match(r"^(pub |fn |impl |\}|let |for |while |if )", sj):
                    break
                j += 1
            if ok:
                for k in range(i + 1, j + 1):
                    out.append(lines[k])
                out.append(" " * (indent_of(lines[j]) + 4) + "proof { assert(false); } // canary")
                canaries.append({"fn": enclosing_fn(lines, i), "line": len(out)})
                i = j + 1
                continue
        elif m:
            skip_next_fn = False
        i += 1
    # axiom-consistency canary, inserted before the closing of verus!{}
    for idx in range(len(out) - 1, -1, -1):
        if out[idx].strip().startswith("} // verus!"):
            out.insert(idx, "proof fn __canary_axioms() ensures false { }")
            for c in canaries:
                if c["line"] > idx:
                    c["line"] += 1
            canaries.append({"fn": "__canary_axioms", "line": idx + 1})
            break
    return "\n".join(out), canaries
