//! vextract — mechanical extraction of repository items into Verus-ready Rust text.
//!
//! usage: vextract <repo_root> <unit.toml> [--log <rules.json>]
//!
//! Reads the unit description (which repository items form the unit and which per-unit
//! options apply), parses the *current* repository files with `syn`, copies the selected
//! items and applies the syntactic rewrite rules documented in DESIGN.md §4.2 (every
//! application is logged).  The result is printed as plain token text; the Python driver
//! pipes it through rustfmt and a few line-level normalisations and then weaves the
//! specification lines in.  Nothing here knows about specifications.

use proc_macro2::{Span, TokenStream};
use quote::{quote, ToTokens};
use serde::Deserialize;
use std::collections::BTreeMap;
use syn::punctuated::Punctuated;
use syn::visit_mut::{self, VisitMut};
use syn::*;

mod rules;

#[derive(Deserialize, Debug, Default, Clone)]
pub struct Unit {
    pub name: String,
    /// units whose items come first, each extracted under its own configuration
    #[serde(default)]
    pub inherit: Vec<String>,
    #[serde(default)]
    pub source: Vec<Source>,
    /// `Type::method` whose `&self` receiver becomes `&mut self` (R1)
    #[serde(default)]
    pub mut_self: Vec<String>,
    /// thread-locals turned into parameters: name -> (param name, type) (R2)
    #[serde(default)]
    pub tls: BTreeMap<String, TlsSpec>,
    /// generic parameter substitutions applied to selected items (R14): "T" -> "char"
    #[serde(default)]
    pub generic_subst: BTreeMap<String, String>,
    /// closures to lift (R19)
    #[serde(default)]
    pub lift: Vec<LiftSpec>,
    /// trailing expression outlining (R12)
    #[serde(default)]
    pub outline: Vec<OutlineSpec>,
    /// closure annotations (R17): key "fn#k" -> head text
    #[serde(default)]
    pub closure_sig: BTreeMap<String, ClosureSig>,
    /// extra per-unit switches
    #[serde(default)]
    pub opts: BTreeMap<String, toml::Value>,
}

#[derive(Deserialize, Debug, Clone)]
pub struct TlsSpec {
    pub param: String,
    pub ty: String,
    /// functions (by name) that receive the parameter
    pub fns: Vec<String>,
}

#[derive(Deserialize, Debug, Clone)]
pub struct LiftSpec {
    pub func: String,
    pub closure: usize,
    pub name: String,
    pub params: String,
    pub args: String,
    pub ret: String,
    /// captured variables that the lifted function receives as `&mut`: `x = e` becomes `*x = e`
    #[serde(default)]
    pub deref: Vec<String>,
}

#[derive(Deserialize, Debug, Clone)]
pub struct OutlineSpec {
    /// function (short name) containing `let <var> = <chain>;`
    pub func: String,
    pub var: String,
    /// name of the outlined function and the argument list of the call that replaces the chain
    pub name: String,
    pub args: String,
    /// sha256 (first 16 hex digits) of the token text of the outlined expression at the pinned commit
    #[serde(default)]
    pub sha: String,
}

#[derive(Deserialize, Debug, Clone)]
pub struct ClosureSig {
    pub params: String,
    pub ret: String,
    /// bind the closure to a local before the call that consumes it, so that specifications can name it
    #[serde(default)]
    pub bind: bool,
}

#[derive(Deserialize, Debug, Clone)]
pub struct Source {
    pub file: String,
    pub select: Vec<String>,
    /// identifiers renamed in the items of this source (module-private names that would collide in the flat unit)
    #[serde(default)]
    pub rename: BTreeMap<String, String>,
    /// generic parameters of these items are NOT substituted (the unit's generic_subst is for their users)
    #[serde(default)]
    pub no_subst: bool,
}

pub struct Log {
    pub entries: Vec<(String, String, String)>, // rule, function, detail
}

fn main() {
    let args: Vec<String> = std::env::args().collect();
    if args.len() < 3 {
        eprintln!("usage: vextract <repo_root> <unit.toml> [--log file]");
        std::process::exit(3);
    }
    let repo = &args[1];
    let mut units: Vec<Unit> = vec![];
    load_units(&args[2], &mut units, &mut vec![]);
    let mut log = Log { entries: vec![] };
    // R29 helpers are inlined by description; their repository text is pinned by hash
    for unit in &units {
        if let Some(tbl) = unit.opts.get("inline_lookup").and_then(|v| v.as_table()) {
            for (name, spec) in tbl.iter() {
                let (Some(file), sha) = (spec.get("file").and_then(|v| v.as_str()), spec.get("sha").and_then(|v| v.as_str()).unwrap_or("")) else { continue };
                let text = std::fs::read_to_string(format!("{repo}/{file}")).unwrap_or_else(|e| fail(&format!("lost anchor: {file}: {e}")));
                let parsed = syn::parse_file(&text).unwrap_or_else(|e| fail(&format!("cannot parse {file}: {e}")));
                let f = parsed.items.iter().find_map(|it| match it { Item::Fn(f) if f.sig.ident == name => Some(f.clone()), _ => None }).unwrap_or_else(|| fail(&format!("lost anchor: helper fn {name} not found in {file}")));
                let h = rules::fnv64(&f.to_token_stream().to_string());
                let changed = if !sha.is_empty() && sha != format!("{h:016x}") { " CHANGED" } else { "" };
                log.entries.push(("R29".into(), name.clone(), format!("helper {name} pinned text hash {h:016x}{changed}")));
            }
        }
    }
    // --known FILE: the function names the unit's pinned extraction (base.rs) has; a method of a wholly selected impl that is not
    // among them is a helper that was split off later (R35) and is inlined at its call sites instead of being emitted without a contract
    let known: Option<std::collections::HashSet<String>> = args.iter().position(|a| a == "--known").and_then(|p| args.get(p + 1)).map(|f| {
        std::fs::read_to_string(f).unwrap_or_default().split_whitespace().map(|s| s.to_string()).collect()
    });
    let mut out = String::new();
    let mut lifted: Vec<Item> = vec![];
    for unit in &units {
        for src in &unit.source {
            let path = format!("{}/{}", repo, src.file);
            let text = std::fs::read_to_string(&path).unwrap_or_else(|e| fail(&format!("lost anchor: cannot read {path}: {e}")));
            let file = syn::parse_file(&text).unwrap_or_else(|e| fail(&format!("cannot parse {path}: {e}")));
            // R35: free functions of this file that no loaded unit selects (helpers split off a selected function)
            let mut selected_fns: std::collections::HashSet<String> = Default::default();
            for u in &units {
                for s2 in &u.source {
                    if s2.file == src.file {
                        for sel in &s2.select {
                            if let Some(rest) = sel.trim().strip_prefix("fn ") {
                                selected_fns.insert(rest.trim().to_string());
                            }
                        }
                    }
                }
                for l in &u.lift {
                    selected_fns.insert(l.name.clone());
                }
            }
            // associated helpers: methods of inherent impls of this file that no select entry names (partial selections) or that the
            // pinned extraction does not know (whole-impl selections)
            let mut whole: std::collections::HashSet<String> = Default::default();
            let mut listed: std::collections::HashSet<(String, String)> = Default::default();
            for u in &units {
                for s2 in &u.source {
                    if s2.file != src.file {
                        continue;
                    }
                    for sel in &s2.select {
                        let sel = sel.trim();
                        let Some(rest) = sel.strip_prefix("impl ") else { continue };
                        if rest.contains(" for ") {
                            continue;
                        }
                        match rest.find("::{") {
                            Some(p) => {
                                let ty = rest[..p].trim().to_string();
                                for m in rest[p + 3..].trim_end_matches('}').split(',') {
                                    listed.insert((ty.clone(), m.trim().to_string()));
                                }
                            }
                            None => {
                                whole.insert(rest.trim().to_string());
                            }
                        }
                    }
                }
            }
            let mut assoc_helpers: std::collections::HashMap<(String, String), syn::ImplItemFn> = Default::default();
            for it in &file.items {
                if let Item::Impl(im) = it {
                    if im.trait_.is_some() {
                        continue;
                    }
                    let tn = type_name(&im.self_ty);
                    for m in &im.items {
                        if let syn::ImplItem::Fn(f) = m {
                            let n = f.sig.ident.to_string();
                            let is_helper = if whole.contains(&tn) {
                                known.as_ref().map_or(false, |k| !k.contains(&n))
                            } else {
                                !listed.contains(&(tn.clone(), n.clone())) && listed.iter().any(|(t, _)| *t == tn)
                            };
                            if is_helper {
                                assoc_helpers.insert((tn.clone(), n), f.clone());
                            }
                        }
                    }
                }
            }
            let mut helpers: std::collections::HashMap<String, syn::ItemFn> = Default::default();
            for it in &file.items {
                if let Item::Fn(f) = it {
                    let n = f.sig.ident.to_string();
                    let is_test = f.attrs.iter().any(|a| a.path().is_ident("test") || a.path().is_ident("cfg"));
                    if !selected_fns.contains(&n) && !is_test {
                        helpers.insert(n, f.clone());
                    }
                }
            }
            for sel in &src.select {
                let items = select(&file, sel).unwrap_or_else(|e| fail(&format!("lost anchor: {sel} in {}: {e}", src.file)));
                for mut item in items {
                    // helper methods of a wholly selected impl are not emitted
                    if let Item::Impl(im) = &mut item {
                        let tn = type_name(&im.self_ty);
                        im.items.retain(|m| !matches!(m, syn::ImplItem::Fn(f) if assoc_helpers.contains_key(&(tn.clone(), f.sig.ident.to_string()))));
                    }
                    rules::inline_helpers(&mut item, &helpers, &assoc_helpers, &mut log);
                    if !src.rename.is_empty() {
                        rules::rename_idents(&mut item, &src.rename, &mut log);
                    }
                    if src.no_subst {
                        let mut u2: Unit = unit.clone();
                        u2.generic_subst.clear();
                        rules::rewrite_item(&mut item, &u2, &mut log, &mut lifted);
                    } else {
                        rules::rewrite_item(&mut item, unit, &mut log, &mut lifted);
                    }
                    out.push_str(&format!("// @item {} :: {}\n", src.file, sel));
                    out.push_str(&item.to_token_stream().to_string());
                    out.push_str("\n\n");
                    // lifted closures (R19) are rewritten like any other function; they may lift further closures
                    let mut queue: Vec<Item> = lifted.drain(..).collect();
                    let mut done: Vec<Item> = vec![];
                    while let Some(mut l) = queue.pop() {
                        rules::rewrite_item(&mut l, unit, &mut log, &mut lifted);
                        done.push(l);
                        queue.extend(lifted.drain(..));
                    }
                    done.reverse();
                    let _ = &mut done;
                    for l in done {
                        out.push_str(&format!("// @item {} :: {} (lifted)\n", src.file, sel));
                        out.push_str(&l.to_token_stream().to_string());
                        out.push_str("\n\n");
                    }
                }
            }
        }
    }
    print!("{}", out);
    if let Some(pos) = args.iter().position(|a| a == "--log") {
        let v: Vec<serde_json::Value> = log
            .entries
            .iter()
            .map(|(r, f, d)| serde_json::json!({"rule": r, "function": f, "detail": d}))
            .collect();
        std::fs::write(&args[pos + 1], serde_json::to_string_pretty(&v).unwrap()).unwrap();
    }
}

fn load_units(path: &str, units: &mut Vec<Unit>, seen: &mut Vec<String>) {
    let text = std::fs::read_to_string(path).unwrap_or_else(|e| fail(&format!("cannot read unit file {path}: {e}")));
    let unit: Unit = toml::from_str(&text).unwrap_or_else(|e| fail(&format!("bad unit file {path}: {e}")));
    let dir = std::path::Path::new(path).parent().unwrap().parent().unwrap().to_path_buf();
    for parent in unit.inherit.clone() {
        if seen.contains(&parent) {
            continue;
        }
        seen.push(parent.clone());
        let pp = dir.join(&parent).join("unit.toml");
        load_units(pp.to_str().unwrap(), units, seen);
    }
    let mut unit = unit;
    // R26: read the declared discriminants of the indexing enum from the repository file
    if let Some(tbl) = unit.opts.get("enum_index").and_then(|v| v.as_table()).cloned() {
        let repo = std::env::args().nth(1).unwrap();
        let file = tbl.get("file").and_then(|v| v.as_str()).unwrap_or("").to_string();
        let ety = tbl.get("type").and_then(|v| v.as_str()).unwrap_or("").to_string();
        let text = std::fs::read_to_string(format!("{repo}/{file}")).unwrap_or_else(|e| fail(&format!("lost anchor: {file}: {e}")));
        let parsed = syn::parse_file(&text).unwrap_or_else(|e| fail(&format!("cannot parse {file}: {e}")));
        let mut variants = toml::map::Map::new();
        for it in &parsed.items {
            if let Item::Enum(en) = it {
                if en.ident == ety {
                    for v in &en.variants {
                        if let Some((_, Expr::Lit(ExprLit { lit: Lit::Int(i), .. }))) = &v.discriminant {
                            variants.insert(v.ident.to_string(), toml::Value::Integer(i.base10_parse::<i64>().unwrap()));
                        }
                    }
                }
            }
        }
        let mut t2 = tbl.clone();
        t2.insert("variants".into(), toml::Value::Table(variants));
        unit.opts.insert("enum_index".into(), toml::Value::Table(t2));
    }
    units.push(unit);
}

pub fn fail(msg: &str) -> ! {
    eprintln!("vextract: {msg}");
    std::process::exit(2);
}

fn type_name(ty: &Type) -> String {
    match ty {
        Type::Path(p) => p.path.segments.last().map(|s| s.ident.to_string()).unwrap_or_default(),
        Type::Slice(s) => format!("[{}]", type_name(&s.elem)),
        Type::Reference(r) => type_name(&r.elem),
        _ => ty.to_token_stream().to_string(),
    }
}

/// Selection syntax:
///   struct X | enum X | const X | static X | type X | fn f | trait T | macro m
///   impl X            all functions of all inherent impls of X (merged)
///   impl X::{a,b}     only these functions (in this order)
///   impl T for X      trait impl (optionally ::{a,b}); emitted as inherent impl (R8)
///   mono T for X      trait T's default methods + `impl T for X` methods, emitted as one inherent impl of X
fn select(file: &File, sel: &str) -> std::result::Result<Vec<Item>, String> {
    let sel = sel.trim();
    let (head, fns) = match sel.find("::{") {
        Some(p) => {
            let list = sel[p + 3..].trim_end_matches('}');
            (sel[..p].trim(), Some(list.split(',').map(|s| s.trim().to_string()).collect::<Vec<_>>()))
        }
        None => (sel, None),
    };
    let words: Vec<&str> = head.split_whitespace().collect();
    let kind = words[0];
    match kind {
        "struct" | "enum" | "const" | "static" | "type" | "fn" | "trait" => {
            let name = words[1];
            for it in &file.items {
                let ok = match it {
                    Item::Struct(s) => kind == "struct" && s.ident == name,
                    Item::Enum(s) => kind == "enum" && s.ident == name,
                    Item::Const(s) => kind == "const" && s.ident == name,
                    Item::Static(s) => kind == "static" && s.ident == name,
                    Item::Type(s) => kind == "type" && s.ident == name,
                    Item::Fn(s) => kind == "fn" && s.sig.ident == name,
                    Item::Trait(s) => kind == "trait" && s.ident == name,
                    _ => false,
                };
                if ok {
                    return Ok(vec![it.clone()]);
                }
            }
            Err("item not found".into())
        }
        "traitimpl" => {
            // traitimpl T for X : the trait impl is kept as a trait impl (needed when X is a slice type)
            let (tname, ty_name) = (words[1], head.splitn(4, ' ').nth(3).ok_or("traitimpl T for X")?.trim());
            for it in &file.items {
                if let Item::Impl(im) = it {
                    let tr = im.trait_.as_ref().map(|t| t.1.segments.last().unwrap().ident.to_string());
                    let tn = im.self_ty.to_token_stream().to_string().replace(' ', "");
                    if tr.as_deref() == Some(tname) && tn == ty_name.replace(' ', "") {
                        return Ok(vec![Item::Impl(im.clone())]);
                    }
                }
            }
            Err("trait impl not found".into())
        }
        "impl" | "mono" => {
            let (trait_name, ty_name) = if words.len() >= 4 && words[2] == "for" { (Some(words[1]), words[3]) } else { (None, words[1]) };
            let mut merged: Option<ItemImpl> = None;
            let mut methods: Vec<ImplItem> = vec![];
            for it in &file.items {
                if let Item::Impl(im) = it {
                    let tn = type_name(&im.self_ty);
                    let tr = im.trait_.as_ref().map(|t| t.1.segments.last().unwrap().ident.to_string());
                    if tn == ty_name && tr.as_deref() == trait_name {
                        if merged.is_none() {
                            merged = Some(im.clone());
                        }
                        for m in &im.items {
                            if let ImplItem::Fn(_) = m {
                                methods.push(m.clone());
                            }
                        }
                    }
                }
            }
            if kind == "mono" {
                // default methods of the trait, appended after the accessor methods
                let tname = trait_name.ok_or("mono needs `T for X`")?;
                let mut found = false;
                for it in &file.items {
                    if let Item::Trait(t) = it {
                        if t.ident == tname {
                            found = true;
                            for ti in &t.items {
                                if let TraitItem::Fn(f) = ti {
                                    if let Some(body) = &f.default {
                                        let m = ImplItemFn {
                                            attrs: f.attrs.clone(),
                                            vis: Visibility::Inherited,
                                            defaultness: None,
                                            sig: f.sig.clone(),
                                            block: body.clone(),
                                        };
                                        methods.push(ImplItem::Fn(m));
                                    }
                                }
                            }
                        }
                    }
                }
                if !found {
                    // trait lives in another file: handled by `mono` with file2 — not needed so far
                    return Err(format!("trait {tname} not in this file (use `defaults T as X`)"));
                }
            }
            let mut im = merged.ok_or("impl not found")?;
            // associated types of a trait impl (`type Item = X;`): `Self::Item` is replaced by X when the impl is emitted as inherent
            let mut assoc: Vec<(String, Type)> = vec![];
            for it in &file.items {
                if let Item::Impl(ii) = it {
                    let tn = type_name(&ii.self_ty);
                    let tr = ii.trait_.as_ref().map(|t| t.1.segments.last().unwrap().ident.to_string());
                    if tn == ty_name && tr.as_deref() == trait_name {
                        for m in &ii.items {
                            if let ImplItem::Type(t) = m {
                                assoc.push((t.ident.to_string(), t.ty.clone()));
                            }
                        }
                    }
                }
            }
            if let Some(list) = &fns {
                let mut picked = vec![];
                for want in list {
                    let m = methods
                        .iter()
                        .find(|m| matches!(m, ImplItem::Fn(f) if f.sig.ident == want))
                        .ok_or(format!("method {want} not found"))?;
                    picked.push(m.clone());
                }
                methods = picked;
            }
            if !assoc.is_empty() {
                struct Assoc<'x>(&'x Vec<(String, Type)>);
                impl<'x> VisitMut for Assoc<'x> {
                    fn visit_type_mut(&mut self, ty: &mut Type) {
                        if let Type::Path(p) = ty {
                            if p.qself.is_none() && p.path.segments.len() == 2 && p.path.segments[0].ident == "Self" {
                                let name = p.path.segments[1].ident.to_string();
                                if let Some((_, t)) = self.0.iter().find(|(n, _)| *n == name) {
                                    *ty = t.clone();
                                    return;
                                }
                            }
                        }
                        visit_mut::visit_type_mut(self, ty);
                    }
                }
                let mut a = Assoc(&assoc);
                for m in methods.iter_mut() {
                    a.visit_impl_item_mut(m);
                }
            }
            im.items = methods;
            im.trait_ = None; // R8: trait impls are emitted as inherent impls
            Ok(vec![Item::Impl(im)])
        }
        "defaults" => {
            // defaults T as X<'a>  : default methods of trait T emitted as `impl<'a> X<'a> { .. }`
            let tname = words[1];
            let target = head.splitn(4, ' ').nth(3).ok_or("defaults T as X")?;
            for it in &file.items {
                if let Item::Trait(t) = it {
                    if t.ident == tname {
                        let mut methods = vec![];
                        for ti in &t.items {
                            if let TraitItem::Fn(f) = ti {
                                if let Some(body) = &f.default {
                                    if let Some(list) = &fns {
                                        if !list.iter().any(|w| f.sig.ident == w) {
                                            continue;
                                        }
                                    }
                                    methods.push(ImplItem::Fn(ImplItemFn {
                                        attrs: f.attrs.clone(),
                                        vis: Visibility::Inherited,
                                        defaultness: None,
                                        sig: f.sig.clone(),
                                        block: body.clone(),
                                    }));
                                }
                            }
                        }
                        let ty: Type = syn::parse_str(target).map_err(|e| e.to_string())?;
                        let generics: Generics = if target.contains("'a") { syn::parse_str("<'a>").unwrap() } else { Generics::default() };
                        let im = ItemImpl {
                            attrs: vec![],
                            defaultness: None,
                            unsafety: None,
                            impl_token: Default::default(),
                            generics,
                            trait_: None,
                            self_ty: Box::new(ty),
                            brace_token: Default::default(),
                            items: methods,
                        };
                        return Ok(vec![Item::Impl(im)]);
                    }
                }
            }
            Err("trait not found".into())
        }
        _ => Err(format!("unknown selector kind {kind}")),
    }
}

pub fn ident(s: &str) -> Ident {
    Ident::new(s, Span::call_site())
}

pub fn parse_expr(ts: TokenStream) -> Expr {
    syn::parse2(ts.clone()).unwrap_or_else(|e| fail(&format!("internal: cannot parse generated expr `{ts}`: {e}")))
}

pub fn parse_stmts(ts: TokenStream) -> Vec<Stmt> {
    let b: Block = syn::parse2(quote!({ #ts })).unwrap_or_else(|e| fail(&format!("internal: cannot parse generated stmts `{ts}`: {e}")));
    b.stmts
}

#[allow(dead_code)]
pub fn args_of(mac: &Macro) -> Vec<Expr> {
    mac.parse_body_with(Punctuated::<Expr, Token![,]>::parse_terminated).map(|p| p.into_iter().collect()).unwrap_or_default()
}

#[allow(dead_code)]
pub struct Noop;
impl VisitMut for Noop {
    fn visit_expr_mut(&mut self, e: &mut Expr) {
        visit_mut::visit_expr_mut(self, e)
    }
}
