//! Rewrite rules R1..R22 (DESIGN.md §4.2) as syn AST transformations.

use crate::{fail, ident, parse_expr, parse_stmts, Log, Unit};
use proc_macro2::TokenStream;
use quote::{quote, ToTokens};
use syn::punctuated::Punctuated;
use syn::visit_mut::{self, VisitMut};
use syn::*;

pub fn rewrite_item(item: &mut Item, unit: &Unit, log: &mut Log, lifted: &mut Vec<Item>) {
    match item {
        Item::Struct(s) => {
            let keep = unit.opts.get("keep_derive").and_then(|v| v.as_array()).map(|a| a.iter().any(|x| x.as_str() == Some(&s.ident.to_string()))).unwrap_or(false);
            clean_attrs(&mut s.attrs, keep, log, &s.ident.to_string());
            s.vis = parse_quote!(pub);
            for f in s.fields.iter_mut() {
                f.vis = parse_quote!(pub); // R7
                f.attrs.clear();
                strip_refcell_type(&mut f.ty, log, &s.ident.to_string());
                subst_generics_type(&mut f.ty, unit);
            }
            apply_generic_subst_generics(&mut s.generics, unit);
            let lt: Vec<String> = unit.opts.get("struct_lifetime").and_then(|v| v.as_array()).map(|a| a.iter().filter_map(|x| x.as_str().map(|s| s.to_string())).collect()).unwrap_or_default();
            if lt.iter().any(|n| s.ident == n) {
                s.generics = parse_quote!(<'a>);
                log.entries.push(("R14".into(), s.ident.to_string(), "generic struct instantiated at its reference instantiation; lifetime parameter added".into()));
            }
        }
        Item::Enum(e) => {
            clean_attrs(&mut e.attrs, true, log, &e.ident.to_string());
            e.vis = parse_quote!(pub);
            for v in e.variants.iter_mut() {
                v.attrs.clear();
            }
        }
        Item::Const(c) => {
            c.attrs.clear();
            c.vis = parse_quote!(pub);
            let mut rw = Body::new(unit, log, c.ident.to_string(), lifted);
            rw.visit_expr_mut(&mut c.expr);
        }
        Item::Static(c) => {
            // R27: an immutable `static` of a Copy type is read like a `const`
            let (id, ty, ex) = (&c.ident, &c.ty, &c.expr);
            log.entries.push(("R27".into(), c.ident.to_string(), "immutable static -> const".into()));
            *item = parse_quote!(pub const #id: #ty = #ex;);
        }
        Item::Type(t) => {
            t.attrs.clear();
        }
        Item::Fn(f) => {
            clean_attrs(&mut f.attrs, false, log, &f.sig.ident.to_string());
            let name = f.sig.ident.to_string();
            rewrite_fn(&name, &mut f.sig, &mut f.block, unit, log, lifted);
        }
        Item::Impl(im) => {
            im.attrs.clear();
            let tname = crate_type_name(&im.self_ty);
            apply_generic_subst_generics(&mut im.generics, unit);
            subst_generics_type(&mut im.self_ty, unit);
            // R14: impl of a generic struct instantiated at its reference form: `impl<'a> X<'a>`
            let il: Vec<String> = unit.opts.get("impl_lifetime").and_then(|v| v.as_array()).map(|a| a.iter().filter_map(|x| x.as_str().map(|s| s.to_string())).collect()).unwrap_or_default();
            let tn2 = crate_type_name(&im.self_ty);
            if il.iter().any(|n| *n == tn2) {
                let id = ident(&tn2);
                im.generics = parse_quote!(<'a>);
                im.self_ty = Box::new(parse_quote!(#id<'a>));
            }
            for it in im.items.iter_mut() {
                if let ImplItem::Fn(f) = it {
                    clean_attrs(&mut f.attrs, false, log, &f.sig.ident.to_string());
                    let name = format!("{}::{}", tname, f.sig.ident);
                    if unit.mut_self.iter().any(|m| *m == name) {
                        if let Some(FnArg::Receiver(r)) = f.sig.inputs.first_mut() {
                            if r.reference.is_some() && r.mutability.is_none() {
                                *r = parse_quote!(&mut self);
                                log.entries.push(("R1".into(), name.clone(), "&self -> &mut self".into()));
                            }
                        }
                    }
                    rewrite_fn(&name, &mut f.sig, &mut f.block, unit, log, lifted);
                }
            }
        }
        Item::Trait(t) => {
            t.attrs.clear();
            t.vis = parse_quote!(pub);
            let keep = unit.opts.get("keep_supertraits").and_then(|v| v.as_array()).map(|a| a.iter().any(|x| x.as_str() == Some(&t.ident.to_string()))).unwrap_or(false);
            if !keep {
                if !t.supertraits.is_empty() {
                    log.entries.push(("R7".into(), t.ident.to_string(), "supertrait bounds (fmt::Debug) dropped".into()));
                }
                t.supertraits.clear();
                t.colon_token = None;
            }
            for ti in t.items.iter_mut() {
                if let TraitItem::Fn(f) = ti {
                    f.attrs.clear();
                }
            }
        }
        _ => {}
    }
}

fn crate_type_name(ty: &Type) -> String {
    match ty {
        Type::Path(p) => p.path.segments.last().map(|s| s.ident.to_string()).unwrap_or_default(),
        Type::Slice(s) => format!("[{}]", crate_type_name(&s.elem)),
        Type::Reference(r) => crate_type_name(&r.elem),
        _ => ty.to_token_stream().to_string(),
    }
}

fn clean_attrs(attrs: &mut Vec<Attribute>, is_type: bool, log: &mut Log, name: &str) {
    let mut keep: Vec<Attribute> = vec![];
    for a in attrs.iter() {
        if a.path().is_ident("derive") && is_type {
            // R22: keep Clone / Copy / PartialEq / Eq; add Structural next to PartialEq
            let mut names: Vec<String> = vec![];
            let _ = a.parse_nested_meta(|m| {
                if let Some(i) = m.path.get_ident() {
                    names.push(i.to_string());
                }
                Ok(())
            });
            let mut out: Vec<Ident> = vec![];
            for n in ["Clone", "Copy", "PartialEq", "Eq"] {
                if names.iter().any(|x| x == n) {
                    out.push(ident(n));
                }
            }
            if names.iter().any(|x| x == "PartialEq") {
                out.push(ident("Structural"));
                log.entries.push(("R22".into(), name.into(), "derive: Structural added".into()));
            }
            if !out.is_empty() {
                keep.push(parse_quote!(#[derive(#(#out),*)]));
            }
        }
    }
    *attrs = keep;
}

fn strip_refcell_type(ty: &mut Type, log: &mut Log, name: &str) {
    if let Type::Path(p) = ty {
        if let Some(seg) = p.path.segments.last() {
            if seg.ident == "RefCell" {
                if let PathArguments::AngleBracketed(ab) = &seg.arguments {
                    if let Some(GenericArgument::Type(inner)) = ab.args.first() {
                        let inner = inner.clone();
                        log.entries.push(("R1".into(), name.into(), format!("field type RefCell<{}> -> {}", inner.to_token_stream(), inner.to_token_stream())));
                        *ty = inner;
                    }
                }
            }
        }
    }
}

fn drop_lifetimes_if_empty(_g: &mut Generics) {}

fn apply_generic_subst_generics(g: &mut Generics, unit: &Unit) {
    if unit.generic_subst.is_empty() {
        return;
    }
    let mut params: Punctuated<GenericParam, Token![,]> = Punctuated::new();
    for p in g.params.iter() {
        match p {
            GenericParam::Type(t) if unit.generic_subst.contains_key(&t.ident.to_string()) => {}
            _ => params.push(p.clone()),
        }
    }
    g.params = params;
    if g.params.is_empty() {
        g.lt_token = None;
        g.gt_token = None;
    }
    if let Some(w) = &mut g.where_clause {
        let mut preds: Punctuated<WherePredicate, Token![,]> = Punctuated::new();
        for p in w.predicates.iter() {
            if let WherePredicate::Type(t) = p {
                if let Type::Path(tp) = &t.bounded_ty {
                    if let Some(i) = tp.path.get_ident() {
                        if unit.generic_subst.contains_key(&i.to_string()) {
                            continue;
                        }
                    }
                }
            }
            preds.push(p.clone());
        }
        w.predicates = preds;
        if w.predicates.is_empty() {
            g.where_clause = None;
        }
    }
}

struct GenSubst<'u> {
    unit: &'u Unit,
}
impl<'u> VisitMut for GenSubst<'u> {
    fn visit_type_mut(&mut self, ty: &mut Type) {
        if let Type::Path(p) = ty {
            if p.qself.is_none() {
                if let Some(i) = p.path.get_ident() {
                    if let Some(to) = self.unit.generic_subst.get(&i.to_string()) {
                        *ty = syn::parse_str(to).unwrap_or_else(|e| fail(&format!("bad generic_subst: {e}")));
                        return;
                    }
                }
            }
        }
        visit_mut::visit_type_mut(self, ty);
    }
    fn visit_path_mut(&mut self, p: &mut Path) {
        let de: Vec<String> = self.unit.opts.get("degeneric").and_then(|v| v.as_array()).map(|a| a.iter().filter_map(|x| x.as_str().map(|s| s.to_string())).collect()).unwrap_or_default();
        for seg in p.segments.iter_mut() {
            if de.iter().any(|d| seg.ident == d) {
                // drop type arguments, keep lifetimes
                if let PathArguments::AngleBracketed(ab) = &mut seg.arguments {
                    let kept: Punctuated<GenericArgument, Token![,]> = ab.args.iter().filter(|a| matches!(a, GenericArgument::Lifetime(_))).cloned().collect();
                    if kept.is_empty() { seg.arguments = PathArguments::None; } else { ab.args = kept; }
                }
            }
            let op: Vec<String> = self.unit.opts.get("opaque_types").and_then(|v| v.as_array()).map(|a| a.iter().filter_map(|x| x.as_str().map(|s| s.to_string())).collect()).unwrap_or_default();
            if op.iter().any(|d| seg.ident == d) {
                seg.ident = ident(&format!("Opaque{}", seg.ident));
            }
        }
        visit_mut::visit_path_mut(self, p);
    }
}

fn subst_generics_type(ty: &mut Type, unit: &Unit) {
    if unit.generic_subst.is_empty() && unit.opts.get("degeneric").is_none() && unit.opts.get("opaque_types").is_none() {
        return;
    }
    GenSubst { unit }.visit_type_mut(ty);
}

fn rewrite_fn(name: &str, sig: &mut Signature, block: &mut Block, unit: &Unit, log: &mut Log, lifted: &mut Vec<Item>) {
    apply_generic_subst_generics(&mut sig.generics, unit);
    if !unit.generic_subst.is_empty() || unit.opts.get("degeneric").is_some() || unit.opts.get("opaque_types").is_some() {
        let mut gs = GenSubst { unit };
        for a in sig.inputs.iter_mut() {
            gs.visit_fn_arg_mut(a);
        }
        gs.visit_return_type_mut(&mut sig.output);
        gs.visit_block_mut(block);
    }
    // R2: thread-local parameters
    let short = name.rsplit("::").next().unwrap().to_string();
    for (_tls_name, spec) in unit.tls.iter() {
        if spec.fns.iter().any(|f| *f == short || *f == name) {
            let p = ident(&spec.param);
            let ty: Type = syn::parse_str(&spec.ty).unwrap_or_else(|e| fail(&format!("bad tls type: {e}")));
            let arg: FnArg = parse_quote!(#p: #ty);
            let dup = sig.inputs.iter().any(|a| matches!(a, FnArg::Typed(pt) if pt.pat.to_token_stream().to_string() == spec.param));
            if !dup {
                sig.inputs.push(arg);
            }
        }
    }
    // R28: `mut self` by value (unsupported by Verus) is `let mut __self = self;` with every `self` of the body renamed
    if let Some(FnArg::Receiver(r)) = sig.inputs.first_mut() {
        if r.reference.is_none() && r.mutability.is_some() {
            *r = parse_quote!(self);
            struct SelfRen;
            impl VisitMut for SelfRen {
                fn visit_ident_mut(&mut self, i: &mut Ident) {
                    if i == "self" {
                        *i = ident("__self");
                    }
                }
                fn visit_macro_mut(&mut self, m: &mut Macro) {
                    // `self` inside macro arguments (vec!, debug_assert!)
                    let ts = m.tokens.to_string();
                    if ts.contains("self") {
                        let replaced = ts.replace("self", "__self");
                        if let Ok(t) = replaced.parse::<TokenStream>() {
                            m.tokens = t;
                        }
                    }
                }
            }
            SelfRen.visit_block_mut(block);
            let old = std::mem::take(&mut block.stmts);
            let mut stmts = parse_stmts(quote!(let mut __self = self;));
            stmts.extend(old);
            block.stmts = stmts;
            log.entries.push(("R28".into(), name.to_string(), "`mut self` -> `let mut __self = self;`".into()));
        }
    }
    // R1 (callers): parameters through which a `&mut self` method (after RefCell stripping) is reached become `&mut`
    if let Some(tbl) = unit.opts.get("mut_params").and_then(|v| v.as_table()) {
        let names: Vec<String> = tbl.get(name).or_else(|| tbl.get(&short)).and_then(|v| v.as_array()).map(|a| a.iter().filter_map(|x| x.as_str().map(|s| s.to_string())).collect()).unwrap_or_default();
        for a in sig.inputs.iter_mut() {
            if let FnArg::Typed(pt) = a {
                let pn = pt.pat.to_token_stream().to_string();
                if names.iter().any(|n| *n == pn) {
                    if let Type::Reference(r) = &mut *pt.ty {
                        if r.mutability.is_none() {
                            r.mutability = Some(Default::default());
                            log.entries.push(("R1".into(), name.to_string(), format!("parameter `{pn}`: & -> &mut (reaches a RefCell-stripped method)")));
                        }
                    }
                }
            }
        }
    }
    let mut rw = Body::new(unit, log, name.to_string(), lifted);
    rw.fn_locals = bound_idents(block);
    for a in sig.inputs.iter() {
        if let FnArg::Typed(pt) = a {
            if let Pat::Ident(pi) = &*pt.pat {
                rw.fn_locals.insert(pi.ident.to_string());
            }
        }
    }
    if rw.opt_list("inline_closures").iter().any(|f| *f == name || *f == short) {
        rw.rule_inline_closures(block);
    }
    if rw.opt_list("pipeline").iter().any(|f| *f == name || *f == short) {
        if !rw.rule_pipeline(block, &sig.output) {
            fail(&format!("lost anchor: the tail of {name} is not a linear adapter chain of the shape rule R30 covers"));
        }
    }
    rw.visit_block_mut(block);
    rw.finish_fn(sig, block);
}

/// R35: a call of a free function of the same source file that no unit selects (a helper that was split off a selected function)
/// is replaced by the helper's body with its parameters bound to the arguments: `h(a, b)` -> `{ let __h0 = a; let __h1 = b; { let p = __h0; let q = __h1; BODY } }`.
/// Only helpers without `return`, `?`, `self` and with plain identifier parameters are inlined; anything else is left alone.
pub fn inline_helpers(item: &mut Item, helpers: &std::collections::HashMap<String, ItemFn>, assoc: &std::collections::HashMap<(String, String), ImplItemFn>, log: &mut Log) {
    struct Inl<'h> {
        helpers: &'h std::collections::HashMap<String, ItemFn>,
        assoc: &'h std::collections::HashMap<(String, String), ImplItemFn>,
        self_ty: Option<String>,
        notes: Vec<String>,
        k: usize,
        depth: usize,
    }
    fn eligible_sig(sig: &Signature, block: &Block, receiver_ok: bool) -> bool {
        struct Bad(bool);
        impl<'ast> syn::visit::Visit<'ast> for Bad {
            fn visit_expr_return(&mut self, _: &'ast ExprReturn) {
                self.0 = true;
            }
            fn visit_expr_try(&mut self, _: &'ast ExprTry) {
                self.0 = true;
            }
            fn visit_expr_closure(&mut self, _: &'ast ExprClosure) {}
        }
        if sig.asyncness.is_some() || sig.unsafety.is_some() || !sig.generics.params.is_empty() {
            return false;
        }
        for a in sig.inputs.iter() {
            match a {
                FnArg::Typed(pt) if matches!(&*pt.pat, Pat::Ident(pi) if pi.by_ref.is_none() && pi.subpat.is_none()) => {}
                FnArg::Receiver(r) if receiver_ok && r.reference.is_some() => {}
                _ => return false,
            }
        }
        let mut b = Bad(false);
        syn::visit::Visit::visit_block(&mut b, block);
        !b.0
    }
    fn eligible(f: &ItemFn) -> bool {
        struct Bad(bool);
        impl<'ast> syn::visit::Visit<'ast> for Bad {
            fn visit_expr_return(&mut self, _: &'ast ExprReturn) {
                self.0 = true;
            }
            fn visit_expr_try(&mut self, _: &'ast ExprTry) {
                self.0 = true;
            }
            fn visit_expr_closure(&mut self, _: &'ast ExprClosure) {}
        }
        if f.sig.asyncness.is_some() || f.sig.unsafety.is_some() || !f.sig.generics.params.is_empty() {
            return false;
        }
        for a in f.sig.inputs.iter() {
            match a {
                FnArg::Typed(pt) if matches!(&*pt.pat, Pat::Ident(pi) if pi.by_ref.is_none() && pi.subpat.is_none()) => {}
                _ => return false,
            }
        }
        let mut b = Bad(false);
        syn::visit::Visit::visit_block(&mut b, &f.block);
        !b.0
    }
    impl<'h> VisitMut for Inl<'h> {
        fn visit_expr_mut(&mut self, e: &mut Expr) {
            visit_mut::visit_expr_mut(self, e);
            // associated helpers: `Self::h(args)` / `T::h(args)` (no receiver) and `self.h(args)` (receiver `self` by reference)
            let mut assoc_hit: Option<(String, ImplItemFn, Vec<Expr>)> = None;
            if let (Expr::Call(c), Some(st)) = (&*e, &self.self_ty) {
                if let Expr::Path(fp) = &*c.func {
                    if fp.path.segments.len() == 2 {
                        let (a, b) = (fp.path.segments[0].ident.to_string(), fp.path.segments[1].ident.to_string());
                        if a == "Self" || a == *st {
                            if let Some(h) = self.assoc.get(&(st.clone(), b.clone())) {
                                if h.sig.receiver().is_none() {
                                    assoc_hit = Some((b, h.clone(), c.args.iter().cloned().collect()));
                                }
                            }
                        }
                    }
                }
            }
            if let (Expr::MethodCall(m), Some(st)) = (&*e, &self.self_ty) {
                if matches!(&*m.receiver, Expr::Path(p) if p.path.is_ident("self")) {
                    if let Some(h) = self.assoc.get(&(st.clone(), m.method.to_string())) {
                        if h.sig.receiver().is_some() {
                            assoc_hit = Some((m.method.to_string(), h.clone(), m.args.iter().cloned().collect()));
                        }
                    }
                }
            }
            if let Some((name, h, args)) = assoc_hit {
                let typed: Vec<&FnArg> = h.sig.inputs.iter().filter(|a| matches!(a, FnArg::Typed(_))).collect();
                if !eligible_sig(&h.sig, &h.block, true) || typed.len() != args.len() || self.depth >= 3 {
                    return;
                }
                let k = self.k;
                self.k += 1;
                let mut outer: Vec<TokenStream> = vec![];
                let mut inner: Vec<TokenStream> = vec![];
                for (n, (a, arg)) in typed.iter().zip(args.iter()).enumerate() {
                    let FnArg::Typed(pt) = a else { return };
                    let tmp = ident(&format!("__h{k}_{n}"));
                    let pat = &pt.pat;
                    outer.push(quote!(let #tmp = #arg;));
                    inner.push(quote!(let #pat = #tmp;));
                }
                let stmts = &h.block.stmts;
                self.notes.push(format!("call of helper method {name} (not in the pinned extraction / not selected) inlined"));
                let mut ne = parse_expr(quote!({ #(#outer)* { #(#inner)* #(#stmts)* } }));
                self.depth += 1;
                self.visit_expr_mut(&mut ne);
                self.depth -= 1;
                *e = ne;
                return;
            }
            let Expr::Call(c) = e else { return };
            let Expr::Path(fp) = &*c.func else { return };
            let Some(name) = fp.path.get_ident().map(|i| i.to_string()) else { return };
            let Some(h) = self.helpers.get(&name) else { return };
            if !eligible(h) || h.sig.inputs.len() != c.args.len() || self.depth >= 3 {
                return;
            }
            let k = self.k;
            self.k += 1;
            let mut outer: Vec<TokenStream> = vec![];
            let mut inner: Vec<TokenStream> = vec![];
            for (n, (a, arg)) in h.sig.inputs.iter().zip(c.args.iter()).enumerate() {
                let FnArg::Typed(pt) = a else { return };
                let tmp = ident(&format!("__h{k}_{n}"));
                // the flat unit has no module tree: `crate::a::b::T` / `super::T` is `T` there
                struct Flat;
                impl VisitMut for Flat {
                    fn visit_path_mut(&mut self, p: &mut Path) {
                        visit_mut::visit_path_mut(self, p);
                        if p.segments.len() > 1 && p.segments.first().map_or(false, |s| s.ident == "crate" || s.ident == "super" || s.ident == "self") {
                            let last = p.segments.last().unwrap().clone();
                            p.leading_colon = None;
                            p.segments = std::iter::once(last).collect();
                        }
                    }
                }
                let mut ty = (*pt.ty).clone();
                Flat.visit_type_mut(&mut ty);
                let pat = &pt.pat;
                outer.push(quote!(let #tmp: #ty = #arg;));
                inner.push(quote!(let #pat: #ty = #tmp;));
            }
            let stmts = &h.block.stmts;
            self.notes.push(format!("call of unselected helper fn {name} inlined"));
            let mut ne = parse_expr(quote!({ #(#outer)* { #(#inner)* #(#stmts)* } }));
            // helpers of helpers
            self.depth += 1;
            self.visit_expr_mut(&mut ne);
            self.depth -= 1;
            *e = ne;
        }
    }
    if helpers.is_empty() && assoc.is_empty() {
        return;
    }
    let self_ty = match item {
        Item::Impl(im) => Some(match &*im.self_ty {
            Type::Path(tp) => tp.path.segments.last().map(|s| s.ident.to_string()).unwrap_or_default(),
            other => other.to_token_stream().to_string().replace(' ', ""),
        }),
        _ => None,
    };
    let mut v = Inl { helpers, assoc, self_ty, notes: vec![], k: 0, depth: 0 };
    v.visit_item_mut(item);
    let iname = match item {
        Item::Fn(f) => f.sig.ident.to_string(),
        Item::Impl(im) => im.self_ty.to_token_stream().to_string().replace(' ', ""),
        _ => "?".into(),
    };
    for n in v.notes {
        log.entries.push(("R35".into(), iname.clone(), n));
    }
}

pub struct Body<'a> {
    unit: &'a Unit,
    log: &'a mut Log,
    func: String,
    counter: usize,
    closure_counter: usize,
    lifted: &'a mut Vec<Item>,
    rev_ranges: Vec<(String, Expr, Expr)>,
    find_counter: usize,
    pipe_counter: usize,
    /// names bound anywhere in the function being rewritten (parameters and patterns): used to notice that a captured
    /// variable named in a [[lift]] entry has been renamed in the source
    fn_locals: std::collections::HashSet<String>,
}

/// identifiers bound by patterns / used as plain path expressions (not in call position) inside a block
pub fn bound_idents(block: &Block) -> std::collections::HashSet<String> {
    struct B(std::collections::HashSet<String>);
    impl<'ast> syn::visit::Visit<'ast> for B {
        fn visit_pat_ident(&mut self, p: &'ast PatIdent) {
            self.0.insert(p.ident.to_string());
            syn::visit::visit_pat_ident(self, p);
        }
    }
    let mut b = B(Default::default());
    syn::visit::Visit::visit_block(&mut b, block);
    b.0
}
pub fn used_idents(block: &Block) -> std::collections::HashSet<String> {
    struct U(std::collections::HashSet<String>);
    impl<'ast> syn::visit::Visit<'ast> for U {
        fn visit_expr_call(&mut self, c: &'ast ExprCall) {
            // the callee position names a function, not a variable
            if !matches!(&*c.func, Expr::Path(_)) {
                syn::visit::visit_expr(self, &c.func);
            }
            for a in &c.args {
                syn::visit::visit_expr(self, a);
            }
        }
        fn visit_expr_path(&mut self, p: &'ast ExprPath) {
            if let Some(i) = p.path.get_ident() {
                self.0.insert(i.to_string());
            }
        }
    }
    let mut u = U(Default::default());
    syn::visit::Visit::visit_block(&mut u, block);
    u.0
}
fn replace_word(text: &str, from: &str, to: &str) -> String {
    let mut out = String::new();
    let b = text.as_bytes();
    let mut i = 0;
    let is_id = |c: u8| c.is_ascii_alphanumeric() || c == b'_';
    while i < text.len() {
        if text[i..].starts_with(from) && (i == 0 || !is_id(b[i - 1])) && (i + from.len() >= text.len() || !is_id(b[i + from.len()])) {
            out.push_str(to);
            i += from.len();
        } else {
            out.push(b[i] as char);
            i += 1;
        }
    }
    out
}

impl<'a> Body<'a> {
    pub fn new(unit: &'a Unit, log: &'a mut Log, func: String, lifted: &'a mut Vec<Item>) -> Self {
        Body { unit, log, func, counter: 0, closure_counter: 0, lifted, rev_ranges: vec![], find_counter: 0, pipe_counter: 0, fn_locals: Default::default() }
    }

    fn note(&mut self, rule: &str, detail: String) {
        self.log.entries.push((rule.into(), self.func.clone(), detail));
    }

    fn opt(&self, key: &str) -> bool {
        self.unit.opts.get(key).and_then(|v| v.as_bool()).unwrap_or(false)
    }

    fn opt_list(&self, key: &str) -> Vec<String> {
        self.unit.opts.get(key).and_then(|v| v.as_array()).map(|a| a.iter().filter_map(|x| x.as_str().map(|s| s.to_string())).collect()).unwrap_or_default()
    }

    fn rule_map_sum_applies(&self, l: &Local) -> bool {
        let Some(init) = l.init.as_ref() else { return false };
        let Expr::MethodCall(sum) = &*init.expr else { return false };
        if sum.method != "sum" {
            return false;
        }
        let Expr::MethodCall(map) = &*sum.receiver else { return false };
        map.method == "map" && matches!(&*map.receiver, Expr::MethodCall(it) if it.method == "iter")
    }

    fn outline_hit(&self, l: &Local) -> Option<(crate::OutlineSpec, String)> {
        let Pat::Ident(pi) = &l.pat else { return None };
        let short = self.func.rsplit("::").next().unwrap();
        let spec = self.unit.outline.iter().find(|o| o.func == short && pi.ident == o.var)?;
        let init = l.init.as_ref()?;
        Some((spec.clone(), init.expr.to_token_stream().to_string()))
    }

    fn fresh(&mut self) -> usize {
        let k = self.counter;
        self.counter += 1;
        k
    }

    /// R30: the tail expression `SRC.iter().map(A)…filter(C)…limit_sort_unstable(L, CMP).map(D)….collect()` of a listed
    /// function becomes staged loops: (1) per source element, in order: the map / filter stages before the selection;
    /// (2) one call of the outlined selection `limit_sort_all(items, L, CMP)` (contract LS, lane K); (3) per selected item the
    /// remaining map stages.  Side conditions checked here: a linear chain of these adapters only, one-parameter closures.
    /// What is dropped: laziness (the closures are called stage by stage instead of interleaved) — equivalent when the
    /// closures do not share mutable state, which rustc's borrow checker re-checks on the rewritten body.
    /// R31: a local closure `let [mut] f = |p..| BODY;` that is only ever called directly (`f(a..)`) is inlined at its call sites
    /// (beta reduction): `{ let p = a; ..; BODY }`; a parameter whose argument is the variable of the same name needs no binding
    fn rule_inline_closures(&mut self, block: &mut Block) {
        let mut defs: Vec<(Ident, ExprClosure)> = vec![];
        for st in block.stmts.iter() {
            if let Stmt::Local(l) = st {
                if let (Pat::Ident(pi), Some(init)) = (&l.pat, &l.init) {
                    if let Expr::Closure(c) = &*init.expr {
                        defs.push((pi.ident.clone(), c.clone()));
                    }
                }
            }
        }
        for (name, clo) in defs {
            struct Uses<'u> { name: &'u Ident, calls: usize, other: usize }
            impl<'u> VisitMut for Uses<'u> {
                fn visit_expr_mut(&mut self, e: &mut Expr) {
                    if let Expr::Call(c) = e {
                        if let Expr::Path(p) = &*c.func {
                            if p.path.is_ident(self.name) {
                                self.calls += 1;
                                for a in c.args.iter_mut() { self.visit_expr_mut(a); }
                                return;
                            }
                        }
                    }
                    if let Expr::Path(p) = e {
                        if p.path.is_ident(self.name) { self.other += 1; }
                    }
                    visit_mut::visit_expr_mut(self, e);
                }
            }
            let mut u = Uses { name: &name, calls: 0, other: 0 };
            let mut probe = block.clone();
            u.visit_block_mut(&mut probe);
            if u.calls == 0 || u.other != 0 {
                continue;
            }
            struct Inl<'u> { name: &'u Ident, clo: &'u ExprClosure }
            impl<'u> VisitMut for Inl<'u> {
                fn visit_expr_mut(&mut self, e: &mut Expr) {
                    visit_mut::visit_expr_mut(self, e);
                    if let Expr::Call(c) = e {
                        if let Expr::Path(p) = &*c.func {
                            if p.path.is_ident(self.name) && c.args.len() == self.clo.inputs.len() {
                                let mut binds = TokenStream::new();
                                for (pat, arg) in self.clo.inputs.iter().zip(c.args.iter()) {
                                    let inner = match pat { Pat::Type(pt) => &*pt.pat, other => other };
                                    let same = match (inner, arg) {
                                        (Pat::Ident(pi), Expr::Path(ap)) => ap.path.is_ident(&pi.ident),
                                        _ => false,
                                    };
                                    if !same {
                                        binds.extend(quote!(let #pat = #arg;));
                                    }
                                }
                                let body = &self.clo.body;
                                *e = parse_expr(quote!({ #binds #body }));
                            }
                        }
                    }
                }
            }
            let mut inl = Inl { name: &name, clo: &clo };
            inl.visit_block_mut(block);
            block.stmts.retain(|st| !matches!(st, Stmt::Local(l) if matches!(&l.pat, Pat::Ident(pi) if pi.ident == name)));
            self.note("R31", format!("local closure `{}` inlined at its {} call sites", name, u.calls));
            // an inlined call in statement position leaves `{ { .. } };`: blocks without bindings are spliced into their parent
            struct Flat;
            impl VisitMut for Flat {
                fn visit_block_mut(&mut self, b: &mut Block) {
                    visit_mut::visit_block_mut(self, b);
                    let old = std::mem::take(&mut b.stmts);
                    for st in old {
                        match st {
                            Stmt::Expr(Expr::Block(inner), semi) if inner.label.is_none() && inner.attrs.is_empty() && !inner.block.stmts.iter().any(|x| matches!(x, Stmt::Local(_) | Stmt::Item(_)))
                                && (semi.is_some() || !matches!(inner.block.stmts.last(), Some(Stmt::Expr(_, None))) || matches!(inner.block.stmts.last(), Some(Stmt::Expr(Expr::If(_), None)) | Some(Stmt::Expr(Expr::Block(_), None)))) && semi.is_some() => {
                                let mut inner_stmts = inner.block.stmts;
                                // a trailing expression of unit type becomes a statement
                                if let Some(Stmt::Expr(e, None)) = inner_stmts.pop() {
                                    inner_stmts.push(Stmt::Expr(e, Some(Default::default())));
                                }
                                b.stmts.extend(inner_stmts);
                            }
                            other => b.stmts.push(other),
                        }
                    }
                }
            }
            for _ in 0..3 { Flat.visit_block_mut(block); }
        }
    }

    /// R30: a linear adapter chain `SRC.iter()[.enumerate()] (.map|.filter)* .limit_sort_unstable(L, CMP) (.map|.filter)* .collect()`
    /// as the tail expression of the function, or as the initialiser of a `let`, becomes two staged `while` loops around
    /// `limit_sort_all(items, L, CMP)`.
    fn rule_pipeline(&mut self, block: &mut Block, ret: &ReturnType) -> bool {
        let mut done = false;
        // `let x = <chain>;`
        for st in block.stmts.iter_mut() {
            if let Stmt::Local(l) = st {
                if let Some(init) = l.init.as_mut() {
                    if init.diverge.is_none() {
                        let out_ty: Option<Type> = self.pipeline_opt("pipeline_out").map(|t| syn::parse_str(&t).unwrap_or_else(|e| fail(&format!("bad pipeline_out: {e}"))));
                        if let Some(stmts) = self.pipeline_stmts(&init.expr, out_ty.unwrap_or(parse_quote!(Vec<_>))) {
                            let blk: Expr = parse_quote!({ #(#stmts)* });
                            *init.expr = blk;
                            done = true;
                        }
                    }
                }
            }
        }
        if let Some(Stmt::Expr(tail, None)) = block.stmts.last() {
            let out_ty: Type = match ret { ReturnType::Type(_, t) => (**t).clone(), _ => parse_quote!(Vec<_>) };
            if let Some(stmts) = self.pipeline_stmts(&tail.clone(), out_ty) {
                block.stmts.pop();
                block.stmts.extend(stmts);
                done = true;
            }
        }
        done
    }

    fn pipeline_opt(&self, key: &str) -> Option<String> {
        self.unit.opts.get(key).and_then(|v| v.as_table()).and_then(|t| t.get(&self.func)).and_then(|v| v.as_str()).map(|s| s.to_string())
    }

    /// field-wise bindings for a closure parameter pattern `pat` matched against the place `e`;
    /// by_ref: the closure receives `&item` (filter), otherwise the item itself (map)
    fn pipeline_bind(pat: &Pat, e: &TokenStream, by_ref: bool) -> Option<TokenStream> {
        match pat {
            Pat::Tuple(t) => {
                let mut out = TokenStream::new();
                for (k, sub) in t.elems.iter().enumerate() {
                    let idx = syn::Index::from(k);
                    match sub {
                        Pat::Wild(_) => {}
                        Pat::Ident(pi) if pi.by_ref.is_none() && pi.subpat.is_none() => {
                            let x = &pi.ident;
                            if by_ref { out.extend(quote!(let #x = &#e.#idx;)); } else { out.extend(quote!(let #x = #e.#idx;)); }
                        }
                        Pat::Reference(pr) => {
                            let Pat::Ident(pi) = &*pr.pat else { return None };
                            let x = &pi.ident;
                            out.extend(quote!(let #x = *#e.#idx;));
                        }
                        _ => return None,
                    }
                }
                Some(out)
            }
            _ => None,
        }
    }

    fn pipeline_stmts(&mut self, tail: &Expr, out_ty: Type) -> Option<Vec<Stmt>> {
        // unroll the chain
        let mut stages: Vec<(String, Vec<Expr>)> = vec![];
        let mut cur: &Expr = tail;
        let src: Expr;
        loop {
            match cur {
                Expr::MethodCall(m) => {
                    let name = m.method.to_string();
                    if name == "iter" && m.args.is_empty() {
                        src = (*m.receiver).clone();
                        break;
                    }
                    if !["map", "filter", "limit_sort_unstable", "collect", "enumerate"].contains(&name.as_str()) {
                        return None;
                    }
                    stages.push((name, m.args.iter().cloned().collect()));
                    cur = &m.receiver;
                }
                _ => return None,
            }
        }
        stages.reverse();
        if stages.last().map(|s| s.0.as_str()) != Some("collect") || !stages.iter().any(|s| s.0 == "limit_sort_unstable") {
            return None;
        }
        let k = self.pipe_counter;
        self.pipe_counter += 1;
        let (buf, sel, out, i, j, cur_v) = (ident(&format!("__items{k}")), ident(&format!("__sel{k}")), ident(&format!("__out{k}")), ident(&format!("__p{k}")), ident(&format!("__q{k}")), ident("__cur"));
        let mut pre: Vec<TokenStream> = vec![];
        let mut post: Vec<TokenStream> = vec![];
        let mut seen_sel: Option<(Expr, Expr)> = None;
        let mut first = true;
        let mut cur_is_ref = false;
        let mut cur_defined = false;     // `__cur` holds the current element
        let n_stage = stages.len();
        for (sx, (name, args)) in stages.iter().enumerate() {
            match name.as_str() {
                "collect" => {}
                "enumerate" => {
                    if !first || !args.is_empty() {
                        return None;
                    }
                    // the element is the pair (position, &element)
                    pre.push(quote!(let #cur_v = (__ix, &#src[__ix]);));
                    cur_defined = true;
                    first = false;
                }
                "limit_sort_unstable" => {
                    if args.len() != 2 || seen_sel.is_some() {
                        return None;
                    }
                    if !cur_defined && first {
                        // no stage before the selection: the items are `&element`
                        pre.push(quote!(let #cur_v = &#src[__ix];));
                        first = false;
                    }
                    seen_sel = Some((args[0].clone(), args[1].clone()));
                    cur_defined = false;
                }
                "map" | "filter" => {
                    let Some(Expr::Closure(c)) = args.first() else { return None };
                    if c.inputs.len() != 1 {
                        return None;
                    }
                    let p = &c.inputs[0];
                    let body = &c.body;
                    let post_empty = post.is_empty();
                    let in_post = seen_sel.is_some();
                    let target = if !in_post { &mut pre } else { &mut post };
                    if matches!(p, Pat::Tuple(_)) {
                        // tuple patterns: field-wise bindings (rustc validates the by-value ones: the fields must be Copy)
                        let place: TokenStream = if in_post && post_empty { quote!(#sel[__jx]) } else { quote!(#cur_v) };
                        let binds = Self::pipeline_bind(p, &place, name == "filter")?;
                        if name == "map" {
                            target.push(quote!(#binds let #cur_v = #body;));
                            cur_is_ref = false;
                        } else {
                            if in_post && post_empty {
                                target.push(quote!(let #cur_v = #sel[__jx];));
                            }
                            target.push(quote!(let __keep = { #binds #body }; if !__keep { continue; }));
                        }
                        first = false;
                        cur_defined = true;
                        continue;
                    }
                    if name == "map" {
                        if first {
                            // first stage sees `&element` of the source slice
                            if let Pat::Reference(pr) = p {
                                let inner = &pr.pat;
                                target.push(quote!(let #inner = #src[__ix]; let #cur_v = #body;));
                            } else {
                                target.push(quote!(let #p = &#src[__ix]; let #cur_v = #body;));
                            }
                        } else if in_post && post_empty {
                            target.push(quote!(let #p = &#sel[__jx]; let #cur_v = #body;));
                        } else {
                            target.push(quote!(let #p = #cur_v; let #cur_v = #body;));
                        }
                        cur_is_ref = false;
                    } else if in_post && post_empty {
                        // a filter directly after the selection sees `&element` of the selected items
                        target.push(quote!(let #cur_v = &#sel[__jx]; let __keep = { let #p = #cur_v; #body }; if !__keep { continue; }));
                        cur_is_ref = true;
                    } else if first {
                        // a filter as the first stage sees `&&element`
                        target.push(quote!(let #cur_v = &#src[__ix]; let __keep = { let #p = &#cur_v; #body }; if !__keep { continue; }));
                    } else if cur_is_ref {
                        target.push(quote!(let __keep = { let #p = #cur_v; #body }; if !__keep { continue; }));
                    } else {
                        target.push(quote!(let __keep = { let #p = &#cur_v; #body }; if !__keep { continue; }));
                    }
                    first = false;
                    cur_defined = true;
                }
                _ => return None,
            }
            let _ = (sx, n_stage);
        }
        let (limit, cmp) = seen_sel?;
        if post.is_empty() {
            post.push(quote!(let #cur_v = #sel[__jx];));
        }
        // a closure comparator is replaced by the opaque function the unit names for it (its text is pinned by hash): the
        // selection contract LS does not depend on it, the ordering it induces is lane K's business
        let lift_spec = self.pipeline_opt("pipeline_cmp_fn");
        let cmp_ts: TokenStream = if let (Expr::Closure(cc), Some(spec)) = (&cmp, &lift_spec) {
            // R12b: the comparator closure is lifted into a named function `NAME(T1, T2)` (unit file) with the closure's own
            // parameter names and body; rustc validates the parameter types
            let (name, tys) = spec.split_once('(').unwrap_or_else(|| fail("bad pipeline_cmp_fn: NAME(T1, T2) expected"));
            let tys = tys.trim().strip_suffix(')').unwrap_or(tys);
            let tys: Vec<&str> = tys.split(if tys.contains(';') { ';' } else { ',' }).map(|t| t.trim()).collect();
            if cc.inputs.len() != 2 || tys.len() != 2 {
                fail("R12b: a comparator closure has two parameters");
            }
            let mut params = TokenStream::new();
            let mut binds = TokenStream::new();
            for (n, (pat, ty)) in cc.inputs.iter().zip(tys.iter()).enumerate() {
                let t: Type = syn::parse_str(ty).unwrap_or_else(|e| fail(&format!("bad pipeline_cmp_fn type: {e}")));
                match pat {
                    Pat::Ident(pi) => { let x = &pi.ident; params.extend(quote!(#x: #t,)); }
                    other => {
                        // a destructuring parameter becomes a named parameter plus `let PAT = name;`
                        let x = ident(if n == 0 { "__a" } else { "__b" });
                        params.extend(quote!(#x: #t,));
                        binds.extend(quote!(let #other = #x;));
                    }
                }
            }
            let fname = ident(name.trim());
            let body = &cc.body;
            let mut f: ItemFn = syn::parse2(quote!( pub fn #fname(#params) -> Ordering { #binds #body } )).unwrap_or_else(|e| fail(&format!("R12b: {e}")));
            {
                let mut inner = Body::new(self.unit, self.log, name.trim().to_string(), self.lifted);
                inner.visit_block_mut(&mut f.block);
            }
            self.lifted.push(Item::Fn(f));
            // the call names the comparator by the unit struct of [opts.pipeline_cmp] (a value that specifications can mention);
            // what the comparator computes is the lifted function's contract
            let tag = self.pipeline_opt("pipeline_cmp").unwrap_or_else(|| fail("R12b: [opts.pipeline_cmp] must name the tag struct"));
            let tag_id = ident(tag.split_whitespace().next().unwrap_or(""));
            self.note("R12", format!("comparator closure of the selection lifted into fn {} (tag {})", name.trim(), tag_id));
            quote!(#tag_id)
        } else if let Expr::Closure(_) = &cmp {
            let text = cmp.to_token_stream().to_string();
            let h = format!("{:016x}", fnv64(&text));
            let spec = self.pipeline_opt("pipeline_cmp").unwrap_or_else(|| fail(&format!("R30: {} has a closure comparator; name an opaque stand-in in [opts.pipeline_cmp] (text hash {h})", self.func)));
            let mut it = spec.split_whitespace();
            let name = it.next().unwrap_or("");
            let sha = it.next().unwrap_or("");
            let changed = if !sha.is_empty() && sha != h { " CHANGED" } else { "" };
            self.note("R12", format!("comparator closure of the selection replaced by {name}; closure text hash {h}{changed}"));
            let id = ident(name);
            quote!(#id)
        } else if let (Expr::Path(_), Some(tag)) = (&cmp, self.pipeline_opt("pipeline_cmp")) {
            // a comparator function named by path: the call names it by the unit's tag struct (a value that specifications can
            // mention); what the function computes is established where the function is (lane K for compare_hits)
            let name = tag.split_whitespace().next().unwrap_or("").to_string();
            self.note("R12", format!("comparator function `{}` of the selection named by tag {name}", cmp.to_token_stream()));
            let id = ident(&name);
            quote!(#id)
        } else {
            cmp.to_token_stream()
        };
        self.note("R30", format!("iterator pipeline over `{}` -> staged loops around limit_sort_all (LS contract)", src.to_token_stream()));
        // element type of the intermediate buffer from the unit file (validated by rustc)
        let item_ty: Type = self.pipeline_opt("pipeline_item")
            .map(|t| syn::parse_str(&format!("Vec<{t}>")).unwrap_or_else(|e| fail(&format!("bad pipeline_item: {e}")))).unwrap_or(parse_quote!(Vec<_>));
        Some(parse_stmts(quote!(
            let mut #buf: #item_ty = Vec::new();
            let mut #i = 0;
            while #i < #src.len() { let __ix = #i; #i += 1; #(#pre)* #buf.push(#cur_v); }
            let #sel = limit_sort_all(#buf, #limit, #cmp_ts);
            let mut #out: #out_ty = Vec::new();
            let mut #j = 0;
            while #j < #sel.len() { let __jx = #j; #j += 1; #(#post)* #out.push(#cur_v); }
            #out
        )))
    }

    fn finish_fn(&mut self, sig: &mut Signature, block: &mut Block) {
        // R12 for a tail expression: `var = "<tail>"`
        let short = self.func.rsplit("::").next().unwrap().to_string();
        if let Some(spec) = self.unit.outline.iter().find(|o| o.func == short && o.var == "<tail>").cloned() {
            if let Some(Stmt::Expr(e, None)) = block.stmts.last_mut() {
                let text = e.to_token_stream().to_string();
                let h = fnv64(&text);
                let changed = if !spec.sha.is_empty() && spec.sha != format!("{h:016x}") { " CHANGED" } else { "" };
                *e = syn::parse_str(&format!("{}({})", spec.name, spec.args)).unwrap_or_else(|er| fail(&format!("bad outline spec: {er}")));
                self.note("R12", format!("tail iterator chain outlined into {}(..); chain text hash {h:016x}{changed}", spec.name));
            }
        }
        // R2': after a `TLS.with(|x| { .. return; .. })` closure was inlined, its bare `return;` is an early exit to the
        // function's tail expression E (side-effect free: a plain variable)
        if matches!(sig.output, ReturnType::Default) {
            return;
        }
        let tail = match block.stmts.last() {
            Some(Stmt::Expr(e @ Expr::Path(_), None)) => e.clone(),
            _ => return,
        };
        struct Ret<'x> {
            tail: &'x Expr,
            hits: usize,
        }
        impl<'x> VisitMut for Ret<'x> {
            fn visit_expr_mut(&mut self, e: &mut Expr) {
                match e {
                    Expr::Closure(_) => {}
                    Expr::Return(r) if r.expr.is_none() => {
                        r.expr = Some(Box::new(self.tail.clone()));
                        self.hits += 1;
                    }
                    _ => visit_mut::visit_expr_mut(self, e),
                }
            }
        }
        let mut r = Ret { tail: &tail, hits: 0 };
        r.visit_block_mut(block);
        if r.hits > 0 {
            self.note("R2'", format!("{} bare `return;` of an inlined thread-local closure -> `return {};`", r.hits, tail.to_token_stream()));
        }
    }

    // ---------------------------------------------------------------- expression rules

    fn rewrite_macro_expr(&mut self, mac: &Macro) -> Option<Expr> {
        let name = mac.path.segments.last()?.ident.to_string();
        match name.as_str() {
            "max" | "min" => {
                // R5
                let mut args: Vec<Expr> = mac.parse_body_with(Punctuated::<Expr, Token![,]>::parse_terminated).ok()?.into_iter().collect();
                for a in args.iter_mut() {
                    self.visit_expr_mut(a);
                }
                let f = ident(if name == "max" { "vmax" } else { "vmin" });
                let mut acc = args.pop()?;
                while let Some(x) = args.pop() {
                    acc = parse_expr(quote!(#f(#x, #acc)));
                }
                self.note("R5", format!("{name}! -> nested v{name}"));
                Some(acc)
            }
            "debug_assert" | "assert" => {
                let mut args: Vec<Expr> = mac.parse_body_with(Punctuated::<Expr, Token![,]>::parse_terminated).ok()?.into_iter().collect();
                let mut c = args.remove(0);
                self.visit_expr_mut(&mut c);
                self.note("R23", format!("{name}!(c, ..) -> vassert(c) [obligation: c holds]"));
                Some(parse_expr(quote!(vassert(#c))))
            }
            "panic" => {
                self.note("R23", "panic!(..) -> vpanic() [obligation: unreachable]".into());
                Some(parse_expr(quote!(vpanic())))
            }
            "__vclo" => None,
            _ => None,
        }
    }

    fn rewrite_expr_post(&mut self, e: &mut Expr) {
        // called after children were visited
        match e {
            Expr::Cast(c) => {
                let ty = c.ty.to_token_stream().to_string();
                if ty == "f64" {
                    let inner = strip_paren(&c.expr).clone();
                    self.note("R3", "`E as f64` -> usize_as_f64(E)".into());
                    *e = parse_expr(quote!(usize_as_f64(#inner)));
                } else if ty == "isize" && matches!(strip_paren(&c.expr), Expr::MethodCall(m) if m.method == "ceil" && m.args.is_empty()) {
                    if let Expr::MethodCall(m) = strip_paren(&c.expr) {
                        let r = &m.receiver;
                        self.note("R3", "`E.ceil() as isize` -> f64_ceil_as_isize(E)".into());
                        *e = parse_expr(quote!(f64_ceil_as_isize(#r)));
                    }
                } else if ty == "isize" && self.opt_list("bool_casts").iter().any(|f| self.func.ends_with(f.as_str())) {
                    let inner = strip_paren(&c.expr).clone();
                    self.note("R3", "`b as isize` (bool) -> bool_as_isize(b)".into());
                    *e = parse_expr(quote!(bool_as_isize(#inner)));
                } else if ty == "usize" {
                    // E.ceil() as usize
                    if let Expr::MethodCall(m) = strip_paren(&c.expr) {
                        if m.method == "ceil" && m.args.is_empty() {
                            let r = &m.receiver;
                            self.note("R3", "`E.ceil() as usize` -> f64_ceil_as_usize(E)".into());
                            *e = parse_expr(quote!(f64_ceil_as_usize(#r)));
                        }
                    }
                }
            }
            Expr::MethodCall(m) => {
                let method = m.method.to_string();
                if (method == "sort_by" || method == "sort_unstable_by") && m.args.len() == 1 {
                    // R33: `V.sort_by(|x, y| F(x, y))` -> `vsort_by(V, F)` (the closure only forwards to the comparator F)
                    if let Expr::Closure(c) = &m.args[0] {
                        if c.inputs.len() == 2 {
                            if let Expr::Call(call) = &*c.body {
                                let names: Vec<String> = c.inputs.iter().map(|p| p.to_token_stream().to_string()).collect();
                                let args: Vec<String> = call.args.iter().map(|a| a.to_token_stream().to_string()).collect();
                                if names == args {
                                    let (v, f) = (&m.receiver, &call.func);
                                    let helper = ident(if method == "sort_by" { "vsort_by" } else { "vsort_unstable_by" });
                                    self.note("R33", format!("`V.{method}(|x, y| F(x, y))` -> {helper}(V, F)"));
                                    *e = parse_expr(quote!(#helper(#v, #f)));
                                    return;
                                }
                            }
                        }
                    }
                }
                if method == "abs" && m.args.is_empty() {
                    // (a as isize - b as isize).abs()
                    if let Expr::Binary(b) = strip_paren(&m.receiver) {
                        if matches!(b.op, BinOp::Sub(_)) {
                            if let (Expr::Cast(l), Expr::Cast(r)) = (strip_paren(&b.left), strip_paren(&b.right)) {
                                if l.ty.to_token_stream().to_string() == "isize" && r.ty.to_token_stream().to_string() == "isize" {
                                    let (a, bb) = (&l.expr, &r.expr);
                                    self.note("R3", "`(a as isize - b as isize).abs()` -> usize_absdiff(a, b)".into());
                                    *e = parse_expr(quote!(usize_absdiff(#a, #bb)));
                                    return;
                                }
                            }
                        }
                    }
                }
                if method == "with" && m.args.len() == 1 {
                    // R2: TLSNAME.with(|v| BODY)  ->  { let v = &mut param.TLSNAME; BODY }
                    if let Expr::Path(rp) = &*m.receiver {
                        if let Some(name) = rp.path.get_ident().map(|i| i.to_string()) {
                            if let Some(spec) = self.unit.tls.get(&name) {
                                if let Expr::Closure(cl) = &m.args[0] {
                                    if cl.inputs.len() == 1 {
                                        let v = &cl.inputs[0];
                                        let p = ident(&spec.param);
                                        let f = ident(&name);
                                        let body = &cl.body;
                                        self.note("R2", format!("{name}.with(|{}| ..) -> block over the `{}` parameter", v.to_token_stream(), spec.param));
                                        *e = parse_expr(quote!({ let #v = &mut #p.#f; #body }));
                                        return;
                                    }
                                }
                            }
                        }
                    }
                }
                if method == "is_whitespace" && m.args.is_empty() {
                    // R18: vstd already carries a (different) specification of char::is_whitespace; the call goes through a wrapper
                    let r = &m.receiver;
                    self.note("R18", "`c.is_whitespace()` -> char_is_ws(c)".into());
                    *e = parse_expr(quote!(char_is_ws(#r)));
                    return;
                }
                if method == "collect" && m.args.is_empty() {
                    // R6b: `E.iter().map(|_| C).collect::<Vec<_>>()` with a constant C -> `vec![C; E.len()]`
                    if let Expr::MethodCall(mp) = &*m.receiver {
                        if mp.method == "map" && mp.args.len() == 1 {
                            if let (Expr::Closure(c), Expr::MethodCall(it)) = (&mp.args[0], &*mp.receiver) {
                                if it.method == "iter" && c.inputs.len() == 1 && matches!(&c.inputs[0], Pat::Wild(_)) && matches!(&*c.body, Expr::Path(_)) {
                                    let (src, body) = (&it.receiver, &c.body);
                                    self.note("R6", "`E.iter().map(|_| C).collect()` -> `vec![C; E.len()]`".into());
                                    *e = parse_expr(quote!(vec![#body; #src.len()]));
                                    return;
                                }
                            }
                        }
                    }
                }
                if method == "unwrap_or" && m.args.len() == 1 {
                    // R18: `c.to_lowercase().next().unwrap_or(D)` -> char_to_lower(c, D)
                    if let Expr::MethodCall(nx) = &*m.receiver {
                        if nx.method == "next" {
                            if let Expr::MethodCall(tl) = &*nx.receiver {
                                if tl.method == "to_lowercase" {
                                    let (c, d) = (&tl.receiver, &m.args[0]);
                                    self.note("R18", "`c.to_lowercase().next().unwrap_or(d)` -> char_to_lower(c, d)".into());
                                    *e = parse_expr(quote!(char_to_lower(*#c, #d)));
                                    return;
                                }
                            }
                        }
                    }
                }
                if method == "unwrap_or" && m.args.len() == 1 {
                    // R16: `O.map(|p| F).unwrap_or(D)` -> `match O { Some(p) => F, None => D }` (definition of map / unwrap_or)
                    if let Expr::MethodCall(mp) = &*m.receiver {
                        if mp.method == "map" && mp.args.len() == 1 {
                            if let Expr::Closure(c) = &mp.args[0] {
                                if c.inputs.len() == 1 && !matches!(&*mp.receiver, Expr::MethodCall(x) if x.method == "iter" || x.method == "min") {
                                    let (o, p, f, d) = (&mp.receiver, &c.inputs[0], &c.body, &m.args[0]);
                                    self.note("R16", "`O.map(|p| F).unwrap_or(D)` -> match".into());
                                    *e = parse_expr(quote!(match #o { Some(#p) => #f, None => #d }));
                                    return;
                                }
                            }
                        }
                    }
                }
                if self.opt("strip_refcell") && (method == "borrow_mut" || method == "borrow") && m.args.is_empty() {
                    // X.borrow_mut().m(..) -> X.m(..) : handled by replacing the call by its receiver
                    let r = (*m.receiver).clone();
                    self.note("R1", format!("`X.{method}()` -> `X`"));
                    *e = r;
                    return;
                }
                if method == "as_ref" && m.args.is_empty() && self.opt_list("strip_as_ref").iter().any(|f| self.func.ends_with(f.as_str())) {
                    let r = (*m.receiver).clone();
                    self.note("R14", "`X.as_ref()` -> `X` (generic container instantiated)".into());
                    *e = r;
                    return;
                }
            }
            Expr::Reference(r) => {
                // &mut *X  /  &*X  where X is a place left after RefCell stripping
                if self.opt("strip_refcell") {
                    if let Expr::Unary(u) = &*r.expr {
                        if matches!(u.op, UnOp::Deref(_)) {
                            if is_place(&u.expr) && matches!(strip_paren(&u.expr), Expr::Field(_)) && self.refcell_place(&u.expr) {
                                let inner = (*u.expr).clone();
                                r.expr = Box::new(inner);
                            }
                        }
                    }
                }
            }
            Expr::Call(c) => {
                // R2: calls of functions that received a thread-local parameter pass it on
                if let Expr::Path(fp) = &*c.func {
                    if let Some(last) = fp.path.segments.last() {
                        let callee = last.ident.to_string();
                        let mut extra: Vec<Expr> = vec![];
                        let mut seen: Vec<String> = vec![];
                        for (_n, spec) in self.unit.tls.iter() {
                            if spec.fns.iter().any(|f| *f == callee) && !seen.contains(&spec.param) {
                                seen.push(spec.param.clone());
                                let p = ident(&spec.param);
                                extra.push(parse_expr(quote!(#p)));
                            }
                        }
                        for x in extra {
                            c.args.push(x);
                        }
                    }
                }
                let f = c.func.to_token_stream().to_string().replace(' ', "");
                if (f == "min" || f == "max" || f == "std::cmp::min" || f == "std::cmp::max") && c.args.len() == 2 {
                    let g = ident(if f.ends_with("min") { "vmin" } else { "vmax" });
                    let (a, b) = (&c.args[0], &c.args[1]);
                    self.note("R5", format!("std::cmp::{} -> v{}", &f[f.len() - 3..], &f[f.len() - 3..]));
                    *e = parse_expr(quote!(#g(#a, #b)));
                    return;
                }
                if self.opt("strip_refcell") && f == "RefCell::new" && c.args.len() == 1 {
                    let a = c.args[0].clone();
                    self.note("R1", "`RefCell::new(E)` -> `E`".into());
                    *e = a;
                    return;
                }
                if f == "HashMap::with_capacity_and_hasher" && c.args.len() == 2 {
                    let a = c.args[0].clone();
                    self.note("R14", "`HashMap::with_capacity_and_hasher(n, _)` -> `HashMap::with_capacity(n)` (hasher dropped)".into());
                    *e = parse_expr(quote!(HashMap::with_capacity(#a)));
                    return;
                }
                if f == "Default::default" && c.args.is_empty() {
                    // R14: `Default::default()` at a field whose type the unit file names -> `<Ty>::default()`
                    if let Some(ty) = self.unit.opts.get("default_of").and_then(|v| v.as_table()).and_then(|t| t.get(&self.func)).and_then(|v| v.as_str()) {
                        let t = ident(ty);
                        self.note("R14", format!("`Default::default()` -> `{ty}::default()`"));
                        *e = parse_expr(quote!(#t::default()));
                        return;
                    }
                }
                if f == "HashMap::default" && c.args.is_empty() {
                    self.note("R14", "`HashMap::default()` -> `HashMap::new()` (hasher dropped)".into());
                    *e = parse_expr(quote!(HashMap::new()));
                    return;
                }
            }
            Expr::Binary(b) if matches!(b.op, BinOp::Eq(_)) && matches!(strip_paren(&b.left), Expr::Reference(r) if matches!(strip_paren(&r.expr), Expr::Index(ix) if matches!(&*ix.index, Expr::Range(rg) if rg.start.is_none() && rg.end.is_none()))) => {
                // R3: `&v[..] == w` (slice comparison) -> slice_eq(&v[..], w)
                let (l, r) = (&b.left, &b.right);
                self.note("R3", "`&v[..] == w` -> slice_eq(&v[..], w)".into());
                *e = parse_expr(quote!(slice_eq(#l, #r)));
            }
            Expr::Index(ix) => {
                // R26: `x[Enum::Variant]` through the repository's one-line `impl Index<Enum> for Scores { &self.0[score as usize] }`
                // -> `x.0[<declared discriminant>]`
                if let Some(tbl) = self.unit.opts.get("enum_index").and_then(|v| v.as_table()) {
                    let ety = tbl.get("type").and_then(|v| v.as_str()).unwrap_or("");
                    if let Expr::Path(p) = &*ix.index {
                        let segs: Vec<String> = p.path.segments.iter().map(|s| s.ident.to_string()).collect();
                        if segs.len() == 2 && segs[0] == ety {
                            if let Some(d) = tbl.get("variants").and_then(|v| v.as_table()).and_then(|t| t.get(&segs[1])).and_then(|v| v.as_integer()) {
                                let base = &ix.expr;
                                let lit = proc_macro2::Literal::usize_unsuffixed(d as usize);
                                self.note("R26", format!("`[{}::{}]` -> `.0[{}]` (declared discriminant)", ety, segs[1], d));
                                *e = parse_expr(quote!(#base.0[#lit]));
                            } else {
                                fail(&format!("lost anchor: enum variant {}::{} has no declared discriminant", ety, segs[1]));
                            }
                        }
                    }
                }
            }
            Expr::Path(p) if p.qself.is_none() && p.path.segments.len() == 2 && self.opt_list("strip_modules").iter().any(|m| p.path.segments[0].ident == m) => {
                // R24: the unit is flat; `module::item` of a repository module becomes `item`
                let last = p.path.segments[1].clone();
                let mut np = p.clone();
                np.path.segments = std::iter::once(last).collect();
                *e = Expr::Path(np);
            }
            Expr::Path(p) => {
                let s = p.to_token_stream().to_string().replace(' ', "");
                if s == "std::f64::EPSILON" || s == "f64::EPSILON" {
                    self.note("R3", "`std::f64::EPSILON` -> F64_EPSILON".into());
                    *e = parse_expr(quote!(F64_EPSILON));
                }
            }
            _ => {}
        }
    }

    /// after `.borrow_mut()` was dropped the operand of `*` is a plain place expression
    fn refcell_place(&mut self, _e: &Expr) -> bool {
        true
    }

    // ---------------------------------------------------------------- statement rules

    fn rewrite_stmt(&mut self, stmt: Stmt) -> Vec<Stmt> {
        // returns the replacement (children NOT yet visited)
        if let Some(v) = self.hoist_chain(&stmt) {
            return v;
        }
        match &stmt {
            Stmt::Expr(Expr::ForLoop(fl), _) if as_push_all(fl).is_some() => {
                // R8c: `for x in E { V.push(x); }` (E an owned Vec) -> `{ let mut __t = E; V.append(&mut __t); }`
                let (v, src) = as_push_all(fl).unwrap();
                let k = self.fresh();
                let t = ident(&format!("__t{k}"));
                self.note("R8", "`for x in E { V.push(x); }` -> V.append(&mut E)".into());
                parse_stmts(quote!( let mut #t = #src; #v.append(&mut #t); ))
            }
            Stmt::Expr(Expr::While(w), _) if matches!(&*w.cond, Expr::Let(_)) => {
                // R32: `while let P = E { B }` -> `loop { match E { P => { B } _ => { break; } } }`
                let Expr::Let(l) = &*w.cond else { unreachable!() };
                let (pat, ex, body) = (&l.pat, &l.expr, &w.body);
                self.note("R32", "`while let P = E { B }` -> loop / match / break".into());
                parse_stmts(quote!( loop { match #ex { #pat => #body _ => { break; } } } ))
            }
            Stmt::Expr(Expr::ForLoop(fl), _) => {
                if let Some(v) = self.rule_enumerate(fl) {
                    return v;
                }
                if let Some(v) = self.rule_hoist_range(fl) {
                    return v;
                }
                if let Some(v) = self.rule_rev_range(fl) {
                    return v;
                }
                if let Some(v) = self.rule_custom_iter(fl) {
                    return v;
                }
                if let Some(v) = self.rule_zip(fl) {
                    return v;
                }
                if let Some(v) = self.rule_mut_iter(fl) {
                    return v;
                }
                if let Some(v) = self.rule_slice_iter(fl) {
                    return v;
                }
                vec![stmt]
            }
            Stmt::Expr(Expr::Match(mx), semi) => {
                if let Some((src, param, pred)) = as_iter_find(&mx.expr) {
                    let k = self.fresh();
                    let (found, i) = (ident(&format!("__found{k}")), ident(&format!("__i{k}")));
                    let mut m2 = mx.clone();
                    m2.expr = Box::new(parse_expr(quote!(#found)));
                    let tail = Stmt::Expr(Expr::Match(m2), *semi);
                    self.note("R16", format!("{}.iter().find(|{}| ..) -> first-match loop", src.to_token_stream(), param));
                    // element type from the unit file (validated by rustc: a wrong type does not compile)
                    let short = self.func.rsplit("::").next().unwrap().to_string();
                    let tys: Vec<String> = self.unit.opts.get("find_types").and_then(|v| v.as_table()).and_then(|t| t.get(&short)).and_then(|v| v.as_array())
                        .map(|a| a.iter().filter_map(|x| x.as_str().map(|s| s.to_string())).collect()).unwrap_or_default();
                    let ord = self.find_counter;
                    self.find_counter += 1;
                    let ty: Type = match tys.get(ord) {
                        Some(t) => syn::parse_str(&format!("Option<{t}>")).unwrap_or_else(|e| fail(&format!("bad find_types: {e}"))),
                        None => parse_quote!(Option<_>),
                    };
                    let mut v = parse_stmts(quote!(
                        let mut #found: #ty = None;
                        let mut #i = 0;
                        while #i < #src.len() { let #param = &#src[#i]; if #pred { #found = Some(#param); break; } #i += 1; }
                    ));
                    v.push(tail);
                    return v;
                }
                vec![stmt]
            }
            Stmt::Local(l) if as_drain_filter_map(l).is_some() => {
                // R21: `let v2 = v.drain(..).filter_map(|m| m).collect::<Vec<_>>();` -> push the Some payloads, then v.clear()
                let src = as_drain_filter_map(l).unwrap();
                let pat = &l.pat;
                let k = self.fresh();
                let (end, i, out) = (ident(&format!("__end{k}")), ident(&format!("__i{k}")), ident(&format!("__out{k}")));
                self.note("R21", format!("{}.drain(..).filter_map(|m| m).collect() -> loop over the Some payloads, then clear()", src.to_token_stream()));
                parse_stmts(quote!(
                    let mut #out = Vec::new();
                    let #end = #src.len();
                    for #i in 0..#end { match &#src[#i] { Some(__m) => { #out.push(__m.clone()); } None => {} } }
                    #src.clear();
                    let #pat = #out;
                ))
            }
            Stmt::Local(l) if self.outline_hit(l).is_some() => {
                let (spec, text) = self.outline_hit(l).unwrap();
                let mut l2 = l.clone();
                let call: Expr = syn::parse_str(&format!("{}({})", spec.name, spec.args)).unwrap_or_else(|e| fail(&format!("bad outline spec: {e}")));
                l2.init.as_mut().unwrap().expr = Box::new(call);
                let h = fnv64(&text);
                self.note("R12", format!("`let {} = <iterator chain>` outlined into {}(..); chain text hash {h:016x}{}", spec.var, spec.name, if !spec.sha.is_empty() && spec.sha != format!("{h:016x}") { " CHANGED" } else { "" }));
                vec![Stmt::Local(l2)]
            }
            Stmt::Local(l) => {
                // remember `let X = (a..b).rev();`
                if let (Pat::Ident(pi), Some(init)) = (&l.pat, &l.init) {
                    if let Some((a, b)) = as_rev_range(&init.expr) {
                        self.rev_ranges.push((pi.ident.to_string(), a, b));
                    }
                }
                vec![stmt]
            }
            Stmt::Expr(Expr::MethodCall(mc), Some(_)) => {
                if let Some(v) = self.rule_extend_map(mc) {
                    return v;
                }
                if let Some(v) = self.rule_or_else_chain(mc) {
                    return v;
                }
                if let Some(v) = self.rule_entry(mc) {
                    return v;
                }
                // R17b: `x.m(|..| ..);` -> `let __cloK = |..| ..; x.m(__cloK);` when the unit file asks for it
                let qkey = format!("{}#{}", self.func, self.closure_counter);
                let skey = format!("{}#{}", self.func.rsplit("::").next().unwrap(), self.closure_counter);
                let key = if self.unit.closure_sig.contains_key(&qkey) { qkey } else { skey };
                if self.unit.closure_sig.get(&key).map(|c| c.bind).unwrap_or(false) && mc.args.len() == 1 {
                    if let Expr::Closure(_) = &mc.args[0] {
                        let name = ident(&format!("__clo{}", self.closure_counter));
                        let clo = &mc.args[0];
                        let recv = &mc.receiver;
                        let m = &mc.method;
                        self.note("R17", format!("closure {key} bound to a local before the call"));
                        return parse_stmts(quote!( let #name = #clo; #recv.#m(#name); ));
                    }
                }
                vec![stmt]
            }
            _ => vec![stmt],
        }
    }

    /// R4: for (i, x) in E.iter().enumerate() { B }
    fn rule_enumerate(&mut self, fl: &ExprForLoop) -> Option<Vec<Stmt>> {
        let Expr::MethodCall(en) = &*fl.expr else { return None };
        if en.method != "enumerate" {
            return None;
        }
        let Expr::MethodCall(it) = &*en.receiver else { return None };
        if it.method != "iter" {
            return None;
        }
        let src = &it.receiver;
        let Pat::Tuple(pt) = &*fl.pat else { return None };
        if pt.elems.len() != 2 {
            return None;
        }
        let ipat = &pt.elems[0];
        let xpat = &pt.elems[1];
        let k = self.fresh();
        let end = ident(&format!("__end{k}"));
        let body = &fl.body.stmts;
        let ivar: Ident = match ipat {
            Pat::Ident(pi) => pi.ident.clone(),
            Pat::Wild(_) => ident(&format!("__i{k}")),
            _ => return None,
        };
        let bind: TokenStream = match xpat {
            Pat::Reference(pr) => {
                let inner = &pr.pat;
                quote!(let #inner = #src[#ivar];)
            }
            Pat::Wild(_) => quote!(),
            Pat::Ident(pi) if self.opt_list("copy_bind").iter().any(|n| pi.ident == n) => {
                self.note("R4c", format!("`{}` bound by value (Copy element; `a + &b` on f64 is std's forwarding impl of `a + b`)", pi.ident));
                quote!(let #pi = #src[#ivar];)
            }
            other => quote!(let #other = &#src[#ivar];),
        };
        self.note("R4", format!("for ({}, {}) in {}.iter().enumerate() -> index loop", ipat.to_token_stream(), xpat.to_token_stream(), src.to_token_stream()));
        let label = &fl.label;
        Some(parse_stmts(quote!(
            let #end = #src.len();
            #label for #ivar in 0..#end { #bind #(#body)* }
        )))
    }

    /// R13: for i in a..X where X mentions self (or a field place)
    fn rule_hoist_range(&mut self, fl: &ExprForLoop) -> Option<Vec<Stmt>> {
        let Expr::Range(r) = &*fl.expr else { return None };
        let end_e = r.end.as_ref()?;
        let s = end_e.to_token_stream().to_string();
        // a loop with a wildcard variable is always given a named counter and a hoisted end (whatever the end expression looks like),
        // so that its shape does not depend on whether the bound is written inline or bound to a local first
        if !(s.contains("self") || s.contains('.') || s.contains('(')) && !matches!(&*fl.pat, Pat::Wild(_)) {
            return None;
        }
        if s.starts_with("__end") {
            return None;
        }
        let k = self.fresh();
        let end = ident(&format!("__end{k}"));
        let start = r.start.as_ref().map(|x| x.to_token_stream()).unwrap_or(quote!(0));
        // a wildcard loop variable gets a name so that invariants can count iterations
        let named: Pat = if matches!(&*fl.pat, Pat::Wild(_)) { let n = ident(&format!("__k{k}")); parse_quote!(#n) } else { (*fl.pat).clone() };
        let pat = &named;
        let body = &fl.body.stmts;
        let label = &fl.label;
        let limits = match r.limits {
            RangeLimits::HalfOpen(_) => quote!(..),
            RangeLimits::Closed(_) => quote!(..=),
        };
        self.note("R13", format!("range end `{s}` hoisted"));
        Some(parse_stmts(quote!(
            let #end = #end_e;
            #label for #pat in #start #limits #end { #(#body)* }
        )))
    }

    /// R4': for x in E.iter() / for &x in E.iter() / for x in &E  -> index loop (so invariants can name the position)
    fn rule_slice_iter(&mut self, fl: &ExprForLoop) -> Option<Vec<Stmt>> {
        if !self.opt("index_loops") {
            return None;
        }
        // R4b: `X.iter().take(N)` / `X.iter().skip(A)` / `X.iter().skip(A).take(N)` / `X.iter().take(N).skip(A)`: the same index loop
        // over the corresponding index range
        let mut take: Option<Expr> = None;
        let mut skip: Option<Expr> = None;
        let mut skip_first = false;
        let mut cur: &Expr = &fl.expr;
        let mut adapters = 0;
        while let Expr::MethodCall(m) = cur {
            if (m.method == "take" || m.method == "skip") && m.args.len() == 1 && adapters < 2 {
                // walking outwards-in: the adapter met first is the outer one, i.e. the one applied last
                if m.method == "take" && take.is_none() {
                    take = Some(m.args[0].clone());
                    skip_first = skip.is_none();
                } else if m.method == "skip" && skip.is_none() {
                    skip = Some(m.args[0].clone());
                    skip_first = take.is_some();
                } else {
                    return None;
                }
                adapters += 1;
                cur = &m.receiver;
            } else {
                break;
            }
        }
        if adapters > 0 && !matches!(cur, Expr::MethodCall(it) if it.method == "iter" && it.args.is_empty()) {
            return None;
        }
        let src: Expr = match cur {
            Expr::MethodCall(it) if it.method == "iter" && it.args.is_empty() => (*it.receiver).clone(),
            Expr::Reference(r) if r.mutability.is_none() => (*r.expr).clone(),
            e if is_place(e) => e.clone(),
            _ => return None,
        };
        let k = self.fresh();
        let end = ident(&format!("__end{k}"));
        let ivar = ident(&format!("__i{k}"));
        let body = &fl.body.stmts;
        if adapters > 0 {
            if has_continue(&fl.body) {
                return None;
            }
            let lo = ident(&format!("__lo{k}"));
            let bind: TokenStream = match &*fl.pat {
                Pat::Reference(pr) => {
                    let inner = &pr.pat;
                    quote!(let #inner = #src[#ivar];)
                }
                other => quote!(let #other = &#src[#ivar];),
            };
            let label = &fl.label;
            let lo_e: TokenStream = match &skip {
                Some(a) => quote!({ let __n = #src.len(); let __a: usize = #a; if __n < __a { __n } else { __a } }),
                None => quote!(0),
            };
            let hi_e: TokenStream = match (&take, skip_first) {
                (None, _) => quote!(#src.len()),
                // skip(A).take(N): N elements from A on;  take(N).skip(A): the first N elements, from A on
                (Some(n), true) if skip.is_some() => quote!({ let __n = #src.len(); let __t: usize = #n; if __n - #lo < __t { __n } else { #lo + __t } }),
                (Some(n), _) => quote!({ let __n = #src.len(); let __t: usize = #n; if __n < __t { __n } else { __t } }),
            };
            self.note("R4", format!("for {} in {} -> index loop over the adapted range", fl.pat.to_token_stream(), fl.expr.to_token_stream()));
            return Some(parse_stmts(quote!(
                let #lo = #lo_e;
                let #end = { let __h = #hi_e; if __h < #lo { #lo } else { __h } };
                #label for #ivar in #lo..#end { #bind #(#body)* }
            )));
        }
        let bind: TokenStream = match &*fl.pat {
            Pat::Reference(pr) => {
                let inner = &pr.pat;
                quote!(let #inner = #src[#ivar];)
            }
            other => quote!(let #other = &#src[#ivar];),
        };
        let label = &fl.label;
        if has_continue(&fl.body) && self.opt("nest_continue") {
            // R15b: every `continue` of the body is the whole body of a top-level `if c { continue; }`: the statements after it move
            // into `if !(c) { .. }` and the loop stays a `for` (the index keeps meaning "the current element" through the body)
            if let Some(nested) = nest_continues(&fl.body.stmts) {
                self.note("R15", format!("for {} in {}: `if c {{ continue; }}` REST -> `if !(c) {{ REST }}` (loop stays a for)", fl.pat.to_token_stream(), fl.expr.to_token_stream()));
                return Some(parse_stmts(quote!(
                    let #end = #src.len();
                    #label for #ivar in 0..#end { #bind #(#nested)* }
                )));
            }
        }
        if has_continue(&fl.body) {
            // R15: Verus `for` has no `continue`; the step moves to the loop head of a `while`
            self.note("R15", format!("for {} in {} (body has `continue`) -> index-driven while loop", fl.pat.to_token_stream(), fl.expr.to_token_stream()));
            return Some(parse_stmts(quote!(
                let #end = #src.len();
                let mut #ivar = 0;
                #label while #ivar < #end { #bind #ivar += 1; #(#body)* }
            )));
        }
        self.note("R4", format!("for {} in {} -> index loop", fl.pat.to_token_stream(), fl.expr.to_token_stream()));
        Some(parse_stmts(quote!(
            let #end = #src.len();
            #label for #ivar in 0..#end { #bind #(#body)* }
        )))
    }

    /// R15: for x in (a..b).rev() / X.clone() with X = (a..b).rev()  ->  index-driven while (continue/break keep their meaning)
    fn rule_rev_range(&mut self, fl: &ExprForLoop) -> Option<Vec<Stmt>> {
        let mut e: &Expr = &fl.expr;
        if let Expr::MethodCall(m) = e {
            if m.method == "clone" && m.args.is_empty() {
                e = &m.receiver;
            }
        }
        let (a, b) = if let Some(ab) = as_rev_range(e) {
            ab
        } else if let Expr::Path(p) = e {
            let name = p.path.get_ident()?.to_string();
            let hit = self.rev_ranges.iter().find(|(n, _, _)| *n == name)?;
            (hit.1.clone(), hit.2.clone())
        } else {
            return None;
        };
        let Pat::Ident(pi) = &*fl.pat else { return None };
        let x = &pi.ident;
        let k = self.fresh();
        let it = ident(&format!("__{}{}", x, k));
        let body = &fl.body.stmts;
        self.note("R15", format!("for {} in ({}..{}).rev() -> decrementing while loop", x, a.to_token_stream(), b.to_token_stream()));
        if !(is_simple(&a) && is_simple(&b)) {
            // the range bounds are evaluated once, before the loop
            let (lo, hi) = (ident(&format!("__lo{k}")), ident(&format!("__hi{k}")));
            return Some(parse_stmts(quote!(
                let #lo = #a;
                let #hi = #b;
                let mut #it = #hi;
                while #it > #lo { #it -= 1; let #x = #it; #(#body)* }
            )));
        }
        Some(parse_stmts(quote!(
            let mut #it = #b;
            while #it > #a { #it -= 1; let #x = #it; #(#body)* }
        )))
    }

    /// R8: for x in <expr of a repository iterator type> { B }  ->  explicit next() loop (the language-defined desugaring);
    /// applies to the method names listed in opts.iter_ctors, e.g. { trigrams = "TrigramIter::new" } (R8b: the one-line
    /// trait method `fn trigrams(&self) -> TrigramIter { TrigramIter::new(self) }` is inlined)
    fn rule_custom_iter(&mut self, fl: &ExprForLoop) -> Option<Vec<Stmt>> {
        if let Expr::Call(c) = &*fl.expr {
            let f = c.func.to_token_stream().to_string().replace(' ', "");
            if self.unit.opts.get("iter_calls").and_then(|v| v.as_table()).map(|t| t.contains_key(&f)).unwrap_or(false) {
                let k = self.fresh();
                let it = ident(&format!("__it{k}"));
                let pat = &fl.pat;
                let body = &fl.body.stmts;
                let call = &fl.expr;
                self.note("R8", format!("for {} in {}(..) -> explicit next() loop", pat.to_token_stream(), f));
                return Some(parse_stmts(quote!(
                    let mut #it = #call;
                    loop { match #it.next() { Some(#pat) => { #(#body)* } None => { break; } } }
                )));
            }
        }
        let table = self.unit.opts.get("iter_ctors").and_then(|v| v.as_table())?;
        let Expr::MethodCall(mc) = &*fl.expr else { return None };
        let ctor = table.get(&mc.method.to_string())?.as_str()?;
        let ctor: Expr = syn::parse_str(ctor).ok()?;
        let recv = &mc.receiver;
        let args = &mc.args;
        let k = self.fresh();
        let it = ident(&format!("__it{k}"));
        let pat = &fl.pat;
        let body = &fl.body.stmts;
        self.note("R8", format!("for {} in {}.{}() -> explicit next() loop over {}", pat.to_token_stream(), recv.to_token_stream(), mc.method, ctor.to_token_stream()));
        Some(parse_stmts(quote!(
            let mut #it = #ctor(#recv, #args);
            loop { match #it.next() { Some(#pat) => { #(#body)* } None => { break; } } }
        )))
    }

    /// R11: let v = E.iter().map(|w| F).sum::<usize>();  ->  accumulating loop (so that the overflow check of `sum` is an obligation)
    fn rule_map_sum(&mut self, l: &Local) -> Option<Vec<Stmt>> {
        let init = l.init.as_ref()?;
        let Expr::MethodCall(sum) = &*init.expr else { return None };
        if sum.method != "sum" {
            return None;
        }
        let Expr::MethodCall(map) = &*sum.receiver else { return None };
        if map.method != "map" || map.args.len() != 1 {
            return None;
        }
        let Expr::MethodCall(it) = &*map.receiver else { return None };
        if it.method != "iter" {
            return None;
        }
        let Expr::Closure(cl) = &map.args[0] else { return None };
        if cl.inputs.len() != 1 {
            return None;
        }
        let Pat::Ident(pi) = &cl.inputs[0] else { return None };
        let src = &it.receiver;
        let f = &cl.body;
        let w = &pi.ident;
        let pat = &l.pat;
        let k = self.fresh();
        let (acc, end, i) = (ident(&format!("__sum{k}")), ident(&format!("__end{k}")), ident(&format!("__i{k}")));
        self.note("R11", format!("{}.iter().map(|{}| ..).sum() -> accumulating loop", src.to_token_stream(), w));
        Some(parse_stmts(quote!(
            let mut #acc: usize = 0;
            let #end = #src.len();
            for #i in 0..#end { let #w = &#src[#i]; #acc += #f; }
            let #pat = #acc;
        )))
    }

    /// R20: m.entry(k).and_modify(|v| B).or_insert_with(|| I);
    fn rule_entry(&mut self, mc: &ExprMethodCall) -> Option<Vec<Stmt>> {
        if mc.method != "or_insert_with" || mc.args.len() != 1 {
            return None;
        }
        let Expr::MethodCall(am) = &*mc.receiver else { return None };
        if am.method == "entry" && am.args.len() == 1 {
            // R20b: m.entry(k).or_insert_with(|| I);  (value unused)
            let Expr::Closure(c2) = &mc.args[0] else { return None };
            if !c2.inputs.is_empty() {
                return None;
            }
            let (map, key, init) = (&am.receiver, &am.args[0], &c2.body);
            self.note("R20", "entry(k).or_insert_with(..) as a statement -> if !contains_key { insert }".into());
            return Some(parse_stmts(quote!(if !#map.contains_key(&#key) { #map.insert(#key, #init); })));
        }
        if am.method != "and_modify" || am.args.len() != 1 {
            return None;
        }
        let Expr::MethodCall(en) = &*am.receiver else { return None };
        if en.method != "entry" || en.args.len() != 1 {
            return None;
        }
        let map = &en.receiver;
        let key = &en.args[0];
        let Expr::Closure(c1) = &am.args[0] else { return None };
        let Expr::Closure(c2) = &mc.args[0] else { return None };
        if c1.inputs.len() != 1 || !c2.inputs.is_empty() {
            return None;
        }
        let v = &c1.inputs[0];
        let b = &c1.body;
        let init = &c2.body;
        self.note("R20", "entry(k).and_modify(..).or_insert_with(..) -> contains_key / get_mut / insert".into());
        Some(parse_stmts(quote!(
            if #map.contains_key(&#key) { let #v = #map.get_mut(&#key).unwrap(); #b } else { #map.insert(#key, #init); }
        )))
    }

    /// R11 / R16: the first iterator chain `S.iter().map(|m| F).sum::<usize>()`, `S.iter().filter(|m| P).count()` or
    /// `S.iter().map(|m| F).min().unwrap_or(D)` inside a statement is hoisted into an explicit loop before it
    fn hoist_chain(&mut self, stmt: &Stmt) -> Option<Vec<Stmt>> {
        struct Finder {
            found: Option<(String, Expr, Ident, Expr, Option<Expr>)>, // kind, source, param, body, default
            var: Ident,
        }
        impl VisitMut for Finder {
            fn visit_expr_mut(&mut self, e: &mut Expr) {
                if self.found.is_some() {
                    return;
                }
                match e {
                    Expr::Closure(_) | Expr::ForLoop(_) | Expr::While(_) | Expr::Loop(_) => return,
                    _ => {}
                }
                if let Some(hit) = match_chain(e) {
                    self.found = Some(hit);
                    let v = &self.var;
                    *e = parse_expr(quote!(#v));
                    return;
                }
                visit_mut::visit_expr_mut(self, e);
            }
        }
        let any_here = self.opt_list("any_loops").iter().any(|x| self.func == *x || self.func.ends_with(&format!("::{x}")));
        let cond_any = any_here && matches!(stmt, Stmt::Expr(Expr::If(ifx), _) if matches!(match_chain(&ifx.cond), Some((ref kd, ..)) if kd == "any"));
        match stmt {
            Stmt::Expr(Expr::If(_), _) if cond_any => {}
            Stmt::Expr(Expr::ForLoop(_), _) | Stmt::Expr(Expr::While(_), _) | Stmt::Expr(Expr::Loop(_), _) | Stmt::Expr(Expr::If(_), _) | Stmt::Expr(Expr::Block(_), _) | Stmt::Expr(Expr::Unsafe(_), _) | Stmt::Item(_) | Stmt::Macro(_) => return None,
            _ => {}
        }
        let k = self.counter;
        let var = ident(&format!("__acc{k}"));
        let mut f = Finder { found: None, var: var.clone() };
        let mut st = stmt.clone();
        if cond_any {
            // only the condition of the `if` is searched
            if let Stmt::Expr(Expr::If(ifx), _) = &mut st {
                f.visit_expr_mut(&mut ifx.cond);
            }
        } else {
            f.visit_stmt_mut(&mut st);
        }
        let (kind, src, m, body, dflt) = f.found?;
        if kind == "any" && !self.opt_list("any_loops").iter().any(|x| self.func == *x || self.func.ends_with(&format!("::{x}"))) {
            // R16c is opt-in per function (unit file: any_loops): elsewhere `any` stays the (unspecified) std call
            return None;
        }
        self.counter += 1;
        let (end, i) = (ident(&format!("__end{k}")), ident(&format!("__i{k}")));
        let pre: Vec<Stmt> = match kind.as_str() {
            "sum" => {
                self.note("R11", format!("{}.iter().map(|{}| ..).sum() -> accumulating loop", src.to_token_stream(), m));
                let ty: Type = match &dflt { Some(Expr::Path(p)) => syn::parse2(p.to_token_stream()).unwrap(), _ => parse_quote!(usize) };
                parse_stmts(quote!(
                    let mut #var: #ty = 0;
                    let #end = #src.len();
                    for #i in 0..#end { let #m = &#src[#i]; #var += #body; }
                ))
            }
            "tw" => {
                let s0 = ident(&format!("__src{k}"));
                self.note("R9", format!("{}.iter().take_while(|&&{}| ..).count() -> counting loop", src.to_token_stream(), m));
                parse_stmts(quote!(
                    let #s0 = &#src;
                    let mut #var: usize = 0;
                    loop { if #var >= #s0.len() { break; } let #m = #s0[#var]; if !(#body) { break; } #var += 1; }
                ))
            }
            "rtw" => {
                let s0 = ident(&format!("__src{k}"));
                let cap = dflt.clone().unwrap();
                let capv = ident(&format!("__cap{k}"));
                self.note("R10", format!("{}.iter().rev().take_while(|&&{}| ..).take(K).count() -> counting loop from the end", src.to_token_stream(), m));
                parse_stmts(quote!(
                    let #s0 = &#src;
                    let #capv = #cap;
                    let mut #var: usize = 0;
                    loop { if #var >= #capv || #var >= #s0.len() { break; } let #m = #s0[#s0.len() - 1 - #var]; if !(#body) { break; } #var += 1; }
                ))
            }
            "any" => {
                self.note("R16", format!("{}.iter().any(|{}| ..) -> first-match loop", src.to_token_stream(), m));
                parse_stmts(quote!(
                    let mut #var: bool = false;
                    let mut #i = 0;
                    while #i < #src.len() { let #m = &#src[#i]; if #body { #var = true; break; } #i += 1; }
                ))
            }
            "count" => {
                self.note("R16", format!("{}.iter().filter(|{}| ..).count() -> counting loop", src.to_token_stream(), m));
                parse_stmts(quote!(
                    let mut #var: usize = 0;
                    let #end = #src.len();
                    for #i in 0..#end { let #m = &#src[#i]; if #body { #var += 1; } }
                ))
            }
            _ => {
                let d = dflt.unwrap();
                let opt = ident(&format!("__min{k}"));
                self.note("R16", format!("{}.iter().map(|{}| ..).min().unwrap_or(..) -> min loop", src.to_token_stream(), m));
                parse_stmts(quote!(
                    let mut #opt: Option<usize> = None;
                    let #end = #src.len();
                    for #i in 0..#end { let #m = &#src[#i]; let __v = #body; #opt = match #opt { Some(__c) => if __v < __c { Some(__v) } else { Some(__c) }, None => Some(__v) }; }
                    let #var = match #opt { Some(__c) => __c, None => #d };
                ))
            }
        };
        let mut out = pre;
        out.push(st);
        Some(out)
    }

    /// R4m: `for x in &mut V`, `for (i, x) in V.iter_mut().enumerate()`, `for (&a, b) in &mut A.iter().zip(&mut B)` -> index loops
    /// that re-borrow the element(s) mutably in each iteration
    fn rule_mut_iter(&mut self, fl: &ExprForLoop) -> Option<Vec<Stmt>> {
        let body = &fl.body.stmts;
        let k = self.counter;
        let (end, i) = (ident(&format!("__end{k}")), ident(&format!("__i{k}")));
        // (1) for x in &mut V
        if let Expr::Reference(r) = &*fl.expr {
            if r.mutability.is_some() {
                if let Expr::MethodCall(z) = strip_paren(&r.expr) {
                    // (3) for (&a, b) in &mut A.iter().zip(&mut B)
                    if z.method == "zip" && z.args.len() == 1 {
                        let Expr::MethodCall(ia) = &*z.receiver else { return None };
                        if ia.method != "iter" {
                            return None;
                        }
                        let Expr::Reference(rb) = &z.args[0] else { return None };
                        rb.mutability?;
                        let Pat::Tuple(pt) = &*fl.pat else { return None };
                        let Pat::Reference(pa) = &pt.elems[0] else { return None };
                        let (pa, pb) = (&pa.pat, &pt.elems[1]);
                        let (a, b) = (&ia.receiver, &rb.expr);
                        self.counter += 1;
                        self.note("R4m", "for (&a, b) in &mut A.iter().zip(&mut B) -> index loop to the shorter length".into());
                        return Some(parse_stmts(quote!(
                            let #end = vmin(#a.len(), #b.len());
                            for #i in 0..#end { let #pa = #a[#i]; let #pb = &mut #b[#i]; #(#body)* }
                        )));
                    }
                    return None;
                }
                if is_place(&r.expr) {
                    let v = &r.expr;
                    let pat = &fl.pat;
                    self.counter += 1;
                    self.note("R4m", format!("for {} in &mut {} -> index loop", pat.to_token_stream(), v.to_token_stream()));
                    return Some(parse_stmts(quote!(
                        let #end = #v.len();
                        for #i in 0..#end { let #pat = &mut #v[#i]; #(#body)* }
                    )));
                }
            }
        }
        // (2) for (i, x) in V.iter_mut().enumerate()
        if let Expr::MethodCall(en) = &*fl.expr {
            if en.method == "enumerate" {
                if let Expr::MethodCall(im) = &*en.receiver {
                    if im.method == "iter_mut" {
                        let Pat::Tuple(pt) = &*fl.pat else { return None };
                        let (pi, px) = (&pt.elems[0], &pt.elems[1]);
                        let v = &im.receiver;
                        self.counter += 1;
                        self.note("R4m", format!("for ({}, {}) in {}.iter_mut().enumerate() -> index loop", pi.to_token_stream(), px.to_token_stream(), v.to_token_stream()));
                        return Some(parse_stmts(quote!(
                            let #end = #v.len();
                            for #pi in 0..#end { let #px = &mut #v[#pi]; #(#body)* }
                        )));
                    }
                }
            }
        }
        None
    }

    /// R16: for (a, b) in A.iter().zip(B.iter()) { .. }
    fn rule_zip(&mut self, fl: &ExprForLoop) -> Option<Vec<Stmt>> {
        let Expr::MethodCall(z) = &*fl.expr else { return None };
        if z.method != "zip" || z.args.len() != 1 {
            return None;
        }
        let Expr::MethodCall(ia) = &*z.receiver else { return None };
        let Expr::MethodCall(ib) = &z.args[0] else { return None };
        if ia.method != "iter" || ib.method != "iter" {
            return None;
        }
        let Pat::Tuple(pt) = &*fl.pat else { return None };
        if pt.elems.len() != 2 {
            return None;
        }
        let (pa, pb) = (&pt.elems[0], &pt.elems[1]);
        let (a, b) = (&ia.receiver, &ib.receiver);
        let k = self.fresh();
        let (end, i) = (ident(&format!("__end{k}")), ident(&format!("__i{k}")));
        let body = &fl.body.stmts;
        self.note("R16", format!("for (..) in {}.iter().zip({}.iter()) -> index loop to the shorter length", a.to_token_stream(), b.to_token_stream()));
        Some(parse_stmts(quote!(
            let #end = vmin(#a.len(), #b.len());
            for #i in 0..#end { let #pa = &#a[#i]; let #pb = &#b[#i]; #(#body)* }
        )))
    }

    /// R19: `None.or_else(c1).or_else(c2)...;` with every closure lifted into a function (unit file: [[lift]])
    fn rule_or_else_chain(&mut self, mc: &ExprMethodCall) -> Option<Vec<Stmt>> {
        // walk down the receiver chain: None.or_else(c1).or_else(c2)...
        let mut closures: Vec<ExprClosure> = vec![];
        let mut e: Expr = Expr::MethodCall(mc.clone());
        loop {
            match e {
                Expr::MethodCall(m) if m.method == "or_else" && m.args.len() == 1 => {
                    let Expr::Closure(c) = &m.args[0] else { return None };
                    if !c.inputs.is_empty() {
                        return None;
                    }
                    closures.push(c.clone());
                    e = (*m.receiver).clone();
                }
                Expr::Path(p) if p.path.is_ident("None") => break,
                _ => return None,
            }
        }
        closures.reverse();
        let short = self.func.rsplit("::").next().unwrap().to_string();
        let mut ordinal = self.closure_counter;
        // R19r: a captured variable named in the [[lift]] entries may have been renamed in the source.  A name used in `args`
        // that is bound nowhere in the function any more is stale; when exactly one stale name and exactly one new captured
        // name (bound in the function, used in a closure body, not a parameter of the lift entry) exist, the entry follows the rename
        let mut renames: Vec<(String, String)> = vec![];
        {
            let mut stale: std::collections::BTreeSet<String> = Default::default();
            let mut fresh: std::collections::BTreeSet<String> = Default::default();
            let mut ord = ordinal;
            for c in &closures {
                let Some(spec) = self.unit.lift.iter().find(|l| (l.func == short || l.func == self.func) && l.closure == ord) else { break };
                let body: Block = match &*c.body {
                    Expr::Block(b) => b.block.clone(),
                    other => parse_quote!({ #other }),
                };
                let params: Vec<String> = syn::parse_str::<ItemFn>(&format!("fn f({}) {{ }}", spec.params)).map(|f| f.sig.inputs.iter().filter_map(|a| if let FnArg::Typed(pt) = a { if let Pat::Ident(pi) = &*pt.pat { Some(pi.ident.to_string()) } else { None } } else { None }).collect()).unwrap_or_default();
                if let Ok(ae) = syn::parse_str::<Expr>(&format!("f({})", spec.args)) {
                    let blk: Block = parse_quote!({ #ae; });
                    for u in used_idents(&blk) {
                        if !self.fn_locals.contains(&u) && u != "self" && u.chars().next().map_or(false, |ch| ch.is_lowercase()) {
                            stale.insert(u);
                        }
                    }
                }
                let inner = bound_idents(&body);
                for u in used_idents(&body) {
                    if self.fn_locals.contains(&u) && !inner.contains(&u) && !params.contains(&u) && u.chars().next().map_or(false, |ch| ch.is_lowercase() || ch == '_') {
                        fresh.insert(u);
                    }
                }
                struct Cnt0(usize);
                impl VisitMut for Cnt0 {
                    fn visit_expr_closure_mut(&mut self, c: &mut ExprClosure) {
                        self.0 += 1;
                        visit_mut::visit_expr_closure_mut(self, c);
                    }
                }
                let mut cnt = Cnt0(0);
                let mut cc = c.clone();
                cnt.visit_expr_mut(&mut cc.body);
                ord += 1 + cnt.0;
            }
            if std::env::var("VEXTRACT_DEBUG").is_ok() { eprintln!("R19r debug: stale={:?} fresh={:?} locals={}", stale, fresh, self.fn_locals.len()); }
            if stale.len() == 1 && fresh.len() == 1 {
                let (a, b) = (stale.into_iter().next().unwrap(), fresh.into_iter().next().unwrap());
                self.note("R19r", format!("captured variable `{a}` of the lift entries is `{b}` in the source now: entries follow the rename"));
                renames.push((a, b));
            }
        }
        let mut calls: Vec<(Ident, Expr)> = vec![];
        let mut items: Vec<Item> = vec![];
        for c in &closures {
            let mut spec = self.unit.lift.iter().find(|l| (l.func == short || l.func == self.func) && l.closure == ordinal)?.clone();
            for (a, b) in &renames {
                spec.params = replace_word(&spec.params, a, b);
                spec.args = replace_word(&spec.args, a, b);
                spec.deref = spec.deref.iter().map(|d| if d == a { b.clone() } else { d.clone() }).collect();
            }
            let mut f: ItemFn = syn::parse_str(&format!("fn {}({}) -> {} {{ }}", spec.name, spec.params, spec.ret)).unwrap_or_else(|e| fail(&format!("bad lift spec {}: {e}", spec.name)));
            let mut body: Block = match &*c.body {
                Expr::Block(b) => b.block.clone(),
                other => parse_quote!({ #other }),
            };
            struct Deref<'x>(&'x Vec<String>);
            impl<'x> VisitMut for Deref<'x> {
                fn visit_expr_mut(&mut self, e: &mut Expr) {
                    if let Expr::Closure(_) = e {
                        return;
                    }
                    visit_mut::visit_expr_mut(self, e);
                    if let Expr::Assign(a) = e {
                        if let Expr::Path(p) = &*a.left {
                            if let Some(i) = p.path.get_ident() {
                                if self.0.iter().any(|n| i == n) {
                                    let l = &a.left;
                                    a.left = Box::new(parse_expr(quote!(*#l)));
                                }
                            }
                        }
                    }
                }
            }
            Deref(&spec.deref).visit_block_mut(&mut body);
            f.block = Box::new(body);
            items.push(Item::Fn(f));
            let args: Expr = syn::parse_str(&format!("{}({})", spec.name, spec.args)).unwrap_or_else(|e| fail(&format!("bad lift args {}: {e}", spec.name)));
            calls.push((ident(&spec.name), args));
            self.note("R19", format!("closure {}#{} lifted into fn {}", short, ordinal, spec.name));
            // ordinals of closures nested inside this one are consumed too
            struct Cnt(usize);
            impl VisitMut for Cnt {
                fn visit_expr_closure_mut(&mut self, c: &mut ExprClosure) {
                    self.0 += 1;
                    visit_mut::visit_expr_closure_mut(self, c);
                }
            }
            let mut cnt = Cnt(0);
            let mut cc = c.clone();
            cnt.visit_expr_mut(&mut cc.body);
            ordinal += 1 + cnt.0;
        }
        self.closure_counter = ordinal;
        self.lifted.extend(items);
        let k0 = self.counter;
        let mut out: Vec<Stmt> = vec![];
        for (n, (_name, call)) in calls.iter().enumerate() {
            let k = self.fresh();
            let r = ident(&format!("__r{k}"));
            if n == 0 {
                out.extend(parse_stmts(quote!(let #r = #call;)));
            } else {
                let prev = ident(&format!("__r{}", k0 + n - 1));
                out.extend(parse_stmts(quote!(let #r = if #prev.is_none() { #call } else { #prev };)));
            }
        }
        Some(out)
    }

    /// R6: v.extend(E.iter().map(F));
    fn rule_extend_map(&mut self, mc: &ExprMethodCall) -> Option<Vec<Stmt>> {
        if mc.method != "extend" || mc.args.len() != 1 {
            return None;
        }
        let Expr::MethodCall(map) = &mc.args[0] else { return None };
        if map.method != "map" || map.args.len() != 1 {
            return None;
        }
        let Expr::MethodCall(it) = &*map.receiver else { return None };
        if it.method != "iter" {
            return None;
        }
        let src = &it.receiver;
        let f = &map.args[0];
        let Expr::Path(_) = f else { return None };
        let v = &mc.receiver;
        let k = self.fresh();
        let (s, end, i) = (ident(&format!("__src{k}")), ident(&format!("__end{k}")), ident(&format!("__i{k}")));
        self.note("R6", format!("{}.extend({}.iter().map({})) -> push loop", v.to_token_stream(), src.to_token_stream(), f.to_token_stream()));
        Some(parse_stmts(quote!(
            let #s = #src;
            let #end = #s.len();
            for #i in 0..#end { #v.push(#f(&#s[#i])); }
        )))
    }
}

/// for x in E { V.push(x); }  where E is a method call producing an owned Vec (listed in opts.owned_vec_calls)
fn as_push_all(fl: &ExprForLoop) -> Option<(Expr, Expr)> {
    let Pat::Ident(pi) = &*fl.pat else { return None };
    if fl.body.stmts.len() != 1 {
        return None;
    }
    let Stmt::Expr(Expr::MethodCall(mc), Some(_)) = &fl.body.stmts[0] else { return None };
    if mc.method != "push" || mc.args.len() != 1 {
        return None;
    }
    let Expr::Path(ap) = &mc.args[0] else { return None };
    if !ap.path.is_ident(&pi.ident) {
        return None;
    }
    let Expr::MethodCall(src) = &*fl.expr else { return None };
    if src.method != "search" {
        return None;
    }
    Some(((*mc.receiver).clone(), (*fl.expr).clone()))
}

fn as_drain_filter_map(l: &Local) -> Option<Expr> {
    let init = l.init.as_ref()?;
    let Expr::MethodCall(col) = &*init.expr else { return None };
    if col.method != "collect" {
        return None;
    }
    let Expr::MethodCall(fm) = &*col.receiver else { return None };
    if fm.method != "filter_map" || fm.args.len() != 1 {
        return None;
    }
    let Expr::Closure(c) = &fm.args[0] else { return None };
    // identity closure |m| m
    if c.inputs.len() != 1 || c.inputs[0].to_token_stream().to_string() != c.body.to_token_stream().to_string() {
        return None;
    }
    let Expr::MethodCall(dr) = &*fm.receiver else { return None };
    if dr.method != "drain" {
        return None;
    }
    Some((*dr.receiver).clone())
}

/// R15b helper: `S1; if c { continue; } S2..` -> `S1; if !(c) { S2.. }` (recursively); None when a `continue` remains elsewhere
fn nest_continues(stmts: &[Stmt]) -> Option<Vec<Stmt>> {
    for (i, st) in stmts.iter().enumerate() {
        if let Stmt::Expr(Expr::If(ifx), _) = st {
            let only_continue = ifx.else_branch.is_none() && ifx.then_branch.stmts.len() == 1
                && matches!(&ifx.then_branch.stmts[0], Stmt::Expr(Expr::Continue(c), _) if c.label.is_none());
            if only_continue {
                let rest = nest_continues(&stmts[i + 1..])?;
                let cond = &ifx.cond;
                let mut out: Vec<Stmt> = stmts[..i].to_vec();
                if out.iter().any(|s| has_continue(&Block { brace_token: Default::default(), stmts: vec![s.clone()] })) {
                    return None;
                }
                out.extend(parse_stmts(quote!( if !(#cond) { #(#rest)* } )));
                return Some(out);
            }
        }
    }
    let blk = Block { brace_token: Default::default(), stmts: stmts.to_vec() };
    if has_continue(&blk) { None } else { Some(stmts.to_vec()) }
}

fn has_continue(b: &Block) -> bool {
    struct C(bool);
    impl VisitMut for C {
        fn visit_expr_mut(&mut self, e: &mut Expr) {
            match e {
                Expr::Closure(_) | Expr::ForLoop(_) | Expr::While(_) | Expr::Loop(_) => {}
                Expr::Continue(_) => self.0 = true,
                _ => visit_mut::visit_expr_mut(self, e),
            }
        }
    }
    let mut c = C(false);
    let mut b2 = b.clone();
    c.visit_block_mut(&mut b2);
    c.0
}

fn as_rev_range(e: &Expr) -> Option<(Expr, Expr)> {
    let Expr::MethodCall(m) = e else { return None };
    if m.method != "rev" || !m.args.is_empty() {
        return None;
    }
    let Expr::Range(r) = strip_paren(&m.receiver) else { return None };
    if !matches!(r.limits, RangeLimits::HalfOpen(_)) {
        return None;
    }
    Some(((**r.start.as_ref()?).clone(), (**r.end.as_ref()?).clone()))
}

/// recognises the three reducible iterator chains; returns (kind, source, closure parameter, closure body, default)
fn match_chain(e: &Expr) -> Option<(String, Expr, Ident, Expr, Option<Expr>)> {
    let Expr::MethodCall(top) = e else { return None };
    let one_param = |c: &ExprClosure| -> Option<Ident> {
        if c.inputs.len() != 1 {
            return None;
        }
        match &c.inputs[0] {
            Pat::Ident(pi) => Some(pi.ident.clone()),
            _ => None,
        }
    };
    let iter_src = |x: &Expr| -> Option<Expr> {
        let Expr::MethodCall(it) = x else { return None };
        if it.method == "iter" && it.args.is_empty() { Some((*it.receiver).clone()) } else { None }
    };
    if top.method == "sum" && top.args.is_empty() {
        let Expr::MethodCall(map) = &*top.receiver else { return None };
        if map.method != "map" || map.args.len() != 1 {
            return None;
        }
        let Expr::Closure(c) = &map.args[0] else { return None };
        // the element type of `sum::<T>()` rides in the "default" slot as a path expression
        let ty: Option<Expr> = top.turbofish.as_ref().and_then(|t| t.args.first()).and_then(|a| match a { GenericArgument::Type(Type::Path(tp)) => Some(Expr::Path(ExprPath { attrs: vec![], qself: None, path: tp.path.clone() })), _ => None });
        return Some(("sum".into(), iter_src(&map.receiver)?, one_param(c)?, (*c.body).clone(), ty));
    }
    if top.method == "any" && top.args.len() == 1 {
        // R16c: S.iter().any(|x| P)
        let Expr::Closure(c) = &top.args[0] else { return None };
        return Some(("any".into(), iter_src(&top.receiver)?, one_param(c)?, (*c.body).clone(), None));
    }
    if top.method == "count" && top.args.is_empty() {
        if let Expr::MethodCall(fil) = &*top.receiver {
            if fil.method == "filter" && fil.args.len() == 1 {
                let Expr::Closure(c) = &fil.args[0] else { return None };
                return Some(("count".into(), iter_src(&fil.receiver)?, one_param(c)?, (*c.body).clone(), None));
            }
        }
    }
    if top.method == "count" && top.args.is_empty() {
        // R9: S.iter().take_while(|&&c| P).count()      R10: S.iter().rev().take_while(|&&c| P).take(K).count()
        let mut cur: &Expr = &top.receiver;
        let mut cap: Option<Expr> = None;
        if let Expr::MethodCall(tk) = cur {
            if tk.method == "take" && tk.args.len() == 1 {
                cap = Some(tk.args[0].clone());
                cur = &tk.receiver;
            }
        }
        if let Expr::MethodCall(tw) = cur {
            if tw.method == "take_while" && tw.args.len() == 1 {
                if let Expr::Closure(c) = &tw.args[0] {
                    if c.inputs.len() == 1 {
                        // pattern |&&ch| or |ch|
                        let mut pat = c.inputs[0].clone();
                        let mut derefs = 0;
                        while let Pat::Reference(r) = pat {
                            pat = (*r.pat).clone();
                            derefs += 1;
                        }
                        if let Pat::Ident(pi) = pat {
                            let mut src: &Expr = &tw.receiver;
                            let mut rev = false;
                            if let Expr::MethodCall(rv) = src {
                                if rv.method == "rev" && rv.args.is_empty() {
                                    rev = true;
                                    src = &rv.receiver;
                                }
                            }
                            if let Expr::MethodCall(it) = src {
                                if it.method == "iter" && it.args.is_empty() && derefs == 2 {
                                    let kind = if rev { "rtw" } else { "tw" };
                                    if rev != cap.is_some() && rev {
                                        return None;
                                    }
                                    return Some((kind.into(), (*it.receiver).clone(), pi.ident.clone(), (*c.body).clone(), cap));
                                }
                            }
                        }
                    }
                }
            }
        }
    }
    if top.method == "unwrap_or" && top.args.len() == 1 {
        let Expr::MethodCall(mn) = &*top.receiver else { return None };
        if mn.method != "min" || !mn.args.is_empty() {
            return None;
        }
        let Expr::MethodCall(map) = &*mn.receiver else { return None };
        if map.method != "map" || map.args.len() != 1 {
            return None;
        }
        let Expr::Closure(c) = &map.args[0] else { return None };
        return Some(("min".into(), iter_src(&map.receiver)?, one_param(c)?, (*c.body).clone(), Some(top.args[0].clone())));
    }
    None
}

/// S.iter().find(|m| P)  ->  (S, m, P)
fn as_iter_find(e: &Expr) -> Option<(Expr, Ident, Expr)> {
    let Expr::MethodCall(f) = e else { return None };
    if f.method != "find" || f.args.len() != 1 {
        return None;
    }
    let Expr::MethodCall(it) = &*f.receiver else { return None };
    if it.method != "iter" || !it.args.is_empty() {
        return None;
    }
    let Expr::Closure(cl) = &f.args[0] else { return None };
    if cl.inputs.len() != 1 {
        return None;
    }
    let Pat::Ident(pi) = &cl.inputs[0] else { return None };
    Some(((*it.receiver).clone(), pi.ident.clone(), (*cl.body).clone()))
}

fn is_simple(e: &Expr) -> bool {
    matches!(e, Expr::Path(_) | Expr::Lit(_))
}

fn strip_paren(e: &Expr) -> &Expr {
    match e {
        Expr::Paren(p) => strip_paren(&p.expr),
        Expr::Group(g) => strip_paren(&g.expr),
        _ => e,
    }
}

fn is_place(e: &Expr) -> bool {
    match e {
        Expr::Path(_) => true,
        Expr::Field(f) => is_place(&f.base),
        Expr::Paren(p) => is_place(&p.expr),
        _ => false,
    }
}

impl<'a> VisitMut for Body<'a> {
    fn visit_expr_mut(&mut self, e: &mut Expr) {
        if let Expr::Macro(m) = e {
            if let Some(r) = self.rewrite_macro_expr(&m.mac) {
                *e = r;
                return;
            }
        }
        // R29: `helper(ID, |p| BODY)` where the unit file describes the repository helper as "look the entry up in thread-local map M
        // and run the closure on it"  ->  `{ let p = reg.M.get_mut(&ID).unwrap(); BODY }`
        if let Expr::Call(c) = e {
            if let Expr::Path(fp) = &*c.func {
                if let Some(name) = fp.path.get_ident().map(|i| i.to_string()) {
                    if let Some(tbl) = self.unit.opts.get("inline_lookup").and_then(|v| v.as_table()).and_then(|t| t.get(&name)).and_then(|v| v.as_table()).cloned() {
                        if c.args.len() == 2 {
                            if let Expr::Closure(cl) = &c.args[1] {
                                if cl.inputs.len() == 1 {
                                    let reg = ident(tbl.get("param").and_then(|v| v.as_str()).unwrap_or("reg"));
                                    let map = ident(tbl.get("map").and_then(|v| v.as_str()).unwrap_or("MAP"));
                                    let (idx, p, body) = (&c.args[0], &cl.inputs[0], &cl.body);
                                    self.note("R29", format!("{name}(id, |{}| ..) inlined: lookup in {}.{} + closure body", p.to_token_stream(), reg, map));
                                    let mut ne = parse_expr(quote!({ let #p = #reg.#map.get_mut(&#idx).unwrap(); #body }));
                                    self.closure_counter += 1;
                                    self.visit_expr_mut(&mut ne);
                                    *e = ne;
                                    return;
                                }
                            }
                        }
                    }
                }
            }
        }
        // R19 (expression form): `X.or_else(|| BODY)` with a lift entry for the closure -> `{ let __o = X; if __o.is_none() { f(args) } else { __o } }`
        if let Expr::MethodCall(m) = e {
            if m.method == "or_else" && m.args.len() == 1 && matches!(&m.args[0], Expr::Closure(c) if c.inputs.is_empty()) {
                let short = self.func.rsplit("::").next().unwrap().to_string();
                // closures inside the receiver are numbered first
                let mut recv = (*m.receiver).clone();
                self.visit_expr_mut(&mut recv);
                let ordinal = self.closure_counter;
                if let Some(spec) = self.unit.lift.iter().find(|l| (l.func == short || l.func == self.func) && l.closure == ordinal).cloned() {
                    let Expr::Closure(c) = &m.args[0] else { unreachable!() };
                    let mut f: ItemFn = syn::parse_str(&format!("fn {}({}) -> {} {{ }}", spec.name, spec.params, spec.ret)).unwrap_or_else(|er| fail(&format!("bad lift spec {}: {er}", spec.name)));
                    let body: Block = match &*c.body {
                        Expr::Block(b) => b.block.clone(),
                        other => parse_quote!({ #other }),
                    };
                    f.block = Box::new(body);
                    self.lifted.push(Item::Fn(f));
                    struct Cnt(usize);
                    impl VisitMut for Cnt {
                        fn visit_expr_closure_mut(&mut self, c: &mut ExprClosure) {
                            self.0 += 1;
                            visit_mut::visit_expr_closure_mut(self, c);
                        }
                    }
                    let mut cnt = Cnt(0);
                    let mut cc = c.clone();
                    cnt.visit_expr_mut(&mut cc.body);
                    self.closure_counter = ordinal + 1 + cnt.0;
                    let call: Expr = syn::parse_str(&format!("{}({})", spec.name, spec.args)).unwrap_or_else(|er| fail(&format!("bad lift args: {er}")));
                    let k = self.fresh();
                    let o = ident(&format!("__o{k}"));
                    self.note("R19", format!("closure {}#{} of `.or_else(..)` lifted into fn {}", short, ordinal, spec.name));
                    *e = parse_expr(quote!({ let #o = #recv; if #o.is_none() { #call } else { #o } }));
                    return;
                } else {
                    // no lift entry: restore normal processing on the already visited receiver
                    m.receiver = Box::new(recv);
                    let mut args = m.args.clone();
                    for a in args.iter_mut() {
                        self.visit_expr_mut(a);
                    }
                    m.args = args;
                    self.rewrite_expr_post(e);
                    return;
                }
            }
        }
        if let Expr::Closure(cl) = e {
            let qkey = format!("{}#{}", self.func, self.closure_counter);
            let skey = format!("{}#{}", self.func.rsplit("::").next().unwrap(), self.closure_counter);
            let key = if self.unit.closure_sig.contains_key(&qkey) { qkey } else if self.unit.closure_sig.keys().any(|k| k.contains("::") && k.ends_with(&format!("::{}", skey))) { format!("<none>#{}", self.closure_counter) } else { skey };
            self.closure_counter += 1;
            if let Some(sig) = self.unit.closure_sig.get(&key) {
                // R17: explicit parameter types, return type and a block body (annotation only; body text unchanged)
                let proto: ExprClosure = syn::parse_str(&format!("|{}| -> {} {{ }}", sig.params, sig.ret)).unwrap_or_else(|e| fail(&format!("bad closure_sig for {key}: {e}")));
                cl.inputs = proto.inputs;
                cl.output = proto.output;
                let b = &cl.body;
                let lit = proc_macro2::Literal::string(&key);
                cl.body = Box::new(match &**b {
                    Expr::Block(eb) => {
                        let st = &eb.block.stmts;
                        parse_expr(quote!({ __vclo!(#lit); #(#st)* }))
                    }
                    other => parse_expr(quote!({ __vclo!(#lit); #other })),
                });
                self.note("R17", format!("closure {key}: explicit signature"));
            }
        }
        visit_mut::visit_expr_mut(self, e);
        self.rewrite_expr_post(e);
    }

    fn visit_block_mut(&mut self, b: &mut Block) {
        let old = std::mem::take(&mut b.stmts);
        let mut out: Vec<Stmt> = vec![];
        for st in old {
            // statement macros
            let st = match st {
                Stmt::Macro(sm) => match self.rewrite_macro_expr(&sm.mac) {
                    Some(e) if sm.mac.path.is_ident("panic") => Stmt::Expr(parse_expr(quote!(return #e)), Some(Default::default())),
                    Some(e) => Stmt::Expr(e, Some(Default::default())),
                    None => Stmt::Macro(sm),
                },
                other => other,
            };
            let mut repl = self.rewrite_stmt(st);
            let n = repl.len();
            for (idx, s) in repl.iter_mut().enumerate() {
                // only the last produced statement carries the original body: visit it; the
                // generated prefix statements are visited too (they may contain casts etc.)
                let _ = (idx, n);
                self.visit_stmt_mut(s);
            }
            out.extend(repl);
        }
        b.stmts = out;
    }
}


struct Renamer<'r> {
    map: &'r std::collections::BTreeMap<String, String>,
    hits: usize,
}
impl<'r> VisitMut for Renamer<'r> {
    fn visit_ident_mut(&mut self, i: &mut Ident) {
        if let Some(to) = self.map.get(&i.to_string()) {
            *i = ident(to);
            self.hits += 1;
        }
    }
}

pub fn rename_idents(item: &mut Item, map: &std::collections::BTreeMap<String, String>, log: &mut Log) {
    let mut r = Renamer { map, hits: 0 };
    r.visit_item_mut(item);
    if r.hits > 0 {
        log.entries.push(("R24".into(), "-".into(), format!("module-private names renamed for the flat unit: {:?} ({} occurrences)", map, r.hits)));
    }
}


pub fn fnv64(s: &str) -> u64 {
    let mut h: u64 = 0xcbf29ce484222325;
    for b in s.bytes() {
        h ^= b as u64;
        h = h.wrapping_mul(0x100000001b3);
    }
    h
}
