// Replay of D1 (property C01; surfaces under C14): `match_len - 2*ceil(typos)` is computed in usize
// (search/score.rs score_chars_up, matching/text.rs candidate comparison).  For a joined match WordMatch::split gives
// the first part a positive typo share, so a one-letter first part yields 1 - 2.
// Place as rust/core/tests/verif_d1.rs and run: cargo test --offline --test verif_d1   (debug build: overflow checks on)
use lucid_suggest_core::{tokenize_query, Lang, Record, SearchResult, Store};

fn ids(store: &Store, q: &str) -> Vec<usize> {
    let lang = Lang::new();
    let query = tokenize_query(q, &lang);
    let res: Vec<SearchResult> = store.search(&query.to_ref());
    res.iter().map(|r| r.id).collect()
}

// failed obligation: V.score:score -> precondition all_prov of score_chars_up
#[test]
fn d1_joined_match_with_typo_and_one_letter_first_part() {
    let mut store = Store::new();
    store.add(Record::new(1, "t-shirt", 10, &store.lang));
    // must return normally (C01) and find the record (C14: run-together spelling)
    assert_eq!(ids(&store, "tshirt"), vec![1]);
}

#[test]
fn d1_micro_biology() {
    let mut store = Store::new();
    store.add(Record::new(1, "micro biology", 10, &store.lang));
    let _ = ids(&store, "microb");
}
