// Replay of the store-coherence violations D2 / D3 (property C10, C12) against the real crate.
// Place as rust/core/tests/verif_d2_d3.rs and run: cargo test --offline --test verif_d2_d3
use lucid_suggest_core::{tokenize_query, Lang, Record, SearchResult, Store};

fn store_with(titles: &[(usize, &str, usize)]) -> Store {
    let mut store = Store::new();
    for (id, title, rating) in titles {
        store.add(Record::new(*id, title, *rating, &store.lang));
    }
    store
}
fn search(store: &Store, q: &str) -> Vec<usize> {
    let lang = Lang::new();
    let query = tokenize_query(q, &lang);
    let res: Vec<SearchResult> = store.search(&query.to_ref());
    res.iter().map(|r| r.id).collect()
}

// D2 (failed obligation Store::add ensures coherent): a record added after an empty-query search never shows up
#[test]
fn d2_add_after_empty_query() {
    let mut store = store_with(&[(1, "alpha", 10), (2, "beta", 20)]);
    assert_eq!(search(&store, ""), vec![2, 1]);
    store.add(Record::new(3, "gamma", 30, &store.lang));
    let fresh = store_with(&[(1, "alpha", 10), (2, "beta", 20), (3, "gamma", 30)]);
    assert_eq!(search(&store, ""), search(&fresh, ""), "stale top-rated cache after add");
}

// D2 (failed obligation Store::top_ixs ensures ret == spec_top(records, CURRENT limit)): a larger limit keeps the short list
#[test]
fn d2_limit_change_after_empty_query() {
    let mut store = store_with(&[(1, "alpha", 10), (2, "beta", 20), (3, "gamma", 30)]);
    store.limit = 1;
    assert_eq!(search(&store, ""), vec![3]);
    store.limit = 3;
    assert_eq!(search(&store, ""), vec![3, 2, 1], "stale top-rated cache after a limit change");
}

// D3 (failed obligation Store::clear ensures fresh): clear() leaves the trigram index and the cache behind
#[test]
fn d3_clear_then_reuse() {
    let mut store = store_with(&[(1, "alpha", 10), (2, "beta", 20)]);
    assert_eq!(search(&store, ""), vec![2, 1]);
    store.clear();
    assert_eq!(search(&store, ""), Vec::<usize>::new(), "cache survives clear()");
    store.add(Record::new(7, "alpine", 5, &store.lang));
    let fresh = store_with(&[(7, "alpine", 5)]);
    assert_eq!(search(&store, "alp"), search(&fresh, "alp"), "index survives clear()");
}
