// Replay of D4 (property C12): the rating slot of the score vector was `hit.rating as isize`
// (search/score.rs score_rating_up).  A rating above isize::MAX wraps to a negative score, so the final ordering of
// Store::search puts the BEST-rated record last for an empty query ("ratings never increase down the list" fails), and
// in a non-empty query such a record loses every rating tie-break.  On wasm32 (the deployed target) the threshold is 2^31.
// Place as rust/core/tests/verif_d4.rs and run: cargo test --offline --test verif_d4
use lucid_suggest_core::{tokenize_query, Lang, Record, SearchResult, Store};

fn ids(store: &Store, q: &str) -> Vec<usize> {
    let lang = Lang::new();
    let query = tokenize_query(q, &lang);
    let res: Vec<SearchResult> = store.search(&query.to_ref());
    res.iter().map(|r| r.id).collect()
}

// failed obligation: V.search:Store::search ensures rank_ok (ratings never increase down the list) once the size bound
// `rating <= isize::MAX` is dropped from record_ok; V.score:lemma_rslot (the slot is monotone in the rating)
#[test]
fn d4_empty_query_rating_above_isize_max() {
    let mut store = Store::new();
    store.add(Record::new(1, "alpha", 5, &store.lang));
    store.add(Record::new(2, "beta", usize::MAX, &store.lang));
    store.add(Record::new(3, "gamma", 7, &store.lang));
    // pinned commit: [3, 1, 2]
    assert_eq!(ids(&store, ""), vec![2, 3, 1]);
}

#[test]
fn d4_tie_break_by_rating_above_isize_max() {
    let mut store = Store::new();
    store.add(Record::new(1, "red mailbox", 9, &store.lang));
    store.add(Record::new(2, "tan mailbox", (isize::MAX as usize) + 1, &store.lang));
    // identical match quality and title shape: the higher rating comes first (illustration only: C08 states this rule for
    // ratings below 2^31)
    assert_eq!(ids(&store, "mailbox"), vec![2, 1]);
}
