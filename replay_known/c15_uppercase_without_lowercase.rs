// Replay of the C15 finding: words may keep an upper-case character.  `Text::lower` maps every character through
// `to_lowercase().next()`, but 549 Unicode scalar values have the Uppercase property and no lowercase mapping
// (e.g. U+2102 DOUBLE-STRUCK CAPITAL C, U+03D2 GREEK UPSILON WITH HOOK SYMBOL); they are alphanumeric, so they stay inside a word.
// Place as rust/core/tests/verif_c15_upper.rs and run: cargo test --offline --test verif_c15_upper
use lucid_suggest_core::{tokenize_query, Lang};

#[test]
fn c15_no_uppercase_left_in_words() {
    let lang = Lang::new();
    let text = tokenize_query("\u{2102}x", &lang);
    let text = text.to_ref();
    assert_eq!(text.words.len(), 1);
    for w in text.words.iter() {
        for ch in &text.chars[w.slice.0..w.slice.1] {
            assert!(!ch.is_uppercase(), "upper-case character U+{:04X} left inside a word", *ch as u32);
        }
    }
}
