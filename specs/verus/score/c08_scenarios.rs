// ---- C08: the ranking scenarios of the property statement, as lemmas over the score references (`slots_ok`, proved on the real
// `score`) and the comparator order (`desc_le`: what lane K proves `compare_hits` to be).  Each lemma takes the SHAPE of the two
// hits' match lists as its hypothesis (what the matcher yields in that scenario) and concludes that hit `a` is strictly before hit
// `b` WHATEVER the two ratings are.  The step from the scenario's words to that shape of the match lists is not part of these
// lemmas (it is the matcher's contract; see the evidence notes).
// h1 is not after h2: equal vectors, or the first differing slot is larger in h1
pub open spec fn desc_le(a: [isize; 9], b: [isize; 9]) -> bool {
    (forall|m: int| 0 <= m < 9 ==> a[m] == b[m]) || exists|k: int| 0 <= k < 9 && (forall|m: int| 0 <= m < k ==> a[m] == b[m]) && #[trigger] a[k] > b[k]
}
// a is strictly before b
pub open spec fn desc_lt(a: [isize; 9], b: [isize; 9]) -> bool { desc_le(a, b) && !desc_le(b, a) }
proof fn lemma_lt_decides(a: [isize; 9], b: [isize; 9], k: int)
    requires 0 <= k < 9, forall|m: int| 0 <= m < k ==> a[m] == b[m], a[k] > b[k],
    ensures desc_lt(a, b),
{
    assert(desc_le(a, b));
    if desc_le(b, a) {
        if forall|m: int| 0 <= m < 9 ==> b[m] == a[m] { assert(b[k] == a[k]); }
        else {
            let k2 = choose|k2: int| 0 <= k2 < 9 && (forall|m: int| 0 <= m < k2 ==> b[m] == a[m]) && #[trigger] b[k2] > a[k2];
            if k2 < k { assert(a[k2] == b[k2]); } else if k2 > k { assert(b[k] == a[k]); }
        }
    }
}
pub open spec fn mlen(m: WordMatch) -> int { m.subslice.1 - m.subslice.0 }
pub open spec fn wlen(m: WordMatch) -> int { m.slice.1 - m.slice.0 }
// what one match adds to the character score
pub open spec fn mchars(m: WordMatch) -> int { mlen(m) - 2 * ceil_of(m.typos) }
// the rating is a tie breaker: when the six slots before it differ somewhere, the order of two hits does not depend on the ratings
proof fn lemma_c08_rating_tiebreak(a: Hit, b: Hit, a2: Hit, b2: Hit) // [C08]
    requires slots_ok(a), slots_ok(b), slots_ok(a2), slots_ok(b2),
        // a2 / b2: the same title and matches as a / b, any other rating
        a2.rmatches@ == a.rmatches@, a2.title.words@ == a.title.words@, b2.rmatches@ == b.rmatches@, b2.title.words@ == b.title.words@,
        exists|k: int| 0 <= k < 6 && #[trigger] a.scores.0[k] != b.scores.0[k],
    ensures desc_le(a.scores.0, b.scores.0) == desc_le(a2.scores.0, b2.scores.0), desc_lt(a.scores.0, b.scores.0) == desc_lt(a2.scores.0, b2.scores.0),
{
    let x = a.scores.0; let y = b.scores.0; let x2 = a2.scores.0; let y2 = b2.scores.0;
    assert(forall|m: int| 0 <= m < 6 ==> x[m] == x2[m] && y[m] == y2[m]);
    let k = first_diff6(x, y, 0);
    lemma_first_diff6(x, y, 0);
    assert(k < 6);
    assert(forall|m: int| 0 <= m < k ==> x2[m] == y2[m]);
    if x[k] > y[k] { lemma_lt_decides(x, y, k); lemma_lt_decides(x2, y2, k); }
    else { lemma_lt_decides(y, x, k); lemma_lt_decides(y2, x2, k); }
}
pub open spec fn first_diff6(a: [isize; 9], b: [isize; 9], from: int) -> int decreases 6 - from { if from >= 6 { 6 } else if a[from] != b[from] { from } else { first_diff6(a, b, from + 1) } }
proof fn lemma_first_diff6(a: [isize; 9], b: [isize; 9], from: int)
    requires 0 <= from <= 6,
    ensures from <= first_diff6(a, b, from) <= 6, forall|m: int| from <= m < first_diff6(a, b, from) ==> a[m] == b[m], first_diff6(a, b, from) < 6 ==> a[first_diff6(a, b, from)] != b[first_diff6(a, b, from)],
        (exists|k: int| from <= k < 6 && #[trigger] a[k] != b[k]) ==> first_diff6(a, b, from) < 6,
    decreases 6 - from
{ if from < 6 && a[from] == b[from] { lemma_first_diff6(a, b, from + 1); } }
// (1) an exact title word outranks the same word with a typo: one match each; a's is free of typos, b's is not and (as every match)
// is at most one character longer than the query word's part that a matched exactly
proof fn lemma_c08_exact_vs_typo(a: Hit, b: Hit) // [C08]
    requires slots_ok(a), slots_ok(b), a.rmatches@.len() == 1, b.rmatches@.len() == 1,
        ceil_of(a.rmatches@[0].typos) == 0, ceil_of(b.rmatches@[0].typos) >= 1, mlen(b.rmatches@[0]) <= mlen(a.rmatches@[0]) + 1,
    ensures desc_lt(a.scores.0, b.scores.0),
{
    reveal_with_fuel(ref_chars, 2);
    lemma_lt_decides(a.scores.0, b.scores.0, 0);
}
// (2) a title containing both query words outranks one containing only one: two typo-free matches against one match that adds no more
// characters than one of them
proof fn lemma_c08_both_vs_one(a: Hit, b: Hit) // [C08]
    requires slots_ok(a), slots_ok(b), a.rmatches@.len() == 2, b.rmatches@.len() == 1,
        ceil_of(a.rmatches@[0].typos) == 0, ceil_of(a.rmatches@[1].typos) == 0, mlen(a.rmatches@[0]) >= 1, mlen(a.rmatches@[1]) >= 1,
        mchars(b.rmatches@[0]) <= mlen(a.rmatches@[0]) || mchars(b.rmatches@[0]) <= mlen(a.rmatches@[1]),
    ensures desc_lt(a.scores.0, b.scores.0),
{
    reveal_with_fuel(ref_chars, 3);
    lemma_lt_decides(a.scores.0, b.scores.0, 0);
}
// (3) the title 'u' outranks 'u' with extra trailing letters, for the full word and for any typed prefix of it: the same matched
// characters, a longer unmatched tail in b
proof fn lemma_c08_shorter_tail(a: Hit, b: Hit) // [C08]
    requires slots_ok(a), slots_ok(b), a.rmatches@.len() == 1, b.rmatches@.len() == 1,
        mchars(a.rmatches@[0]) == mchars(b.rmatches@[0]), a.rmatches@[0].func == b.rmatches@[0].func,
        wlen(a.rmatches@[0]) - mlen(a.rmatches@[0]) < wlen(b.rmatches@[0]) - mlen(b.rmatches@[0]),
    ensures desc_lt(a.scores.0, b.scores.0),
{
    reveal_with_fuel(ref_chars, 2); reveal_with_fuel(ref_words, 2); reveal_with_fuel(ref_tails, 2);
    lemma_lt_decides(a.scores.0, b.scores.0, 2);
}
// (4) 'u v x' outranks 'u x v' for the query 'u v': matched words that are neighbours in a, one word apart in b; everything the
// earlier slots count is the same
proof fn lemma_c08_adjacent(a: Hit, b: Hit) // [C08]
    requires slots_ok(a), slots_ok(b), a.rmatches@.len() == 2, b.rmatches@.len() == 2,
        forall|i: int| 0 <= i < 2 ==> mchars(#[trigger] a.rmatches@[i]) == mchars(b.rmatches@[i]) && a.rmatches@[i].func == b.rmatches@[i].func
            && wlen(a.rmatches@[i]) - mlen(a.rmatches@[i]) == wlen(b.rmatches@[i]) - mlen(b.rmatches@[i]),
        a.rmatches@[1].offset == a.rmatches@[0].offset + 1, b.rmatches@[1].offset > b.rmatches@[0].offset + 1,
    ensures desc_lt(a.scores.0, b.scores.0),
{
    reveal_with_fuel(ref_chars, 3); reveal_with_fuel(ref_words, 3); reveal_with_fuel(ref_tails, 3); reveal_with_fuel(ref_trans, 2);
    assert(mchars(a.rmatches@[0]) == mchars(b.rmatches@[0]) && mchars(a.rmatches@[1]) == mchars(b.rmatches@[1]));
    assert(ref_trans(a.rmatches@, 1) == 0 && ref_trans(b.rmatches@, 1) >= 1);
    lemma_lt_decides(a.scores.0, b.scores.0, 3);
}
// (5) 'u x' outranks 'x u' for the query 'u': the same single match, earlier in a
proof fn lemma_c08_earlier(a: Hit, b: Hit) // [C08]
    requires slots_ok(a), slots_ok(b), a.rmatches@.len() == 1, b.rmatches@.len() == 1,
        mchars(a.rmatches@[0]) == mchars(b.rmatches@[0]), a.rmatches@[0].func == b.rmatches@[0].func, a.rmatches@[0].fin == b.rmatches@[0].fin,
        wlen(a.rmatches@[0]) - mlen(a.rmatches@[0]) == wlen(b.rmatches@[0]) - mlen(b.rmatches@[0]),
        a.rmatches@[0].offset < b.rmatches@[0].offset,
    ensures desc_lt(a.scores.0, b.scores.0),
{
    reveal_with_fuel(ref_chars, 2); reveal_with_fuel(ref_words, 2); reveal_with_fuel(ref_tails, 2); reveal_with_fuel(ref_min_offset, 2);
    assert(ref_trans(a.rmatches@, 0) == 0 && ref_trans(b.rmatches@, 0) == 0);
    assert(a.rmatches@.last() == a.rmatches@[0] && b.rmatches@.last() == b.rmatches@[0]);
    lemma_lt_decides(a.scores.0, b.scores.0, 5);
}
// (6) among identical titles the higher rating comes first: the same matches and title words, so only slot 6 differs
proof fn lemma_c08_rating_decides(a: Hit, b: Hit) // [C08]
    requires slots_ok(a), slots_ok(b), a.rmatches@ == b.rmatches@, a.title.words@ == b.title.words@, a.rating > b.rating,
    ensures desc_lt(a.scores.0, b.scores.0),
{
    lemma_rslot(b.rating, a.rating);
    lemma_lt_decides(a.scores.0, b.scores.0, 6);
}
// (7) at equal rating the title 'u' outranks 'u x' (query 'u'): the same matches (the matched word is the first word of both titles),
// fewer words in a
proof fn lemma_c08_fewer_words(a: Hit, b: Hit) // [C08]
    requires slots_ok(a), slots_ok(b), a.rmatches@ == b.rmatches@, a.rating == b.rating, a.title.words@.len() < b.title.words@.len(),
    ensures desc_lt(a.scores.0, b.scores.0),
{
    lemma_lt_decides(a.scores.0, b.scores.0, 7);
}
// (8) the query is a function word f: a title with a content word that starts with f outranks a title containing f itself: the same
// matched characters (f, exactly), counted as a matched word only in a
proof fn lemma_c08_content_vs_function(a: Hit, b: Hit) // [C08]
    requires slots_ok(a), slots_ok(b), a.rmatches@.len() == 1, b.rmatches@.len() == 1,
        mchars(a.rmatches@[0]) == mchars(b.rmatches@[0]), !a.rmatches@[0].func, b.rmatches@[0].func,
    ensures desc_lt(a.scores.0, b.scores.0),
{
    reveal_with_fuel(ref_chars, 2); reveal_with_fuel(ref_words, 2);
    lemma_lt_decides(a.scores.0, b.scores.0, 1);
}
