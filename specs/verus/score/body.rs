// ======================================================================= U11: score components (C01, C08, C12)
// @item rust/core/src/tokenization/word_shape.rs :: impl Word for WordShape
impl WordShape {
    fn offset(&self) -> (ret: usize)
        ensures ret == self.offset,
    {
        self.offset
    }
    fn slice(&self) -> (ret: (usize, usize))
        ensures ret == self.slice,
    {
        self.slice
    }
    fn stem(&self) -> (ret: usize)
        ensures ret == self.stem,
    {
        self.stem
    }
    fn pos(&self) -> (ret: Option<PartOfSpeech>)
        ensures ret == self.pos,
    {
        self.pos
    }
    fn fin(&self) -> (ret: bool)
        ensures ret == self.fin,
    {
        self.fin
    }
}
// @item rust/core/src/tokenization/word.rs :: defaults Word as WordShape::{len}
impl WordShape {
    fn len(&self) -> (ret: usize)
        requires self.slice.0 <= self.slice.1,
        ensures ret == self.slice.1 - self.slice.0,
    {
        let (left, right) = self.slice();
        right - left
    }
}
//@include ../common/gates_min.rs
//@include ../common/tm_contract.rs
// provenance clause (C01): the matched prefix is at least twice the rounded-up typo count
pub open spec fn prov(m: WordMatch) -> bool { 2 * ceil_of(m.typos) <= m.subslice.1 - m.subslice.0 }
pub open spec fn all_prov(ms: Seq<WordMatch>) -> bool { forall|k: int| 0 <= k < ms.len() ==> prov(#[trigger] ms[k]) }
// one-line references of the nine score components (C08)
pub open spec fn ref_chars(ms: Seq<WordMatch>, n: int) -> int decreases n { if n <= 0 { 0 } else { ref_chars(ms, n - 1) + (ms[n - 1].subslice.1 - ms[n - 1].subslice.0) - 2 * ceil_of(ms[n - 1].typos) } }
pub open spec fn ref_words(ms: Seq<WordMatch>, n: int) -> int decreases n { if n <= 0 { 0 } else { ref_words(ms, n - 1) + if !ms[n - 1].func { 1int } else { 0int } } }
pub open spec fn ref_tails(ms: Seq<WordMatch>, n: int) -> int decreases n { if n <= 0 { 0 } else { ref_tails(ms, n - 1) + (ms[n - 1].slice.1 - ms[n - 1].slice.0) - (ms[n - 1].subslice.1 - ms[n - 1].subslice.0) } }
pub open spec fn gap(a: WordMatch, b: WordMatch) -> int { if a.offset + 1 > b.offset { a.offset + 1 - b.offset } else { b.offset - a.offset - 1 } }
pub open spec fn ref_trans(ms: Seq<WordMatch>, n: int) -> int decreases n { if n <= 0 { 0 } else { ref_trans(ms, n - 1) + gap(ms[n - 1], ms[n]) } }
pub open spec fn ref_min_offset(ms: Seq<WordMatch>, n: int) -> int decreases n { if n <= 0 { 0 } else if n == 1 { ms[0].offset as int } else { imin(ref_min_offset(ms, n - 1), ms[n - 1].offset as int) } }
pub open spec fn ref_char_len(ws: Seq<WordShape>, n: int) -> int decreases n { if n <= 0 { 0 } else { ref_char_len(ws, n - 1) + (ws[n - 1].slice.1 - ws[n - 1].slice.0) } }
proof fn lemma_ref_bounds(ms: Seq<WordMatch>, n: int)
    requires matches_ok(ms), 0 <= n <= ms.len()
    ensures 0 <= ref_words(ms, n) <= n, 0 <= ref_tails(ms, n) <= n * 0x4000_0000, -2 * n * 0x4000_0000 <= ref_chars(ms, n) <= n * 0x4000_0000,
        all_prov(ms) ==> ref_chars(ms, n) >= 0,
    decreases n
{ if n > 0 { lemma_ref_bounds(ms, n - 1); assert(match_ok(ms[n - 1])); } }
proof fn lemma_trans_bounds(ms: Seq<WordMatch>, n: int)
    requires matches_ok(ms), 0 <= n < ms.len()
    ensures 0 <= ref_trans(ms, n) <= n * 0x4000_0001
    decreases n
{ if n > 0 { lemma_trans_bounds(ms, n - 1); assert(match_ok(ms[n - 1])); assert(match_ok(ms[n])); } }
proof fn lemma_char_len_bounds(ws: Seq<WordShape>, n: int)
    requires 0 <= n <= ws.len(), forall|k: int| 0 <= k < ws.len() ==> (#[trigger] ws[k]).slice.0 <= ws[k].slice.1 <= 0x4000_0000
    ensures 0 <= ref_char_len(ws, n) <= n * 0x4000_0000
    decreases n
{ if n > 0 { lemma_char_len_bounds(ws, n - 1); } }
// contract of text_match: proved on the real body in unit `text` (same text, common/tm_contract.rs); the thread-local
// scratch state it needs (DAMLEV.wf) is established by DamerauLevenshtein::new and preserved by every call
#[verifier::external_body]
fn text_match(rtext: &TextRef, qtext: &TextRef) -> (ret: (Vec<WordMatch>, Vec<WordMatch>))
    requires text_wf(rtext), text_wf(qtext), text_small(rtext), text_small(qtext),
    ensures tm_post(rtext, qtext, ret), tm_some(rtext, qtext, ret), tm_empty(qtext, ret), tm_first(rtext, qtext, ret), tm_fin(qtext, ret), tm_c14(rtext, qtext, ret),
{ unimplemented!() }
// C07 / C12: the rating slot is the rating moved into isize by an ORDER-PRESERVING, one-to-one map (cast, then flip the sign bit):
// a higher rating gives a higher slot over the whole usize range, distinct ratings give distinct slots (so the order of two hits
// that differ only in their rating is decided by the comparator, never left to the selection's buffer order).  At the pinned commit
// the slot was the plain cast, which wraps above isize::MAX (defect D4, DESIGN.md §7).
pub open spec fn rslot(r: usize) -> isize { (r as isize) ^ isize::MIN }
proof fn lemma_rslot(a: usize, b: usize) // [C07 C12]
    ensures (a < b) == (rslot(a) < rslot(b)), (a == b) == (rslot(a) == rslot(b)),
{
    assert((a < b) == (((a as isize) ^ isize::MIN) < ((b as isize) ^ isize::MIN))) by (bit_vector);
    assert((a == b) == (((a as isize) ^ isize::MIN) == ((b as isize) ^ isize::MIN))) by (bit_vector);
}
// C08: slot k of the score vector holds component k, in the documented priority order
pub open spec fn slots_ok(h: Hit) -> bool {
    let ms = h.rmatches@; let n = ms.len() as int;
    &&& h.scores.0[0] == ref_chars(ms, n) && h.scores.0[1] == ref_words(ms, n) && h.scores.0[2] == -ref_tails(ms, n)
    &&& h.scores.0[3] == -ref_trans(ms, n - 1) && h.scores.0[4] == (if n == 0 { 1int } else if ms.last().fin { 1int } else { 0int })
    &&& h.scores.0[5] == -ref_min_offset(ms, n) && h.scores.0[6] == rslot(h.rating) && h.scores.0[7] == -(h.title.words@.len() as int)
    &&& h.scores.0[8] == -ref_char_len(h.title.words@, h.title.words@.len() as int)
}
//@include c08_scenarios.rs
// @item rust/core/src/search/score.rs :: fn score_chars_up
pub fn score_chars_up(hit: &Hit) -> (ret: isize)
    // C01: the character score is signed; no provenance clause is needed of the matches (split parts do not have one)
    requires matches_ok(hit.rmatches@),
    ensures ret == ref_chars(hit.rmatches@, hit.rmatches@.len() as int),
{
    let mut __acc0: isize = 0;
    let __end0 = hit.rmatches.len();
    for __i0 in 0..__end0
        invariant __end0 == hit.rmatches@.len(), matches_ok(hit.rmatches@), __acc0 == ref_chars(hit.rmatches@, __i0 as int),
    {
        let m = &hit.rmatches[__i0];
        proof { lemma_ref_bounds(hit.rmatches@, __i0 as int); lemma_ref_bounds(hit.rmatches@, __i0 as int + 1); assert(match_ok(*m));
            assert(__i0 * 0x4000_0000 <= 0x10_0000 * 0x4000_0000) by (nonlinear_arith) requires __i0 <= 0x10_0000; }
        __acc0 += m.match_len() as isize - 2 * (f64_ceil_as_isize(m.typos));
    }
    __acc0
}
// @item rust/core/src/search/score.rs :: fn score_words_up
pub fn score_words_up(hit: &Hit) -> (ret: isize)
    requires matches_ok(hit.rmatches@),
    ensures ret == ref_words(hit.rmatches@, hit.rmatches@.len() as int),
{
    let mut __acc0: usize = 0;
    let __end0 = hit.rmatches.len();
    for __i0 in 0..__end0
        invariant __end0 == hit.rmatches@.len(), matches_ok(hit.rmatches@), __acc0 == ref_words(hit.rmatches@, __i0 as int), __acc0 <= __i0,
    {
        let m = &hit.rmatches[__i0];
        if !m.func {
            __acc0 += 1;
        }
    }
    __acc0 as isize
}
// @item rust/core/src/search/score.rs :: fn score_tails_down
pub fn score_tails_down(hit: &Hit) -> (ret: isize)
    requires matches_ok(hit.rmatches@),
    ensures ret == -ref_tails(hit.rmatches@, hit.rmatches@.len() as int),
{
    let mut __acc0: usize = 0;
    let __end0 = hit.rmatches.len();
    for __i0 in 0..__end0
        invariant __end0 == hit.rmatches@.len(), matches_ok(hit.rmatches@), __acc0 == ref_tails(hit.rmatches@, __i0 as int),
    {
        let m = &hit.rmatches[__i0];
        proof { lemma_ref_bounds(hit.rmatches@, __i0 as int); lemma_ref_bounds(hit.rmatches@, __i0 as int + 1); assert(match_ok(*m));
            assert(__i0 * 0x4000_0000 <= 0x10_0000 * 0x4000_0000) by (nonlinear_arith) requires __i0 <= 0x10_0000; }
        __acc0 += m.word_len() - m.match_len();
    }
    proof { lemma_ref_bounds(hit.rmatches@, hit.rmatches@.len() as int); assert(hit.rmatches@.len() * 0x4000_0000 <= 0x10_0000 * 0x4000_0000) by (nonlinear_arith) requires hit.rmatches@.len() <= 0x10_0000; }
    let tails = __acc0;
    -(tails as isize)
}
// @item rust/core/src/search/score.rs :: fn score_trans_down
pub fn score_trans_down(hit: &Hit) -> (ret: isize)
    requires matches_ok(hit.rmatches@),
    ensures ret == -ref_trans(hit.rmatches@, hit.rmatches@.len() - 1),
{
    if hit.rmatches.is_empty() {
        return 0;
    }
    let mut count = 0;
    let prevs = &hit.rmatches[..hit.rmatches.len() - 1];
    let nexts = &hit.rmatches[1..];
    let __end0 = vmin(prevs.len(), nexts.len());
    for __i0 in 0..__end0
        invariant __end0 == hit.rmatches@.len() - 1, matches_ok(hit.rmatches@), hit.rmatches@.len() >= 1,
            prevs@ == hit.rmatches@.subrange(0, hit.rmatches@.len() - 1), nexts@ == hit.rmatches@.subrange(1, hit.rmatches@.len() as int),
            count == ref_trans(hit.rmatches@, __i0 as int),
    {
        let prev = &prevs[__i0];
        let next = &nexts[__i0];
        proof { lemma_trans_bounds(hit.rmatches@, __i0 as int); assert(*prev == hit.rmatches@[__i0 as int]); assert(*next == hit.rmatches@[__i0 as int + 1]); assert(match_ok(*prev) && match_ok(*next));
            assert(__i0 * 0x4000_0001 <= 0x10_0000 * 0x4000_0001) by (nonlinear_arith) requires __i0 <= 0x10_0000; }
        if prev.offset + 1 > next.offset {
            count += prev.offset + 1 - next.offset;
        }
        if prev.offset + 1 < next.offset {
            count += next.offset - prev.offset - 1;
        }
    }
    proof { lemma_trans_bounds(hit.rmatches@, hit.rmatches@.len() - 1); assert((hit.rmatches@.len() - 1) * 0x4000_0001 <= 0x10_0000 * 0x4000_0001) by (nonlinear_arith) requires hit.rmatches@.len() - 1 <= 0x10_0000; }
    -(count as isize)
}
// @item rust/core/src/search/score.rs :: fn score_fin_up
pub fn score_fin_up(hit: &Hit) -> (ret: isize)
    ensures ret == (if hit.rmatches@.len() == 0 { 1int } else if hit.rmatches@.last().fin { 1int } else { 0int }),
{
    if let Some(m) = hit.rmatches.last() {
        bool_as_isize(m.fin)
    } else {
        1
    }
}
// @item rust/core/src/search/score.rs :: fn score_offset_down
pub fn score_offset_down(hit: &Hit) -> (ret: isize)
    requires matches_ok(hit.rmatches@),
    ensures ret == -ref_min_offset(hit.rmatches@, hit.rmatches@.len() as int),
{
    let mut __min0: Option<usize> = None;
    let __end0 = hit.rmatches.len();
    for __i0 in 0..__end0
        invariant __end0 == hit.rmatches@.len(), matches_ok(hit.rmatches@),
            __i0 == 0 ==> __min0 is None,
            __i0 > 0 ==> __min0 == Some(ref_min_offset(hit.rmatches@, __i0 as int) as usize) && 0 <= ref_min_offset(hit.rmatches@, __i0 as int) <= 0x4000_0000,
    {
        let m = &hit.rmatches[__i0];
        proof { assert(match_ok(*m)); }
        let __v = m.offset;
        __min0 = match __min0 {
            Some(__c) => {
                if __v < __c {
                    Some(__v)
                } else {
                    Some(__c)
                }
            }
            None => Some(__v),
        };
    }
    let __acc0 = match __min0 {
        Some(__c) => __c,
        None => 0,
    };
    let offset = __acc0;
    -(offset as isize)
}
// @item rust/core/src/search/score.rs :: fn score_rating_up
pub fn score_rating_up(hit: &Hit) -> (ret: isize)
    // no precondition; the slot is monotone and one-to-one in the rating (lemma_rslot)
    ensures ret == rslot(hit.rating), // [C07 C08 C12]
{
    (hit.rating as isize) ^ isize::MIN
}
// @item rust/core/src/search/score.rs :: fn score_word_len_down
pub fn score_word_len_down(hit: &Hit) -> (ret: isize)
    requires hit.title.words@.len() <= 0x4000_0000,
    ensures ret == -(hit.title.words@.len() as int),
{
    -(hit.title.words.len() as isize)
}
// @item rust/core/src/search/score.rs :: fn score_char_len_down
pub fn score_char_len_down(hit: &Hit) -> (ret: isize)
    requires hit.title.words@.len() <= 0x10_0000, forall|k: int| 0 <= k < hit.title.words@.len() ==> (#[trigger] hit.title.words@[k]).slice.0 <= hit.title.words@[k].slice.1 <= 0x4000_0000,
    ensures ret == -ref_char_len(hit.title.words@, hit.title.words@.len() as int),
{
    let mut __acc0: usize = 0;
    let __end0 = hit.title.words.len();
    for __i0 in 0..__end0
        invariant __end0 == hit.title.words@.len(), hit.title.words@.len() <= 0x10_0000, forall|k: int| 0 <= k < hit.title.words@.len() ==> (#[trigger] hit.title.words@[k]).slice.0 <= hit.title.words@[k].slice.1 <= 0x4000_0000,
            __acc0 == ref_char_len(hit.title.words@, __i0 as int),
    {
        let w = &hit.title.words[__i0];
        proof { lemma_char_len_bounds(hit.title.words@, __i0 as int); assert(__i0 * 0x4000_0000 <= 0x10_0000 * 0x4000_0000) by (nonlinear_arith) requires __i0 <= 0x10_0000; }
        __acc0 += w.len();
    }
    proof { lemma_char_len_bounds(hit.title.words@, hit.title.words@.len() as int); assert(hit.title.words@.len() * 0x4000_0000 <= 0x10_0000 * 0x4000_0000) by (nonlinear_arith) requires hit.title.words@.len() <= 0x10_0000; }
    -(__acc0 as isize)
}
// @item rust/core/src/search/score.rs :: fn score
pub fn score(query: &TextRef, hit: &mut Hit)
    requires text_wf(&old(hit).title), text_wf(query), text_small(&old(hit).title), text_small(query),
    // C08: slot k of the score vector holds component k, in the documented priority order
    // (chars, words, tails, gaps, finished, offset, rating, word count, char count)
    ensures ({
        let h = *final(hit); let ms = h.rmatches@; let n = ms.len() as int;
        &&& h.title == old(hit).title && h.rating == old(hit).rating && h.id == old(hit).id
        &&& matches_for_text(ms, &h.title) && matches_ok(ms) && matches_for_text(h.qmatches@, query) && matches_ok(h.qmatches@)
        &&& (ms.len() >= 1 ==> h.qmatches@.len() >= 1)
        // C03 / C13 (TM-some): a title word that the first query word is a prefix of (or equal to) gives the hit a match
        &&& tm_some(&h.title, query, (h.rmatches, h.qmatches)) // [C03 C13]
        // C13 (TM-first / TM-fin): ... the first query word itself is matched; unfinished matches only with an unfinished query word
        &&& tm_first(&h.title, query, (h.rmatches, h.qmatches)) && tm_fin(query, (h.rmatches, h.qmatches)) // [C13]
        // C14: a title word spelled as the first two query words, or two title words run together in the first query word, gives a match
        &&& tm_c14(&h.title, query, (h.rmatches, h.qmatches)) // [C14]
        // C12 / C09: a query without words leaves the hit without matches; the slots as one predicate (for Store::search)
        &&& (query.words@.len() == 0 ==> ms.len() == 0) // [C12 C09]
        &&& slots_ok(h) // [C08 C12 C07]
        &&& h.scores.0[0] == ref_chars(ms, n) && h.scores.0[1] == ref_words(ms, n) && h.scores.0[2] == -ref_tails(ms, n)
        &&& h.scores.0[3] == -ref_trans(ms, n - 1) && h.scores.0[4] == (if n == 0 { 1int } else if ms.last().fin { 1int } else { 0int })
        &&& h.scores.0[5] == -ref_min_offset(ms, n) && h.scores.0[6] == rslot(h.rating) && h.scores.0[7] == -(h.title.words@.len() as int)
        &&& h.scores.0[8] == -ref_char_len(h.title.words@, h.title.words@.len() as int)
    }),
{
    let (rmatches, qmatches) = text_match(&hit.title, &query);
    hit.rmatches = rmatches;
    hit.qmatches = qmatches;
    hit.scores.0[0] = score_chars_up(hit);
    hit.scores.0[1] = score_words_up(hit);
    hit.scores.0[2] = score_tails_down(hit);
    hit.scores.0[3] = score_trans_down(hit);
    hit.scores.0[4] = score_fin_up(hit);
    hit.scores.0[5] = score_offset_down(hit);
    hit.scores.0[6] = score_rating_up(hit);
    hit.scores.0[7] = score_word_len_down(hit);
    hit.scores.0[8] = score_char_len_down(hit);
}
