// @item rust/core/src/matching/damlev/matrix.rs :: struct DistMatrix
pub struct DistMatrix {
    pub size: usize,
    pub raw: Vec<f64>,
}
// @item rust/core/src/matching/damlev/matrix.rs :: impl DistMatrix
impl DistMatrix {
    pub fn new(size: usize) -> (ret: Self)
    {
        let raw = vec![0.0; size * size];
        let mut matrix = Self { size, raw };
        matrix.init();
        matrix
    }
    pub fn prepare(&mut self, coefs1: &[f64], coefs2: &[f64])
    {
        let size = vmax(coefs1.len() + 2, coefs2.len() + 2);
        if size > self.size {
            let size = size + size / 2;
            self.raw.resize(size * size, 0.0);
            self.size = size;
            self.init();
        }
        unsafe {
            let __end0 = coefs1.len();
            for i1 in 0..__end0
            {
                let coef = coefs1[i1];
                let prev = self.get_unchecked(i1 + 1, 1);
                self.set_unchecked(i1 + 2, 1, prev + coef);
            }
            let __end1 = coefs2.len();
            for i2 in 0..__end1
            {
                let coef = coefs2[i2];
                let prev = self.get_unchecked(1, i2 + 1);
                self.set_unchecked(1, i2 + 2, prev + coef);
            }
        }
    }
    pub fn init(&mut self)
    {
        if self.size == 0 {
            return;
        }
        unsafe {
            let __end0 = self.size;
            for i in 0..__end0
            {
                self.set_unchecked(i, 0, usize_as_f64(self.size));
                self.set_unchecked(0, i, usize_as_f64(self.size));
            }
            let __end1 = self.size;
            for i in 1..__end1
            {
                self.set_unchecked(i, 1, usize_as_f64(i - 1));
                self.set_unchecked(1, i, usize_as_f64(i - 1));
            }
        }
    }
    pub unsafe fn get_unchecked(&self, i: usize, j: usize) -> (ret: f64)
    {
        *self.raw.get_unchecked(i * self.size + j)
    }
    pub unsafe fn set_unchecked(&mut self, i: usize, j: usize, val: f64)
    {
        *self.raw.get_unchecked_mut(i * self.size + j) = val;
    }
    pub fn get(&self, i: usize, j: usize) -> (ret: f64)
    {
        self.raw[i * self.size + j]
    }
}
// @item rust/core/src/lang/char_class.rs :: enum CharClass
#[derive(Clone, Copy, PartialEq, Eq, Structural)]
pub enum CharClass {
    Any,
    Control,
    Whitespace,
    Punctuation,
    NotAlpha,
    NotAlphaNum,
    Consonant,
    Vowel,
}
// @item rust/core/src/lang/pos.rs :: enum PartOfSpeech
#[derive(Clone, Copy, PartialEq, Eq, Structural)]
pub enum PartOfSpeech {
    Noun,
    Pronoun,
    Verb,
    Adjective,
    Adverb,
    Preposition,
    Conjunction,
    Particle,
    Intejection,
    Article,
}
// @item rust/core/src/tokenization/word_view.rs :: struct WordView
pub struct WordView<'a> {
    pub offset: usize,
    pub slice: (usize, usize),
    pub stem: usize,
    pub pos: Option<PartOfSpeech>,
    pub fin: bool,
    pub source: &'a [char],
    pub chars: &'a [char],
    pub classes: &'a [CharClass],
}
// @item rust/core/src/tokenization/word_view.rs :: impl Word for WordView
impl<'a> WordView<'a> {
    fn offset(&self) -> (ret: usize)
    {
        self.offset
    }
    fn slice(&self) -> (ret: (usize, usize))
    {
        self.slice
    }
    fn stem(&self) -> (ret: usize)
    {
        self.stem
    }
    fn pos(&self) -> (ret: Option<PartOfSpeech>)
    {
        self.pos
    }
    fn fin(&self) -> (ret: bool)
    {
        self.fin
    }
}
// @item rust/core/src/tokenization/word_view.rs :: impl WordView::{source,chars,classes}
impl<'a> WordView<'a> {
    pub fn source(&'a self) -> (ret: &'a [char])
    {
        &self.source[self.slice.0..self.slice.1]
    }
    pub fn chars(&'a self) -> (ret: &'a [char])
    {
        &self.chars[self.slice.0..self.slice.1]
    }
    pub fn classes(&'a self) -> (ret: &'a [CharClass])
    {
        &self.classes[self.slice.0..self.slice.1]
    }
}
// @item rust/core/src/tokenization/word.rs :: defaults Word as WordView<'a>::{len,is_empty}
impl<'a> WordView<'a> {
    fn len(&self) -> (ret: usize)
    {
        let (left, right) = self.slice();
        right - left
    }
    fn is_empty(&self) -> (ret: bool)
    {
        let (left, right) = self.slice();
        right == left
    }
}
// @item rust/core/src/matching/damlev/mod.rs :: const DEFAULT_CAPACITY
pub const DEFAULT_CAPACITY: usize = 20;
// @item rust/core/src/matching/damlev/mod.rs :: const COST_TRANS
pub const COST_TRANS: f64 = 0.5;
// @item rust/core/src/matching/damlev/mod.rs :: const COST_DOUBLE
pub const COST_DOUBLE: f64 = 0.5;
// @item rust/core/src/matching/damlev/mod.rs :: const COST_VOWEL
pub const COST_VOWEL: f64 = 0.5;
// @item rust/core/src/matching/damlev/mod.rs :: const COST_NOTALPHA
pub const COST_NOTALPHA: f64 = 0.5;
// @item rust/core/src/matching/damlev/mod.rs :: const COST_CONSONANT
pub const COST_CONSONANT: f64 = 1.0;
// @item rust/core/src/matching/damlev/mod.rs :: const COST_DEFAULT
pub const COST_DEFAULT: f64 = 1.0;
// @item rust/core/src/matching/damlev/mod.rs :: struct DamerauLevenshtein
pub struct DamerauLevenshtein {
    pub dists: DistMatrix,
    pub last_i1: HashMap<char, usize>,
    pub costs1: Vec<f64>,
    pub costs2: Vec<f64>,
}
// @item rust/core/src/matching/damlev/mod.rs :: impl DamerauLevenshtein
impl DamerauLevenshtein {
    pub fn new() -> (ret: Self)
    {
        let dists = DistMatrix::new(DEFAULT_CAPACITY + 2);
        let last_i1 = HashMap::with_capacity(DEFAULT_CAPACITY);
        let costs1 = Vec::with_capacity(DEFAULT_CAPACITY);
        let costs2 = Vec::with_capacity(DEFAULT_CAPACITY);
        Self { dists, last_i1, costs1, costs2 }
    }
    fn get_cost(class: &CharClass) -> (ret: f64)
    {
        match class {
            CharClass::Consonant => COST_CONSONANT,
            CharClass::Vowel => COST_VOWEL,
            CharClass::NotAlpha => COST_NOTALPHA,
            _ => COST_DEFAULT,
        }
    }
    pub fn distance(&mut self, word1: &WordView, word2: &WordView) -> (ret: f64)
    {
        let chars1 = word1.chars();
        let chars2 = word2.chars();
        let costs1 = &mut self.costs1;
        let costs2 = &mut self.costs2;
        costs1.clear();
        costs2.clear();
        let __src0 = word1.classes();
        let __end0 = __src0.len();
        for __i0 in 0..__end0
        {
            costs1.push(Self::get_cost(&__src0[__i0]));
        }
        let __src1 = word2.classes();
        let __end1 = __src1.len();
        for __i1 in 0..__end1
        {
            costs2.push(Self::get_cost(&__src1[__i1]));
        }
        let dists = &mut self.dists;
        dists.prepare(&costs1, &costs2);
        let last_i1 = &mut self.last_i1;
        last_i1.clear();
        let __end2 = chars1.len();
        for i1 in 0..__end2
        {
            let ch1 = chars1[i1];
            let mut l2 = 0;
            let cost1 = unsafe { *costs1.get_unchecked(i1) };
            let double1 = i1 > 0 && ch1 == unsafe { *chars1.get_unchecked(i1 - 1) };
            let cost_double1 = if double1 { COST_DOUBLE } else { COST_DEFAULT };
            let cost_del = fmin(cost1, cost_double1);
            let __end3 = chars2.len();
            for i2 in 0..__end3
            {
                let ch2 = chars2[i2];
                let l1 = *last_i1.get(&ch2).unwrap_or(&0);
                let cost2 = unsafe { *costs2.get_unchecked(i2) };
                let double2 = i2 > 0 && ch2 == unsafe { *chars2.get_unchecked(i2 - 1) };
                let cost_double2 = if double2 { COST_DOUBLE } else { COST_DEFAULT };
                let cost_add = fmin(cost2, cost_double2);
                let cost_sub = if ch1 == ch2 { 0.0 } else { fmax(cost1, cost2) };
                let cost_trans = COST_TRANS * usize_as_f64((i1 - l1) + (i2 - l2) + 1);
                let dist_add = cost_add + unsafe { dists.get_unchecked(i1 + 2, i2 + 1) };
                let dist_del = cost_del + unsafe { dists.get_unchecked(i1 + 1, i2 + 2) };
                let dist_sub = cost_sub + unsafe { dists.get_unchecked(i1 + 1, i2 + 1) };
                let dist_trans = cost_trans + unsafe { dists.get_unchecked(l1, l2) };
                let dist = fmin4(dist_add, dist_del, dist_sub, dist_trans);
                unsafe {
                    dists.set_unchecked(i1 + 2, i2 + 2, dist);
                }
                if ch1 == ch2 {
                    l2 = i2 + 1;
                }
            }
            last_i1.insert(ch1, i1 + 1);
        }
        unsafe { dists.get_unchecked(word1.len() + 1, word2.len() + 1) }
    }
}
// @item rust/core/src/matching/damlev/mod.rs :: fn fmin4
fn fmin4(x1: f64, x2: f64, x3: f64, x4: f64) -> (ret: f64)
{
    let mut min = x1;
    if x2 < min {
        min = x2;
    }
    if x3 < min {
        min = x3;
    }
    if x4 < min {
        min = x4;
    }
    min
}
// @item rust/core/src/matching/damlev/mod.rs :: fn fmin
fn fmin(x1: f64, x2: f64) -> (ret: f64)
{
    if x1 < x2 {
        x1
    } else {
        x2
    }
}
// @item rust/core/src/matching/damlev/mod.rs :: fn fmax
fn fmax(x1: f64, x2: f64) -> (ret: f64)
{
    if x1 > x2 {
        x1
    } else {
        x2
    }
}
// @item rust/core/src/tokenization/word.rs :: defaults Word as WordView<'a>::{is_function,dist}
impl<'a> WordView<'a> {
    fn is_function(&self) -> (ret: bool)
    {
        match self.pos() {
            Some(PartOfSpeech::Article) => true,
            Some(PartOfSpeech::Preposition) => true,
            Some(PartOfSpeech::Conjunction) => true,
            Some(PartOfSpeech::Particle) => true,
            _ => false,
        }
    }
    fn dist(&self, other: &Self) -> (ret: usize)
    {
        let (left1, right1) = self.slice();
        let (left2, right2) = other.slice();
        if left1 >= right2 {
            return left1 - right2;
        }
        if left2 >= right1 {
            return left2 - right1;
        }
        return vpanic();
    }
}
// @item rust/core/src/tokenization/word_view.rs :: impl WordView::{to_shape,join}
impl<'a> WordView<'a> {
    pub fn to_shape(&'a self) -> (ret: WordShape)
    {
        WordShape { offset: self.offset, slice: self.slice, stem: self.stem, pos: self.pos, fin: self.fin }
    }
    pub fn join(&self, other: &Self) -> (ret: Self)
    {
        Self { offset: self.offset, slice: (self.slice.0, other.slice.1), stem: other.slice.0 - self.slice.0 + other.stem, pos: None, fin: other.fin, source: &self.source, chars: &self.chars, classes: &self.classes }
    }
}
// @item rust/core/src/tokenization/word_shape.rs :: struct WordShape
pub struct WordShape {
    pub offset: usize,
    pub slice: (usize, usize),
    pub stem: usize,
    pub pos: Option<PartOfSpeech>,
    pub fin: bool,
}
// @item rust/core/src/matching/word_match.rs :: struct WordMatch
pub struct WordMatch {
    pub offset: usize,
    pub slice: (usize, usize),
    pub subslice: (usize, usize),
    pub typos: f64,
    pub func: bool,
    pub fin: bool,
}
// @item rust/core/src/matching/word_match.rs :: impl WordMatch::{new_pair,word_len,match_len,split,split_typos}
impl WordMatch {
    pub fn new_pair(rword: &WordView, qword: &WordView, rslice: usize, qslice: usize, typos: f64) -> (ret: (Self, Self))
    {
        vassert(rword.slice.0 + rslice <= rword.slice.1);
        vassert(qword.slice.0 + qslice <= qword.slice.1);
        let fin = qword.fin || rword.len() == rslice;
        let rmatch = WordMatch { offset: rword.offset, slice: rword.slice, subslice: (0, rslice), func: rword.is_function(), typos, fin };
        let qmatch = WordMatch { offset: qword.offset, slice: qword.slice, subslice: (0, qslice), func: qword.is_function(), typos, fin };
        (rmatch, qmatch)
    }
    pub fn word_len(&self) -> (ret: usize)
    {
        let (left, right) = self.slice;
        return right - left;
    }
    pub fn match_len(&self) -> (ret: usize)
    {
        let (left, right) = self.subslice;
        return right - left;
    }
    pub fn split(&self, w1: &WordView, w2: &WordView) -> (ret: Option<(Self, Self)>)
    {
        vassert(w2.slice.0 > w1.slice.0);
        vassert(w1.offset == self.offset || w2.offset == self.offset);
        if w1.slice.0 + self.subslice.1 <= w2.slice.0 {
            return None;
        }
        let (typos1, typos2) = Self::split_typos(self.typos, w1.len(), w2.len());
        let part1 = Self { offset: w1.offset, slice: w1.slice, subslice: (0, w1.len()), func: w1.is_function(), typos: typos1, fin: true };
        let part2 = Self { offset: w2.offset, slice: w2.slice, subslice: (0, self.subslice.1 - (w2.slice.0 - w1.slice.0)), func: w2.is_function(), typos: typos2, fin: self.fin };
        Some((part1, part2))
    }
    fn split_typos(typos: f64, len1: usize, len2: usize) -> (ret: (f64, f64))
    {
        if len1 == 0 {
            return (0.0, typos);
        }
        if len2 == 0 {
            return (typos, 0.0);
        }
        let len1 = usize_as_f64(len1);
        let len2 = usize_as_f64(len2);
        let split1 = (typos * len1 * 10.0 / (len1 + len2)).ceil() / 10.0;
        let split2 = ((typos - split1) * 10.0).round() / 10.0;
        (split1, split2)
    }
}
// @item rust/core/src/tokenization/text.rs :: struct Text
pub struct TextRef<'a> {
    pub words: &'a [WordShape],
    pub source: &'a [char],
    pub chars: &'a [char],
    pub classes: &'a [CharClass],
}
// @item rust/core/src/search/score.rs :: const SCORES_SIZE
pub const SCORES_SIZE: usize = 9;
// @item rust/core/src/search/score.rs :: struct Scores
pub struct Scores(pub [isize; SCORES_SIZE]);
// @item rust/core/src/search/hit.rs :: struct Hit
pub struct Hit<'a> {
    pub id: usize,
    pub title: TextRef<'a>,
    pub rating: usize,
    pub rmatches: Vec<WordMatch>,
    pub qmatches: Vec<WordMatch>,
    pub scores: Scores,
}
// @item rust/core/src/search/highlight.rs :: fn highlight
pub fn highlight(hit: &Hit, dividers: (&[char], &[char])) -> (ret: String)
{
    let (div_left, div_right) = dividers;
    let Hit { title: TextRef { words, source, .. }, rmatches, .. } = hit;
    let mut highlighted = {
        let chars_src = source.len();
        let chars_hl = (div_left.len() + div_right.len() + 1) * words.len();
        String::with_capacity((chars_src + chars_hl) * 4)
    };
    let mut char_offset = 0;
    let __end0 = words.len();
    for word_offset in 0..__end0
    {
        let word = &words[word_offset];
        let mut __found1: Option<&WordMatch> = None;
        let mut __i1 = 0;
        while __i1 < rmatches.len()
        {
            let m = &rmatches[__i1];
            if m.offset == word_offset {
                __found1 = Some(m);
                break;
            }
            __i1 += 1;
        }
        match __found1 {
            Some(rmatch) => {
                let match_start = word.slice.0 + rmatch.subslice.0;
                let match_end = word.slice.0 + rmatch.subslice.1;
                highlighted.extend(&source[char_offset..match_start]);
                highlighted.extend(div_left);
                highlighted.extend(&source[match_start..match_end]);
                highlighted.extend(div_right);
                highlighted.extend(&source[match_end..word.slice.1]);
            }
            None => {
                highlighted.extend(&source[char_offset..word.slice.1]);
            }
        }
        char_offset = word.slice.1;
    }
    highlighted.extend(&source[char_offset..]);
    let __clo0 = |ch: char| -> (ret: bool)
    {
        ch != '\0'
    };
    highlighted.retain(__clo0);
    highlighted
}
// @item rust/core/src/tokenization/word_shape.rs :: impl Word for WordShape
impl WordShape {
    fn offset(&self) -> (ret: usize)
    {
        self.offset
    }
    fn slice(&self) -> (ret: (usize, usize))
    {
        self.slice
    }
    fn stem(&self) -> (ret: usize)
    {
        self.stem
    }
    fn pos(&self) -> (ret: Option<PartOfSpeech>)
    {
        self.pos
    }
    fn fin(&self) -> (ret: bool)
    {
        self.fin
    }
}
// @item rust/core/src/tokenization/word.rs :: defaults Word as WordShape::{len}
impl WordShape {
    fn len(&self) -> (ret: usize)
    {
        let (left, right) = self.slice();
        right - left
    }
}
// @item rust/core/src/search/score.rs :: fn score_chars_up
pub fn score_chars_up(hit: &Hit) -> (ret: isize)
{
    let mut __acc0: isize = 0;
    let __end0 = hit.rmatches.len();
    for __i0 in 0..__end0
    {
        let m = &hit.rmatches[__i0];
        __acc0 += m.match_len() as isize - 2 * (f64_ceil_as_isize(m.typos));
    }
    __acc0
}
// @item rust/core/src/search/score.rs :: fn score_words_up
pub fn score_words_up(hit: &Hit) -> (ret: isize)
{
    let mut __acc0: usize = 0;
    let __end0 = hit.rmatches.len();
    for __i0 in 0..__end0
    {
        let m = &hit.rmatches[__i0];
        if !m.func {
            __acc0 += 1;
        }
    }
    __acc0 as isize
}
// @item rust/core/src/search/score.rs :: fn score_tails_down
pub fn score_tails_down(hit: &Hit) -> (ret: isize)
{
    let mut __acc0: usize = 0;
    let __end0 = hit.rmatches.len();
    for __i0 in 0..__end0
    {
        let m = &hit.rmatches[__i0];
        __acc0 += m.word_len() - m.match_len();
    }
    let tails = __acc0;
    -(tails as isize)
}
// @item rust/core/src/search/score.rs :: fn score_trans_down
pub fn score_trans_down(hit: &Hit) -> (ret: isize)
{
    if hit.rmatches.is_empty() {
        return 0;
    }
    let mut count = 0;
    let prevs = &hit.rmatches[..hit.rmatches.len() - 1];
    let nexts = &hit.rmatches[1..];
    let __end0 = vmin(prevs.len(), nexts.len());
    for __i0 in 0..__end0
    {
        let prev = &prevs[__i0];
        let next = &nexts[__i0];
        if prev.offset + 1 > next.offset {
            count += prev.offset + 1 - next.offset;
        }
        if prev.offset + 1 < next.offset {
            count += next.offset - prev.offset - 1;
        }
    }
    -(count as isize)
}
// @item rust/core/src/search/score.rs :: fn score_fin_up
pub fn score_fin_up(hit: &Hit) -> (ret: isize)
{
    if let Some(m) = hit.rmatches.last() {
        bool_as_isize(m.fin)
    } else {
        1
    }
}
// @item rust/core/src/search/score.rs :: fn score_offset_down
pub fn score_offset_down(hit: &Hit) -> (ret: isize)
{
    let mut __min0: Option<usize> = None;
    let __end0 = hit.rmatches.len();
    for __i0 in 0..__end0
    {
        let m = &hit.rmatches[__i0];
        let __v = m.offset;
        __min0 = match __min0 {
            Some(__c) => {
                if __v < __c {
                    Some(__v)
                } else {
                    Some(__c)
                }
            }
            None => Some(__v),
        };
    }
    let __acc0 = match __min0 {
        Some(__c) => __c,
        None => 0,
    };
    let offset = __acc0;
    -(offset as isize)
}
// @item rust/core/src/search/score.rs :: fn score_rating_up
pub fn score_rating_up(hit: &Hit) -> (ret: isize)
{
    (hit.rating as isize) ^ isize::MIN
}
// @item rust/core/src/search/score.rs :: fn score_word_len_down
pub fn score_word_len_down(hit: &Hit) -> (ret: isize)
{
    -(hit.title.words.len() as isize)
}
// @item rust/core/src/search/score.rs :: fn score_char_len_down
pub fn score_char_len_down(hit: &Hit) -> (ret: isize)
{
    let mut __acc0: usize = 0;
    let __end0 = hit.title.words.len();
    for __i0 in 0..__end0
    {
        let w = &hit.title.words[__i0];
        __acc0 += w.len();
    }
    -(__acc0 as isize)
}
// @item rust/core/src/search/score.rs :: fn score
pub fn score(query: &TextRef, hit: &mut Hit)
{
    let (rmatches, qmatches) = text_match(&hit.title, &query);
    hit.rmatches = rmatches;
    hit.qmatches = qmatches;
    hit.scores.0[0] = score_chars_up(hit);
    hit.scores.0[1] = score_words_up(hit);
    hit.scores.0[2] = score_tails_down(hit);
    hit.scores.0[3] = score_trans_down(hit);
    hit.scores.0[4] = score_fin_up(hit);
    hit.scores.0[5] = score_offset_down(hit);
    hit.scores.0[6] = score_rating_up(hit);
    hit.scores.0[7] = score_word_len_down(hit);
    hit.scores.0[8] = score_char_len_down(hit);
}
