// ======================================================================= U10: text matching (C06 C09 C13 C14 C01 C10)
//@include ../common/tm_contract.rs
// R2: the thread-locals of matching/text.rs become fields of a second parameter (they are independent of word.rs's)
pub struct TlsText { pub RMATCHES: Vec<Option<WordMatch>>, pub QMATCHES: Vec<Option<WordMatch>> }
// `v` is the view of word k of text t
pub open spec fn view_of(v: &WordView, t: &TextRef, k: int) -> bool {
    0 <= k < t.words@.len() && v.offset == k && v.slice == t.words@[k].slice && v.stem == t.words@[k].stem && v.pos == t.words@[k].pos && v.fin == t.words@[k].fin
    && v.source@ == t.source@ && v.chars@ == t.chars@ && v.classes@ == t.classes@
}
proof fn lemma_view_wfs(v: &WordView, t: &TextRef, k: int)
    requires text_wf(t), view_of(v, t, k)
    ensures v.wfs()
{ assert(t.words@[k].slice.1 <= t.chars@.len()); }
// @item rust/core/src/tokenization/word_view.rs :: impl WordView::{new}
impl<'a> WordView<'a> {
    pub fn new(word: &'a WordShape, text: &'a TextRef) -> (ret: Self)
        ensures ret.offset == word.offset, ret.slice == word.slice, ret.stem == word.stem, ret.pos == word.pos, ret.fin == word.fin,
            ret.source@ == text.source@, ret.chars@ == text.chars@, ret.classes@ == text.classes@,
    {
        Self { offset: word.offset, slice: word.slice, stem: word.stem, pos: word.pos, fin: word.fin, source: &text.source, chars: &text.chars, classes: &text.classes }
    }
}
// @item rust/core/src/tokenization/word_shape.rs :: impl WordShape::{to_view}
impl WordShape {
    pub fn to_view<'a>(&'a self, text: &'a TextRef) -> (ret: WordView<'a>)
        ensures ret.offset == self.offset, ret.slice == self.slice, ret.stem == self.stem, ret.pos == self.pos, ret.fin == self.fin,
            ret.source@ == text.source@, ret.chars@ == text.chars@, ret.classes@ == text.classes@,
    {
        WordView::new(self, text)
    }
}
//@include ../common/gates_min2.rs
// a match as stored in slot k of the scratch vector: it is for word k of the text and well formed
pub open spec fn match_ok2(m: WordMatch) -> bool { 0 <= ceil_of(m.typos) <= 0x20_0000 }
pub open spec fn slot_ok(m: WordMatch, t: &TextRef, k: int) -> bool { match_for_text(m, t) && m.offset == k && match_ok2(m) }
pub open spec fn slots_ok(ms: Seq<Option<WordMatch>>, t: &TextRef) -> bool {
    ms.len() == t.words@.len() && forall|k: int| 0 <= k < ms.len() ==> (#[trigger] ms[k] matches Some(m) ==> slot_ok(m, t, k))
}
pub open spec fn cand_ok(c: Option<(WordMatch, WordMatch)>, rtext: &TextRef, qtext: &TextRef) -> bool {
    c matches Some(p) ==> slot_ok(p.0, rtext, p.0.offset as int) && slot_ok(p.1, qtext, p.1.offset as int)
}
// ---- TM-some (C03 C04 C13): when the first query word must match some record word, the record gets a match
pub open spec fn must_match(r: &WordView, q: &WordView) -> bool { prefix_case(r, q) || equal_case(r, q) || (edit1_case(r, q) && jac_passes(r, q)) }
// record word j and query word 0 are a pair that word_match cannot refuse, whatever views are made of them
pub open spec fn must_pair(rtext: &TextRef, qtext: &TextRef, j: int) -> bool {
    0 <= j < rtext.words@.len() && qtext.words@.len() >= 1 && forall|rv: WordView, qv: WordView| view_of(&rv, rtext, j) && view_of(&qv, qtext, 0) ==> #[trigger] must_match(&rv, &qv)
}
// ---- TM-fin / TM-first (C13, queries of several words).  TM-fin: a record-side slot holds an unfinished match only when some
// query-side slot of an unfinished query word is filled (a match is unfinished only if its query word is: wm_fin, join, split).
pub open spec fn unfin_slot(qm: Seq<Option<WordMatch>>, qtext: &TextRef) -> bool {
    exists|k: int| 0 <= k < qm.len() && k < qtext.words@.len() && #[trigger] qm[k] is Some && !qtext.words@[k].fin
}
pub open spec fn unfin_at(s: Seq<Option<WordMatch>>, j: int) -> bool { 0 <= j < s.len() && s[j] is Some && !s[j]->0.fin }
pub open spec fn fin_inv(rm: Seq<Option<WordMatch>>, qm: Seq<Option<WordMatch>>, qtext: &TextRef) -> bool {
    forall|j: int| #[trigger] unfin_at(rm, j) ==> unfin_slot(qm, qtext)
}
// the pending candidate is for the current query word, and is unfinished only if that word is
pub open spec fn cand_fin(c: Option<(WordMatch, WordMatch)>, qword: &WordView) -> bool { c matches Some(p) ==> p.1.offset == qword.offset && (p.0.fin || !qword.fin) }
proof fn lemma_fin_keep(rm: Seq<Option<WordMatch>>, qm: Seq<Option<WordMatch>>, qm2: Seq<Option<WordMatch>>, qtext: &TextRef)
    requires mono_slots(qm, qm2), unfin_slot(qm, qtext),
    ensures unfin_slot(qm2, qtext),
{
    let k = choose|k: int| 0 <= k < qm.len() && k < qtext.words@.len() && #[trigger] qm[k] is Some && !qtext.words@[k].fin;
    assert(qm2[k] is Some);
}
// TM-some in general: record word j leaves the record a match through the first query word — because word_match cannot refuse the pair
// (must_pair), or because the split / joined attempt cannot fail for it (C14)
pub open spec fn must_any(rtext: &TextRef, qtext: &TextRef, j: int) -> bool { must_pair(rtext, qtext, j) || pair_split(rtext, qtext, j) || pair_join(rtext, qtext, j) }
pub open spec fn all_none(s: Seq<Option<WordMatch>>) -> bool { forall|k: int| 0 <= k < s.len() ==> #[trigger] s[k] is None }
// three different letters survive the insertion of one character
proof fn lemma_three_ins(r: Seq<char>, q: Seq<char>, p: int)
    requires is_ins(r, q, p), three_letters(r)
    ensures three_letters(q)
{
    let (i, j, k) = choose|i: int, j: int, k: int| 0 <= i < r.len() && 0 <= j < r.len() && 0 <= k < r.len() && #[trigger] r[i] != #[trigger] r[j] && r[i] != #[trigger] r[k] && r[j] != r[k];
    let i2 = if i < p { i } else { i + 1 }; let j2 = if j < p { j } else { j + 1 }; let k2 = if k < p { k } else { k + 1 };
    assert(q[i2] == r[i] && q[j2] == r[j] && q[k2] == r[k]);
    assert(q[i2] != q[j2] && q[i2] != q[k2] && q[j2] != q[k2]);
}
// ---- the greedy choice among plain word matches (C08 C13): the third attempt keeps the better-scoring match; on a tie a
// content-word match replaces the pending one; a replacing match stops the scan exactly when it is not a function-word match
pub open spec fn m_score(m: WordMatch) -> int { (m.subslice.1 - m.subslice.0) - 2 * ceil_of(m.typos) }
pub open spec fn c3_replace(c: Option<(WordMatch, WordMatch)>, m2: WordMatch) -> bool {
    match c { None => true, Some(p) => m_score(p.0) < m_score(m2) || (m_score(p.0) == m_score(m2) && !m2.func) }
}
pub open spec fn c3_step(c0: Option<(WordMatch, WordMatch)>, s0: bool, p2: (WordMatch, WordMatch), c1: Option<(WordMatch, WordMatch)>, s1: bool) -> bool {
    if c3_replace(c0, p2.0) { c1 == Some(p2) && s1 == !p2.0.func } else { c1 == c0 && s1 == s0 }
}
pub open spec fn some_slot(s: Seq<Option<WordMatch>>) -> bool { exists|k: int| 0 <= k < s.len() && #[trigger] s[k] is Some }
pub open spec fn mono_slots(a: Seq<Option<WordMatch>>, b: Seq<Option<WordMatch>>) -> bool { a.len() == b.len() && forall|k: int| 0 <= k < a.len() && #[trigger] a[k] is Some ==> b[k] is Some }
// the text-level cases of common/tm_contract.rs are instances
proof fn lemma_pair_must(rtext: &TextRef, qtext: &TextRef, j: int)
    requires text_wf(rtext), text_wf(qtext), pair_prefix(rtext, qtext, j) || pair_equal(rtext, qtext, j),
    ensures must_pair(rtext, qtext, j),
{
    assert forall|rv: WordView, qv: WordView| view_of(&rv, rtext, j) && view_of(&qv, qtext, 0) implies #[trigger] must_match(&rv, &qv) by {
        assert(rv.vchars() == tchars(rtext, j)); assert(qv.vchars() == tchars(qtext, 0));
        assert(qtext.words@[0].slice.0 < qtext.words@[0].slice.1);
        if pair_prefix(rtext, qtext, j) { assert(prefix_case(&rv, &qv)); } else { assert(equal_case(&rv, &qv)); }
    }
}
proof fn lemma_edit_must(rtext: &TextRef, qtext: &TextRef, j: int, p: int)
    requires text_wf(rtext), text_wf(qtext), text_small(rtext), text_small(qtext), pair_edit1(rtext, qtext, j, p),
    ensures must_pair(rtext, qtext, j),
{
    assert forall|rv: WordView, qv: WordView| view_of(&rv, rtext, j) && view_of(&qv, qtext, 0) implies #[trigger] must_match(&rv, &qv) by {
        assert(rv.vchars() == tchars(rtext, j)); assert(qv.vchars() == tchars(qtext, 0));
        lemma_view_wfs(&rv, rtext, j); lemma_view_wfs(&qv, qtext, 0);
        lemma_c04_word(&rv, &qv, p);
    }
}
proof fn lemma_wf_for_slot(m: WordMatch, v: &WordView, t: &TextRef, k: int)
    requires m.wf_for(v), view_of(v, t, k), match_ok2(m)
    ensures slot_ok(m, t, k)
{ }
proof fn lemma_typos_ceil(t: f64)
    requires typos_ok(t)
    ensures 0 <= ceil_of(t) <= 0x10_0000
{ gax::ax_ceil_half(t); }
proof fn lemma_collected_ok(out: Seq<WordMatch>, t: &TextRef)
    requires text_wf(t), out.len() <= t.words@.len(),
        forall|j: int| 0 <= j < out.len() ==> match_for_text(#[trigger] out[j], t) && match_ok2(out[j]),
        forall|a: int, b: int| 0 <= a < b < out.len() ==> (#[trigger] out[a]).offset < (#[trigger] out[b]).offset,
    ensures matches_for_text(out, t), matches_ok(out)
{
    assert forall|k: int| 0 <= k < out.len() implies match_ok(#[trigger] out[k]) by {
        let m = out[k];
        assert(match_for_text(m, t) && match_ok2(m));
        let w = t.words@[m.offset as int];
        assert(w.slice.1 <= t.chars@.len());
    }
}
// @item rust/core/src/matching/text.rs :: fn text_match
pub fn text_match(rtext: &TextRef, qtext: &TextRef, tls: &mut Tls, tlsm: &mut TlsText) -> (ret: (Vec<WordMatch>, Vec<WordMatch>))
    // C06/C10: no requirement on the scratch vectors (arbitrary leftovers); they are empty again afterwards
    requires old(tls).DAMLEV.wf(), text_wf(rtext), text_wf(qtext), text_small(rtext), text_small(qtext),
    ensures final(tls).DAMLEV.wf(),
        tm_post(rtext, qtext, ret), // [C09 C06 C01 C08 C02]
        final(tlsm).RMATCHES@.len() == 0 && final(tlsm).QMATCHES@.len() == 0, // [C06 C10]
        qtext.words@.len() == 0 ==> ret.0@.len() == 0 && ret.1@.len() == 0, // [C09 C12]
        tm_empty(qtext, ret), // [C09 C12]
        // TM-some (C03 C04 C13): a record word that the first query word must match gives the record at least one match
        (exists|j: int| #[trigger] must_pair(rtext, qtext, j)) ==> ret.0@.len() >= 1, // [C03 C04 C13]
        tm_some(rtext, qtext, ret), // [C03 C04 C13]
        // TM-first: ... and the first query word itself is matched;  TM-fin: an unfinished record-side match comes with a match of an unfinished query word
        (exists|j: int| #[trigger] must_pair(rtext, qtext, j)) ==> first_matched(ret.1@), // [C13]
        tm_first(rtext, qtext, ret), // [C13]
        tm_fin(qtext, ret), // [C13]
        // C14 (text level): a record word spelled as the first two query words, or two record words run together in the first query word,
        // give the record a match, and the first query word is matched
        tm_c14(rtext, qtext, ret), // [C14]
{
    proof {
        if exists|j: int| #![trigger pair_prefix(rtext, qtext, j)] #![trigger pair_equal(rtext, qtext, j)] pair_prefix(rtext, qtext, j) || pair_equal(rtext, qtext, j) {
            let j = choose|j: int| #![trigger pair_prefix(rtext, qtext, j)] #![trigger pair_equal(rtext, qtext, j)] pair_prefix(rtext, qtext, j) || pair_equal(rtext, qtext, j);
            lemma_pair_must(rtext, qtext, j);
        }
        if exists|j: int, p: int| #[trigger] pair_edit1(rtext, qtext, j, p) {
            let (j, p) = choose|j: int, p: int| #[trigger] pair_edit1(rtext, qtext, j, p);
            lemma_edit_must(rtext, qtext, j, p);
        }
    }
    proof {
        if exists|j: int| #[trigger] must_pair(rtext, qtext, j) { let j = choose|j: int| #[trigger] must_pair(rtext, qtext, j); assert(must_any(rtext, qtext, j)); }
        if exists|j: int| #[trigger] pair_split(rtext, qtext, j) { let j = choose|j: int| #[trigger] pair_split(rtext, qtext, j); assert(must_any(rtext, qtext, j)); }
        if exists|j: int| #[trigger] pair_join(rtext, qtext, j) { let j = choose|j: int| #[trigger] pair_join(rtext, qtext, j); assert(must_any(rtext, qtext, j)); }
    }
    let ghost need: bool = exists|j: int| #[trigger] must_any(rtext, qtext, j);
    {
        let rcell = &mut tlsm.RMATCHES;
        {
            {
                let qcell = &mut tlsm.QMATCHES;
                {
                    let rmatches = &mut *rcell;
                    let qmatches = &mut *qcell;
                    rmatches.clear();
                    qmatches.clear();
                    rmatches.resize(rtext.words.len(), None);
                    qmatches.resize(qtext.words.len(), None);
                    let __end0 = qtext.words.len();
                    let mut __i0 = 0;
                    while __i0 < __end0
                    invariant text_wf(rtext), text_wf(qtext), text_small(rtext), text_small(qtext), tls.DAMLEV.wf(),
                        slots_ok(rmatches@, rtext), slots_ok(qmatches@, qtext), __end0 == qtext.words@.len(), __i0 <= __end0,
                        qtext.words@.len() == 0 ==> (forall|k: int| 0 <= k < rmatches@.len() ==> rmatches@[k] is None),
                        __i0 == 0 ==> (forall|k: int| 0 <= k < qmatches@.len() ==> qmatches@[k] is None),
                        __i0 >= 1 && need ==> some_slot(rmatches@), need == (exists|j: int| #[trigger] must_any(rtext, qtext, j)),
                        __i0 >= 1 && need ==> qmatches@[0] is Some, // [C13]
                        __i0 == 0 ==> (forall|k: int| 0 <= k < rmatches@.len() ==> rmatches@[k] is None),
                        fin_inv(rmatches@, qmatches@, qtext), // [C13]
                        some_slot(rmatches@) ==> some_slot(qmatches@),
                    decreases __end0 - __i0,
                    {
                        let qword = &qtext.words[__i0];
                        __i0 += 1;
                        if qmatches[qword.offset].is_some() {
                            continue;
                        }
                        let qword = qword.to_view(qtext);
                        let ghost qk = __i0 as int - 1;
                        let ghost rm0 = rmatches@; let ghost qm0 = qmatches@;
                        proof { assert(view_of(&qword, qtext, qk)); }
                        let mut candidate: Option<(WordMatch, WordMatch)> = None;
                        let __end1 = rtext.words.len();
                        let mut __i1 = 0;
                        while __i1 < __end1
                            invariant text_wf(rtext), text_wf(qtext), text_small(rtext), text_small(qtext), tls.DAMLEV.wf(),
                                slots_ok(rmatches@, rtext), slots_ok(qmatches@, qtext), __end0 == qtext.words@.len(), __i0 <= __end0, 1 <= __i0,
                                __end1 == rtext.words@.len(), __i1 <= __end1, qk == __i0 - 1, view_of(&qword, qtext, qk), cand_ok(candidate, rtext, qtext),
                                mono_slots(rm0, rmatches@), mono_slots(qm0, qmatches@),
                                fin_inv(rmatches@, qmatches@, qtext), cand_fin(candidate, &qword), // [C13]
                                qk == 0 ==> candidate is Some || qmatches@[0] is Some || (forall|j: int| 0 <= j < __i1 ==> !#[trigger] must_any(rtext, qtext, j)), // [C13]
                                // while the first query word is being matched a record slot is only filled together with that word's slot
                                qk == 0 && some_slot(rmatches@) ==> qmatches@[0] is Some, // [C13]
                                qk == 0 ==> some_slot(rmatches@) || all_none(qmatches@), // [C14]
                                some_slot(rmatches@) ==> some_slot(qmatches@),
                                // TM-some: for the first query word, every record word seen so far that must match has left a candidate or a filled slot
                                qk == 0 ==> candidate is Some || some_slot(rmatches@) || (forall|j: int| 0 <= j < __i1 ==> !#[trigger] must_any(rtext, qtext, j)),
                            ensures qk == 0 ==> candidate is Some || some_slot(rmatches@) || (forall|j: int| 0 <= j < __end1 ==> !#[trigger] must_any(rtext, qtext, j)),
                                qk == 0 ==> candidate is Some || qmatches@[0] is Some || (forall|j: int| 0 <= j < __end1 ==> !#[trigger] must_any(rtext, qtext, j)), // [C13]
                            decreases __end1 - __i1,
                        {
                            let rword = &rtext.words[__i1];
                            __i1 += 1;
                            if rmatches[rword.offset].is_some() {
                                proof { assert(rmatches@[rword.offset as int] is Some); }
                                continue;
                            }
                            let rword = rword.to_view(rtext);
                            proof { assert(view_of(&rword, rtext, __i1 as int - 1)); }
                            let ghost cand0 = candidate; let ghost rm1 = rmatches@; let ghost qm1 = qmatches@;
                            proof { if qk == 0 && must_pair(rtext, qtext, __i1 as int - 1) { assert(must_match(&rword, &qword)); } }
                            let mut stop = false;
                            let __r2 = text_match__c1(rtext, qtext, &rword, &qword, rmatches, qmatches, &mut candidate, &mut stop, tls);
                            let __r3 = if __r2.is_none() { text_match__c2(rtext, qtext, &rword, &qword, rmatches, qmatches, &mut candidate, &mut stop, tls) } else { __r2 };
                            let __r4 = if __r3.is_none() { text_match__c3(rtext, qtext, &rword, &qword, rmatches, qmatches, &mut candidate, &mut stop, tls) } else { __r3 };
                            proof {
                                if __r2 is Some || __r3 is Some { assert(qmatches@[qk] is Some); }
                                else {
                                    assert(rmatches@ == rm1);
                                    if some_slot(qm1) { let k = choose|k: int| 0 <= k < qm1.len() && #[trigger] qm1[k] is Some; assert(qmatches@[k] is Some); }
                                }
                                if qk == 0 {
                                    if __r2 is Some || __r3 is Some { assert(some_slot(rmatches@)); }
                                    else if must_pair(rtext, qtext, __i1 as int - 1) { assert(candidate is Some); }
                                    else if pair_join(rtext, qtext, __i1 as int - 1) {
                                        // the joined attempt cannot fail unless a record slot was already filled
                                        if !some_slot(rm1) { assert(rm1[__i1 as int] is None); assert(false); }
                                        assert(some_slot(rm1)); let k = choose|k: int| 0 <= k < rm1.len() && #[trigger] rm1[k] is Some; assert(rmatches@[k] is Some);
                                    } else if pair_split(rtext, qtext, __i1 as int - 1) {
                                        if !some_slot(rm1) { assert(all_none(qm1)); assert(qm1[1] is None); assert(false); }
                                        assert(some_slot(rm1)); let k = choose|k: int| 0 <= k < rm1.len() && #[trigger] rm1[k] is Some; assert(rmatches@[k] is Some);
                                    }
                                    if stop { assert(candidate is Some || some_slot(rmatches@)); }
                                    if !(candidate is Some || some_slot(rmatches@)) {
                                        assert(cand0 is None);
                                        assert forall|k: int| 0 <= k < rm1.len() implies rm1[k] is None by { if rm1[k] is Some { assert(rmatches@[k] is Some); } }
                                    }
                                    // TM-first
                                    if __r2 is Some || __r3 is Some { assert(qmatches@[0] is Some); }
                                    else {
                                        if qm1[0] is Some { assert(qmatches@[0] is Some); }
                                        assert(rmatches@ == rm1);
                                    }
                                }
                            }
                            if stop {
                                break;
                            }
                        }
                        if let Some((rmatch, qmatch)) = candidate {
                            let ghost rm2 = rmatches@; let ghost qm2 = qmatches@;
                            let roffset = rmatch.offset;
                            let qoffset = qmatch.offset;
                            rmatches[roffset] = Some(rmatch);
                            proof { assert(rmatches@[roffset as int] is Some); }
                            qmatches[qoffset] = Some(qmatch);
                            proof {
                                assert(qoffset == qk);
                                assert(qmatches@[qk] is Some);
                                assert(mono_slots(qm2, qmatches@));
                                assert forall|j: int| #[trigger] unfin_at(rmatches@, j) implies unfin_slot(qmatches@, qtext) by {
                                    if j == roffset { assert(!qword.fin); assert(qmatches@[qk] is Some && !qtext.words@[qk].fin); }
                                    else { assert(unfin_at(rm2, j)); lemma_fin_keep(rm2, qm2, qmatches@, qtext); }
                                }
                            }
                        }
                        proof {
                            if need {
                                if qk == 0 {
                                    let j = choose|j: int| #[trigger] must_any(rtext, qtext, j);
                                    assert(some_slot(rmatches@));
                                } else {
                                    let k = choose|k: int| 0 <= k < rm0.len() && #[trigger] rm0[k] is Some;
                                    assert(rmatches@[k] is Some);
                                    assert(qm0[0] is Some);
                                }
                                assert(qmatches@[0] is Some);
                            }
                        }
                    }
                    let ghost rmS = rmatches@; let ghost qmS = qmatches@;
                    let mut __out5 = Vec::new();
                    let __end5 = rmatches.len();
                    for __i5 in 0..__end5
                        invariant __end5 == rmatches@.len(), slots_ok(rmatches@, rtext), text_wf(rtext), rmatches@ == rmS,
                            qtext.words@.len() == 0 ==> (forall|k: int| 0 <= k < rmatches@.len() ==> rmatches@[k] is None),
                            qtext.words@.len() == 0 ==> __out5@.len() == 0,
                            (exists|k: int| 0 <= k < __i5 && #[trigger] rmatches@[k] is Some) ==> __out5@.len() >= 1,
                            __out5@.len() <= __i5,
                            forall|j: int| 0 <= j < __out5@.len() ==> match_for_text(#[trigger] __out5@[j], rtext) && match_ok2(__out5@[j]) && __out5@[j].offset < __i5,
                            forall|a: int, b: int| 0 <= a < b < __out5@.len() ==> (#[trigger] __out5@[a]).offset < (#[trigger] __out5@[b]).offset,
                            forall|j: int| 0 <= j < __out5@.len() ==> rmS[(#[trigger] __out5@[j]).offset as int] == Some(__out5@[j]), // [C13]
                    {
                        match &rmatches[__i5] {
                            Some(__m) => {
                                __out5.push(__m.clone());
                            }
                            None => {}
                        }
                    }
                    rmatches.clear();
                    proof { lemma_collected_ok(__out5@, rtext); }
                    let rmatches2 = __out5;
                    let mut __out6 = Vec::new();
                    let __end6 = qmatches.len();
                    for __i6 in 0..__end6
                        invariant __end6 == qmatches@.len(), slots_ok(qmatches@, qtext), text_wf(qtext), qmatches@ == qmS,
                            forall|j: int| 0 <= j < rmatches2@.len() ==> rmS[(#[trigger] rmatches2@[j]).offset as int] == Some(rmatches2@[j]), // [C13]
                            matches_for_text(rmatches2@, rtext), matches_ok(rmatches2@), qtext.words@.len() == 0 ==> rmatches2@.len() == 0,
                            __out6@.len() <= __i6,
                            forall|j: int| 0 <= j < __out6@.len() ==> match_for_text(#[trigger] __out6@[j], qtext) && match_ok2(__out6@[j]) && __out6@[j].offset < __i6,
                            forall|a: int, b: int| 0 <= a < b < __out6@.len() ==> (#[trigger] __out6@[a]).offset < (#[trigger] __out6@[b]).offset,
                            forall|k: int| 0 <= k < __i6 && #[trigger] qmS[k] is Some ==> exists|b: int| 0 <= b < __out6@.len() && (#[trigger] __out6@[b]).offset == k, // [C13]
                    {
                        match &qmatches[__i6] {
                            Some(__m) => {
                                let ghost o6 = __out6@;
                                __out6.push(__m.clone());
                                proof {
                                    assert forall|k: int| 0 <= k < __i6 + 1 && #[trigger] qmS[k] is Some implies exists|b: int| 0 <= b < __out6@.len() && (#[trigger] __out6@[b]).offset == k by {
                                        if k == __i6 { assert(__out6@[o6.len() as int].offset == k); }
                                        else { let b = choose|b: int| 0 <= b < o6.len() && (#[trigger] o6[b]).offset == k; assert(__out6@[b] == o6[b]); }
                                    }
                                }
                            }
                            None => {}
                        }
                    }
                    qmatches.clear();
                    proof {
                        lemma_collected_ok(__out6@, qtext);
                        // pairs
                        if rmatches2@.len() >= 1 {
                            assert(rmS[rmatches2@[0].offset as int] is Some);
                            let k = choose|k: int| 0 <= k < qmS.len() && #[trigger] qmS[k] is Some;
                            let b = choose|b: int| 0 <= b < __out6@.len() && (#[trigger] __out6@[b]).offset == k;
                        }
                        // TM-first
                        if need { assert(qmS[0] is Some); assert(first_matched(__out6@)); }
                        // TM-fin
                        assert forall|a: int| 0 <= a < rmatches2@.len() && !(#[trigger] rmatches2@[a]).fin implies unfin_match(qtext, __out6@) by {
                            assert(unfin_at(rmS, rmatches2@[a].offset as int));
                            let k = choose|k: int| 0 <= k < qmS.len() && k < qtext.words@.len() && #[trigger] qmS[k] is Some && !qtext.words@[k].fin;
                            let b = choose|b: int| 0 <= b < __out6@.len() && (#[trigger] __out6@[b]).offset == k;
                            assert(!qtext.words@[__out6@[b].offset as int].fin);
                        }
                    }
                    let qmatches2 = __out6;
                    (rmatches2, qmatches2)
                }
            }
        }
    }
}
// @item rust/core/src/matching/text.rs :: fn text_match (lifted)
fn text_match__c1(rtext: &TextRef, qtext: &TextRef, rword: &WordView, qword: &WordView, rmatches: &mut Vec<Option<WordMatch>>, qmatches: &mut Vec<Option<WordMatch>>, candidate: &mut Option<(WordMatch, WordMatch)>, stop: &mut bool, tls: &mut Tls) -> (ret: Option<()>)
    requires old(tls).DAMLEV.wf(), text_wf(rtext), text_wf(qtext), text_small(rtext), text_small(qtext),
        view_of(rword, rtext, rword.offset as int), view_of(qword, qtext, qword.offset as int),
        slots_ok(old(rmatches)@, rtext), slots_ok(old(qmatches)@, qtext), cand_ok(*old(candidate), rtext, qtext),
    ensures final(tls).DAMLEV.wf(), slots_ok(final(rmatches)@, rtext), slots_ok(final(qmatches)@, qtext), cand_ok(*final(candidate), rtext, qtext),
        // TM-some: slots only fill up; a success fills a record slot; a failure changes nothing
        mono_slots(old(rmatches)@, final(rmatches)@), ret is Some ==> some_slot(final(rmatches)@), // [C03 C04 C13]
        ret is None ==> *final(candidate) == *old(candidate) && final(rmatches)@ == old(rmatches)@ && *final(stop) == *old(stop), // [C03 C04 C13]
        // TM-first / TM-fin: query slots only fill up; a success fills the slot of the current query word; unfinished record matches stay covered
        mono_slots(old(qmatches)@, final(qmatches)@), ret is Some ==> final(qmatches)@[qword.offset as int] is Some, ret is None ==> final(qmatches)@ == old(qmatches)@, // [C13]
        fin_inv(old(rmatches)@, old(qmatches)@, qtext) ==> fin_inv(final(rmatches)@, final(qmatches)@, qtext), // [C13]
        cand_fin(*old(candidate), qword) ==> cand_fin(*final(candidate), qword), // [C13]
        // C14: two record words run together in the (first) query word: the joined attempt succeeds when the next record slot is free
        pair_join(rtext, qtext, rword.offset as int) && qword.offset == 0 && old(rmatches)@[rword.offset as int + 1] is None ==> ret is Some, // [C14]
{
    let rnext = rtext.words.get(rword.offset + 1)?.to_view(rtext);
    proof {
        let k = rword.offset as int;
        assert(view_of(&rnext, rtext, k + 1));
        lemma_view_wfs(rword, rtext, k); lemma_view_wfs(&rnext, rtext, k + 1); lemma_view_wfs(qword, qtext, qword.offset as int);
        assert(rtext.words@[k].slice.1 <= rtext.words@[k + 1].slice.0);
    }
    let ghost pj = pair_join(rtext, qtext, rword.offset as int) && qword.offset == 0;
    proof {
        if pj {
            let k = rword.offset as int;
            assert(rword.vchars() == tchars(rtext, k)); assert(rnext.vchars() == tchars(rtext, k + 1)); assert(qword.vchars() == tchars(qtext, 0));
            assert(tchars(qtext, 0).len() == tchars(rtext, k).len() + tchars(rtext, k + 1).len());
        }
    }
    if qword.len() < rword.len() + rword.dist(&rnext) {
        return None;
    }
    if rmatches.get(rword.offset + 1)?.is_some() {
        return None;
    }
    proof {
        if pj {
            // C14: the query word is the two record words without their separator: one deletion away from the joined record word,
            // whatever view `join` makes of the two words
            let k = rword.offset as int;
            let qc = qword.vchars(); let p = (rword.slice.1 - rword.slice.0) as int;
            assert forall|jw: WordView| #![trigger jw.wfs()] #![trigger edit1_case(&jw, qword)] jw.slice == (rword.slice.0, rnext.slice.1) && jw.same_text(rword) && jw.wfs() && jw.small() implies edit1_case(&jw, qword) && jac_passes(&jw, qword) by {
                let rc = jw.vchars();
                assert(rc.len() == qc.len() + 1);
                assert(is_ins(qc, rc, p)) by {
                    assert forall|t: int| 0 <= t < p implies qc[t] == rc[t] by { assert(qc[t] == tchars(rtext, k)[t]); }
                    assert forall|t: int| p <= t < qc.len() implies qc[t] == rc[t + 1] by { assert(qc[t] == tchars(rtext, k + 1)[t - p]); }
                }
                lemma_three_ins(qc, rc, p);
                lemma_c04_word(&jw, qword, p);
            }
        }
    }
    let (rmatch, qmatch) = word_match(&rword.join(&rnext), &qword, tls)?;
    proof {
        lemma_typos_ceil(rmatch.typos);
        // C14: the match reaches into the second record word (the stem of the run-together query word is its length)
        if pj { assert(rmatch.subslice.1 + 1 >= qmatch.subslice.1 && qmatch.subslice.1 >= qword.stem); }
    }
    let (rmatch1, rmatch2) = rmatch.split(&rword, &rnext)?;
    proof {
        let k = rword.offset as int;
        lemma_wf_for_slot(rmatch1, rword, rtext, k);
        lemma_wf_for_slot(rmatch2, &rnext, rtext, k + 1);
        lemma_wf_for_slot(qmatch, qword, qtext, qword.offset as int);
    }
    let ghost rmA = rmatches@; let ghost qmA = qmatches@;
    let roffset1 = rmatch1.offset;
    let roffset2 = rmatch2.offset;
    let qoffset = qmatch.offset;
    rmatches[roffset1] = Some(rmatch1);
    rmatches[roffset2] = Some(rmatch2);
    qmatches[qoffset] = Some(qmatch);
    proof {
        assert(mono_slots(qmA, qmatches@));
        if fin_inv(rmA, qmA, qtext) {
            assert forall|j: int| #[trigger] unfin_at(rmatches@, j) implies unfin_slot(qmatches@, qtext) by {
                if j == roffset1 || j == roffset2 {
                    // an unfinished part means the query word is unfinished; its slot has just been filled
                    assert(!qword.fin);
                    assert(qmatches@[qoffset as int] is Some && !qtext.words@[qoffset as int].fin);
                } else { assert(unfin_at(rmA, j)); lemma_fin_keep(rmA, qmA, qmatches@, qtext); }
            }
        }
    }
    candidate.take();
    *stop = true;
    Some(())
}
// @item rust/core/src/matching/text.rs :: fn text_match (lifted)
fn text_match__c2(rtext: &TextRef, qtext: &TextRef, rword: &WordView, qword: &WordView, rmatches: &mut Vec<Option<WordMatch>>, qmatches: &mut Vec<Option<WordMatch>>, candidate: &mut Option<(WordMatch, WordMatch)>, stop: &mut bool, tls: &mut Tls) -> (ret: Option<()>)
    requires old(tls).DAMLEV.wf(), text_wf(rtext), text_wf(qtext), text_small(rtext), text_small(qtext),
        view_of(rword, rtext, rword.offset as int), view_of(qword, qtext, qword.offset as int),
        slots_ok(old(rmatches)@, rtext), slots_ok(old(qmatches)@, qtext), cand_ok(*old(candidate), rtext, qtext),
    ensures final(tls).DAMLEV.wf(), slots_ok(final(rmatches)@, rtext), slots_ok(final(qmatches)@, qtext), cand_ok(*final(candidate), rtext, qtext),
        mono_slots(old(rmatches)@, final(rmatches)@), ret is Some ==> some_slot(final(rmatches)@), // [C03 C04 C13]
        ret is None ==> *final(candidate) == *old(candidate) && final(rmatches)@ == old(rmatches)@ && *final(stop) == *old(stop), // [C03 C04 C13]
        // TM-first / TM-fin: query slots only fill up; a success fills the slot of the current query word; unfinished record matches stay covered
        mono_slots(old(qmatches)@, final(qmatches)@), ret is Some ==> final(qmatches)@[qword.offset as int] is Some, ret is None ==> final(qmatches)@ == old(qmatches)@, // [C13]
        fin_inv(old(rmatches)@, old(qmatches)@, qtext) ==> fin_inv(final(rmatches)@, final(qmatches)@, qtext), // [C13]
        cand_fin(*old(candidate), qword) ==> cand_fin(*final(candidate), qword), // [C13]
        // C14: a record word spelled as the first two query words: the split attempt succeeds when the second query slot is free
        pair_split(rtext, qtext, rword.offset as int) && qword.offset == 0 && old(qmatches)@[1] is None ==> ret is Some, // [C14]
{
    let qnext = qtext.words.get(qword.offset + 1)?.to_view(qtext);
    proof {
        let k = qword.offset as int;
        assert(view_of(&qnext, qtext, k + 1));
        lemma_view_wfs(qword, qtext, k); lemma_view_wfs(&qnext, qtext, k + 1); lemma_view_wfs(rword, rtext, rword.offset as int);
        assert(qtext.words@[k].slice.1 <= qtext.words@[k + 1].slice.0);
    }
    let ghost ps = pair_split(rtext, qtext, rword.offset as int) && qword.offset == 0;
    proof {
        if ps {
            let j = rword.offset as int;
            assert(rword.vchars() == tchars(rtext, j)); assert(qword.vchars() == tchars(qtext, 0)); assert(qnext.vchars() == tchars(qtext, 1));
            assert(tchars(rtext, j).len() == tchars(qtext, 0).len() + tchars(qtext, 1).len());
        }
    }
    if rword.len() < qword.len() + qword.dist(&qnext) {
        return None;
    }
    if qmatches.get(qword.offset + 1)?.is_some() {
        return None;
    }
    proof {
        if ps {
            // C14: the two query words with their separator are one insertion away from the record word, whatever view `join` makes of them
            let j = rword.offset as int;
            let rc = rword.vchars(); let p = (qword.slice.1 - qword.slice.0) as int;
            assert forall|jw: WordView| #![trigger jw.wfs()] #![trigger edit1_case(rword, &jw)] jw.slice == (qword.slice.0, qnext.slice.1) && jw.same_text(qword) && jw.wfs() && jw.small() && !jw.fin implies edit1_case(rword, &jw) && jac_passes(rword, &jw) by {
                let qc = jw.vchars();
                assert(qc.len() == rc.len() + 1);
                assert(is_ins(rc, qc, p)) by {
                    assert forall|t: int| 0 <= t < p implies rc[t] == qc[t] by { assert(rc[t] == tchars(qtext, 0)[t]); }
                    assert forall|t: int| p <= t < rc.len() implies rc[t] == qc[t + 1] by { assert(rc[t] == tchars(qtext, 1)[t - p]); }
                }
                lemma_c04_word(rword, &jw, p);
            }
        }
    }
    let (rmatch, qmatch) = word_match(&rword, &qword.join(&qnext), tls)?;
    proof { lemma_typos_ceil(qmatch.typos); }
    let (qmatch1, qmatch2) = qmatch.split(&qword, &qnext)?;
    proof {
        let k = qword.offset as int;
        lemma_wf_for_slot(qmatch1, qword, qtext, k);
        lemma_wf_for_slot(qmatch2, &qnext, qtext, k + 1);
        lemma_wf_for_slot(rmatch, rword, rtext, rword.offset as int);
    }
    let ghost rmA = rmatches@; let ghost qmA = qmatches@;
    let roffset = rmatch.offset;
    let qoffset1 = qmatch1.offset;
    let qoffset2 = qmatch2.offset;
    rmatches[roffset] = Some(rmatch);
    qmatches[qoffset1] = Some(qmatch1);
    qmatches[qoffset2] = Some(qmatch2);
    proof {
        assert(mono_slots(qmA, qmatches@));
        if fin_inv(rmA, qmA, qtext) {
            assert forall|j: int| #[trigger] unfin_at(rmatches@, j) implies unfin_slot(qmatches@, qtext) by {
                if j == roffset {
                    // the joined query word is unfinished exactly when its second word is; that word's slot has just been filled
                    assert(!qnext.fin);
                    assert(qmatches@[qoffset2 as int] is Some && !qtext.words@[qoffset2 as int].fin);
                } else { assert(unfin_at(rmA, j)); lemma_fin_keep(rmA, qmA, qmatches@, qtext); }
            }
        }
    }
    candidate.take();
    *stop = true;
    Some(())
}
// @item rust/core/src/matching/text.rs :: fn text_match (lifted)
fn text_match__c3(rtext: &TextRef, qtext: &TextRef, rword: &WordView, qword: &WordView, rmatches: &mut Vec<Option<WordMatch>>, qmatches: &mut Vec<Option<WordMatch>>, candidate: &mut Option<(WordMatch, WordMatch)>, stop: &mut bool, tls: &mut Tls) -> (ret: Option<()>)
    requires old(tls).DAMLEV.wf(), text_wf(rtext), text_wf(qtext), text_small(rtext), text_small(qtext),
        view_of(rword, rtext, rword.offset as int), view_of(qword, qtext, qword.offset as int),
        slots_ok(old(rmatches)@, rtext), slots_ok(old(qmatches)@, qtext), cand_ok(*old(candidate), rtext, qtext),
    ensures final(tls).DAMLEV.wf(), slots_ok(final(rmatches)@, rtext), slots_ok(final(qmatches)@, qtext), cand_ok(*final(candidate), rtext, qtext),
        final(rmatches)@ == old(rmatches)@, final(qmatches)@ == old(qmatches)@,
        // TM-some: a candidate is never dropped here, and a pair that must match leaves one
        *old(candidate) is Some ==> *final(candidate) is Some, // [C03 C04 C13]
        must_match(rword, qword) ==> *final(candidate) is Some, // [C03 C04 C13]
        *final(stop) && !*old(stop) ==> *final(candidate) is Some, // [C03 C04 C13]
        cand_fin(*old(candidate), qword) ==> cand_fin(*final(candidate), qword), // [C13]
        // C08: WHAT the attempt does with a plain word match p2 of the two words (function words do not stop the scan)
        ret is Some ==> exists|p2: (WordMatch, WordMatch)| wm_shape(Some(p2), rword, qword) && #[trigger] c3_step(*old(candidate), *old(stop), p2, *final(candidate), *final(stop)), // [C08]
        ret is None ==> *final(candidate) == *old(candidate) && *final(stop) == *old(stop), // [C08]
{
    proof { lemma_view_wfs(rword, rtext, rword.offset as int); lemma_view_wfs(qword, qtext, qword.offset as int); }
    let (rmatch2, qmatch2) = word_match(&rword, &qword, tls)?;
    let ghost p2 = (rmatch2, qmatch2); let ghost c0 = *candidate; let ghost s0 = *stop;
    proof {
        lemma_typos_ceil(rmatch2.typos);
        lemma_wf_for_slot(rmatch2, rword, rtext, rword.offset as int);
        lemma_wf_for_slot(qmatch2, qword, qtext, qword.offset as int);
    }
    let score2 = rmatch2.match_len() as isize - 2 * (f64_ceil_as_isize(rmatch2.typos));
    let score1 = match candidate.as_ref() {
        Some((m, _)) => m.match_len() as isize - 2 * (f64_ceil_as_isize(m.typos)),
        None => 0,
    };
    let replace = match (candidate.as_ref(), score1.cmp(&score2)) {
        (None, _) => true,
        (Some(_), Less) => true,
        (Some(_), Equal) if !rmatch2.func => true,
        _ => false,
    };
    if replace {
        *stop = !rmatch2.func;
        *candidate = Some((rmatch2, qmatch2));
    }
    proof { assert(c3_step(c0, s0, p2, *candidate, *stop)); }
    Some(())
}
