// ======================================================================= U10: text matching (C06 C09 C13 C14 C01 C10)
//@include ../common/tm_contract.rs
// R2: the thread-locals of matching/text.rs become fields of a second parameter (they are independent of word.rs's)
pub struct TlsText { pub RMATCHES: Vec<Option<WordMatch>>, pub QMATCHES: Vec<Option<WordMatch>> }
// `v` is the view of word k of text t
pub open spec fn view_of(v: &WordView, t: &TextRef, k: int) -> bool {
    0 <= k < t.words@.len() && v.offset == k && v.slice == t.words@[k].slice && v.stem == t.words@[k].stem && v.pos == t.words@[k].pos && v.fin == t.words@[k].fin
    && v.source@ == t.source@ && v.chars@ == t.chars@ && v.classes@ == t.classes@
}
proof fn lemma_view_wfs(v: &WordView, t: &TextRef, k: int)
    requires text_wf(t), view_of(v, t, k)
    ensures v.wfs()
{ assert(t.words@[k].slice.1 <= t.chars@.len()); }
// @item rust/core/src/tokenization/word_view.rs :: impl WordView::{new}
impl<'a> WordView<'a> {
    pub fn new(word: &'a WordShape, text: &'a TextRef) -> (ret: Self)
        ensures ret.offset == word.offset, ret.slice == word.slice, ret.stem == word.stem, ret.pos == word.pos, ret.fin == word.fin,
            ret.source@ == text.source@, ret.chars@ == text.chars@, ret.classes@ == text.classes@,
    {
        Self { offset: word.offset, slice: word.slice, stem: word.stem, pos: word.pos, fin: word.fin, source: &text.source, chars: &text.chars, classes: &text.classes }
    }
}
// @item rust/core/src/tokenization/word_shape.rs :: impl WordShape::{to_view}
impl WordShape {
    pub fn to_view<'a>(&'a self, text: &'a TextRef) -> (ret: WordView<'a>)
        ensures ret.offset == self.offset, ret.slice == self.slice, ret.stem == self.stem, ret.pos == self.pos, ret.fin == self.fin,
            ret.source@ == text.source@, ret.chars@ == text.chars@, ret.classes@ == text.classes@,
    {
        WordView::new(self, text)
    }
}
//@include ../common/gates_min2.rs
// a match as stored in slot k of the scratch vector: it is for word k of the text and well formed
pub open spec fn match_ok2(m: WordMatch) -> bool { 0 <= ceil_of(m.typos) <= 0x20_0000 }
pub open spec fn slot_ok(m: WordMatch, t: &TextRef, k: int) -> bool { match_for_text(m, t) && m.offset == k && match_ok2(m) }
pub open spec fn slots_ok(ms: Seq<Option<WordMatch>>, t: &TextRef) -> bool {
    ms.len() == t.words@.len() && forall|k: int| 0 <= k < ms.len() ==> (#[trigger] ms[k] matches Some(m) ==> slot_ok(m, t, k))
}
pub open spec fn cand_ok(c: Option<(WordMatch, WordMatch)>, rtext: &TextRef, qtext: &TextRef) -> bool {
    c matches Some(p) ==> slot_ok(p.0, rtext, p.0.offset as int) && slot_ok(p.1, qtext, p.1.offset as int)
}
proof fn lemma_wf_for_slot(m: WordMatch, v: &WordView, t: &TextRef, k: int)
    requires m.wf_for(v), view_of(v, t, k), match_ok2(m)
    ensures slot_ok(m, t, k)
{ }
proof fn lemma_typos_ceil(t: f64)
    requires typos_ok(t)
    ensures 0 <= ceil_of(t) <= 0x10_0000
{ gax::ax_ceil_half(t); }
proof fn lemma_collected_ok(out: Seq<WordMatch>, t: &TextRef)
    requires text_wf(t), out.len() <= t.words@.len(),
        forall|j: int| 0 <= j < out.len() ==> match_for_text(#[trigger] out[j], t) && match_ok2(out[j]),
        forall|a: int, b: int| 0 <= a < b < out.len() ==> (#[trigger] out[a]).offset < (#[trigger] out[b]).offset,
    ensures matches_for_text(out, t), matches_ok(out)
{
    assert forall|k: int| 0 <= k < out.len() implies match_ok(#[trigger] out[k]) by {
        let m = out[k];
        assert(match_for_text(m, t) && match_ok2(m));
        let w = t.words@[m.offset as int];
        assert(w.slice.1 <= t.chars@.len());
    }
}
// @item rust/core/src/matching/text.rs :: fn text_match
pub fn text_match(rtext: &TextRef, qtext: &TextRef, tls: &mut Tls, tlsm: &mut TlsText) -> (ret: (Vec<WordMatch>, Vec<WordMatch>))
    // C06/C10: no requirement on the scratch vectors (arbitrary leftovers); they are empty again afterwards
    requires old(tls).DAMLEV.wf(), text_wf(rtext), text_wf(qtext), text_small(rtext), text_small(qtext),
    ensures final(tls).DAMLEV.wf(),
        tm_post(rtext, qtext, ret), // [C09 C06 C01 C08 C02]
        final(tlsm).RMATCHES@.len() == 0 && final(tlsm).QMATCHES@.len() == 0, // [C06 C10]
        qtext.words@.len() == 0 ==> ret.0@.len() == 0 && ret.1@.len() == 0, // [C09 C12]
{
    {
        let rcell = &mut tlsm.RMATCHES;
        {
            {
                let qcell = &mut tlsm.QMATCHES;
                {
                    let rmatches = &mut *rcell;
                    let qmatches = &mut *qcell;
                    rmatches.clear();
                    qmatches.clear();
                    rmatches.resize(rtext.words.len(), None);
                    qmatches.resize(qtext.words.len(), None);
                    let __end0 = qtext.words.len();
                    let mut __i0 = 0;
                    while __i0 < __end0
                    invariant text_wf(rtext), text_wf(qtext), text_small(rtext), text_small(qtext), tls.DAMLEV.wf(),
                        slots_ok(rmatches@, rtext), slots_ok(qmatches@, qtext), __end0 == qtext.words@.len(), __i0 <= __end0,
                        qtext.words@.len() == 0 ==> (forall|k: int| 0 <= k < rmatches@.len() ==> rmatches@[k] is None),
                    decreases __end0 - __i0,
                    {
                        let qword = &qtext.words[__i0];
                        __i0 += 1;
                        if qmatches[qword.offset].is_some() {
                            continue;
                        }
                        let qword = qword.to_view(qtext);
                        let ghost qk = __i0 as int - 1;
                        proof { assert(view_of(&qword, qtext, qk)); }
                        let mut candidate: Option<(WordMatch, WordMatch)> = None;
                        let __end1 = rtext.words.len();
                        let mut __i1 = 0;
                        while __i1 < __end1
                            invariant text_wf(rtext), text_wf(qtext), text_small(rtext), text_small(qtext), tls.DAMLEV.wf(),
                                slots_ok(rmatches@, rtext), slots_ok(qmatches@, qtext), __end0 == qtext.words@.len(), __i0 <= __end0, 1 <= __i0,
                                __end1 == rtext.words@.len(), __i1 <= __end1, qk == __i0 - 1, view_of(&qword, qtext, qk), cand_ok(candidate, rtext, qtext),
                            decreases __end1 - __i1,
                        {
                            let rword = &rtext.words[__i1];
                            __i1 += 1;
                            if rmatches[rword.offset].is_some() {
                                continue;
                            }
                            let rword = rword.to_view(rtext);
                            proof { assert(view_of(&rword, rtext, __i1 as int - 1)); }
                            let mut stop = false;
                            let __r2 = text_match__c1(rtext, qtext, &rword, &qword, rmatches, qmatches, &mut candidate, &mut stop, tls);
                            let __r3 = if __r2.is_none() { text_match__c2(rtext, qtext, &rword, &qword, rmatches, qmatches, &mut candidate, &mut stop, tls) } else { __r2 };
                            let __r4 = if __r3.is_none() { text_match__c3(rtext, qtext, &rword, &qword, rmatches, qmatches, &mut candidate, &mut stop, tls) } else { __r3 };
                            if stop {
                                break;
                            }
                        }
                        if let Some((rmatch, qmatch)) = candidate {
                            let roffset = rmatch.offset;
                            let qoffset = qmatch.offset;
                            rmatches[roffset] = Some(rmatch);
                            qmatches[qoffset] = Some(qmatch);
                        }
                    }
                    let mut __out5 = Vec::new();
                    let __end5 = rmatches.len();
                    for __i5 in 0..__end5
                        invariant __end5 == rmatches@.len(), slots_ok(rmatches@, rtext), text_wf(rtext),
                            qtext.words@.len() == 0 ==> (forall|k: int| 0 <= k < rmatches@.len() ==> rmatches@[k] is None),
                            qtext.words@.len() == 0 ==> __out5@.len() == 0,
                            __out5@.len() <= __i5,
                            forall|j: int| 0 <= j < __out5@.len() ==> match_for_text(#[trigger] __out5@[j], rtext) && match_ok2(__out5@[j]) && __out5@[j].offset < __i5,
                            forall|a: int, b: int| 0 <= a < b < __out5@.len() ==> (#[trigger] __out5@[a]).offset < (#[trigger] __out5@[b]).offset,
                    {
                        match &rmatches[__i5] {
                            Some(__m) => {
                                __out5.push(__m.clone());
                            }
                            None => {}
                        }
                    }
                    rmatches.clear();
                    proof { lemma_collected_ok(__out5@, rtext); }
                    let rmatches2 = __out5;
                    let mut __out6 = Vec::new();
                    let __end6 = qmatches.len();
                    for __i6 in 0..__end6
                        invariant __end6 == qmatches@.len(), slots_ok(qmatches@, qtext), text_wf(qtext),
                            matches_for_text(rmatches2@, rtext), matches_ok(rmatches2@), qtext.words@.len() == 0 ==> rmatches2@.len() == 0,
                            __out6@.len() <= __i6,
                            forall|j: int| 0 <= j < __out6@.len() ==> match_for_text(#[trigger] __out6@[j], qtext) && match_ok2(__out6@[j]) && __out6@[j].offset < __i6,
                            forall|a: int, b: int| 0 <= a < b < __out6@.len() ==> (#[trigger] __out6@[a]).offset < (#[trigger] __out6@[b]).offset,
                    {
                        match &qmatches[__i6] {
                            Some(__m) => {
                                __out6.push(__m.clone());
                            }
                            None => {}
                        }
                    }
                    qmatches.clear();
                    proof { lemma_collected_ok(__out6@, qtext); }
                    let qmatches2 = __out6;
                    (rmatches2, qmatches2)
                }
            }
        }
    }
}
// @item rust/core/src/matching/text.rs :: fn text_match (lifted)
fn text_match__c1(rtext: &TextRef, qtext: &TextRef, rword: &WordView, qword: &WordView, rmatches: &mut Vec<Option<WordMatch>>, qmatches: &mut Vec<Option<WordMatch>>, candidate: &mut Option<(WordMatch, WordMatch)>, stop: &mut bool, tls: &mut Tls) -> (ret: Option<()>)
    requires old(tls).DAMLEV.wf(), text_wf(rtext), text_wf(qtext), text_small(rtext), text_small(qtext),
        view_of(rword, rtext, rword.offset as int), view_of(qword, qtext, qword.offset as int),
        slots_ok(old(rmatches)@, rtext), slots_ok(old(qmatches)@, qtext), cand_ok(*old(candidate), rtext, qtext),
    ensures final(tls).DAMLEV.wf(), slots_ok(final(rmatches)@, rtext), slots_ok(final(qmatches)@, qtext), cand_ok(*final(candidate), rtext, qtext),
{
    let rnext = rtext.words.get(rword.offset + 1)?.to_view(rtext);
    proof {
        let k = rword.offset as int;
        assert(view_of(&rnext, rtext, k + 1));
        lemma_view_wfs(rword, rtext, k); lemma_view_wfs(&rnext, rtext, k + 1); lemma_view_wfs(qword, qtext, qword.offset as int);
        assert(rtext.words@[k].slice.1 <= rtext.words@[k + 1].slice.0);
    }
    if qword.len() < rword.len() + rword.dist(&rnext) {
        return None;
    }
    if rmatches.get(rword.offset + 1)?.is_some() {
        return None;
    }
    let (rmatch, qmatch) = word_match(&rword.join(&rnext), &qword, tls)?;
    proof { lemma_typos_ceil(rmatch.typos); }
    let (rmatch1, rmatch2) = rmatch.split(&rword, &rnext)?;
    proof {
        let k = rword.offset as int;
        lemma_wf_for_slot(rmatch1, rword, rtext, k);
        lemma_wf_for_slot(rmatch2, &rnext, rtext, k + 1);
        lemma_wf_for_slot(qmatch, qword, qtext, qword.offset as int);
    }
    let roffset1 = rmatch1.offset;
    let roffset2 = rmatch2.offset;
    let qoffset = qmatch.offset;
    rmatches[roffset1] = Some(rmatch1);
    rmatches[roffset2] = Some(rmatch2);
    qmatches[qoffset] = Some(qmatch);
    candidate.take();
    *stop = true;
    Some(())
}
// @item rust/core/src/matching/text.rs :: fn text_match (lifted)
fn text_match__c2(rtext: &TextRef, qtext: &TextRef, rword: &WordView, qword: &WordView, rmatches: &mut Vec<Option<WordMatch>>, qmatches: &mut Vec<Option<WordMatch>>, candidate: &mut Option<(WordMatch, WordMatch)>, stop: &mut bool, tls: &mut Tls) -> (ret: Option<()>)
    requires old(tls).DAMLEV.wf(), text_wf(rtext), text_wf(qtext), text_small(rtext), text_small(qtext),
        view_of(rword, rtext, rword.offset as int), view_of(qword, qtext, qword.offset as int),
        slots_ok(old(rmatches)@, rtext), slots_ok(old(qmatches)@, qtext), cand_ok(*old(candidate), rtext, qtext),
    ensures final(tls).DAMLEV.wf(), slots_ok(final(rmatches)@, rtext), slots_ok(final(qmatches)@, qtext), cand_ok(*final(candidate), rtext, qtext),
{
    let qnext = qtext.words.get(qword.offset + 1)?.to_view(qtext);
    proof {
        let k = qword.offset as int;
        assert(view_of(&qnext, qtext, k + 1));
        lemma_view_wfs(qword, qtext, k); lemma_view_wfs(&qnext, qtext, k + 1); lemma_view_wfs(rword, rtext, rword.offset as int);
        assert(qtext.words@[k].slice.1 <= qtext.words@[k + 1].slice.0);
    }
    if rword.len() < qword.len() + qword.dist(&qnext) {
        return None;
    }
    if qmatches.get(qword.offset + 1)?.is_some() {
        return None;
    }
    let (rmatch, qmatch) = word_match(&rword, &qword.join(&qnext), tls)?;
    proof { lemma_typos_ceil(qmatch.typos); }
    let (qmatch1, qmatch2) = qmatch.split(&qword, &qnext)?;
    proof {
        let k = qword.offset as int;
        lemma_wf_for_slot(qmatch1, qword, qtext, k);
        lemma_wf_for_slot(qmatch2, &qnext, qtext, k + 1);
        lemma_wf_for_slot(rmatch, rword, rtext, rword.offset as int);
    }
    let roffset = rmatch.offset;
    let qoffset1 = qmatch1.offset;
    let qoffset2 = qmatch2.offset;
    rmatches[roffset] = Some(rmatch);
    qmatches[qoffset1] = Some(qmatch1);
    qmatches[qoffset2] = Some(qmatch2);
    candidate.take();
    *stop = true;
    Some(())
}
// @item rust/core/src/matching/text.rs :: fn text_match (lifted)
fn text_match__c3(rtext: &TextRef, qtext: &TextRef, rword: &WordView, qword: &WordView, rmatches: &mut Vec<Option<WordMatch>>, qmatches: &mut Vec<Option<WordMatch>>, candidate: &mut Option<(WordMatch, WordMatch)>, stop: &mut bool, tls: &mut Tls) -> (ret: Option<()>)
    requires old(tls).DAMLEV.wf(), text_wf(rtext), text_wf(qtext), text_small(rtext), text_small(qtext),
        view_of(rword, rtext, rword.offset as int), view_of(qword, qtext, qword.offset as int),
        slots_ok(old(rmatches)@, rtext), slots_ok(old(qmatches)@, qtext), cand_ok(*old(candidate), rtext, qtext),
    ensures final(tls).DAMLEV.wf(), slots_ok(final(rmatches)@, rtext), slots_ok(final(qmatches)@, qtext), cand_ok(*final(candidate), rtext, qtext),
        final(rmatches)@ == old(rmatches)@, final(qmatches)@ == old(qmatches)@,
{
    proof { lemma_view_wfs(rword, rtext, rword.offset as int); lemma_view_wfs(qword, qtext, qword.offset as int); }
    let (rmatch2, qmatch2) = word_match(&rword, &qword, tls)?;
    proof {
        lemma_typos_ceil(rmatch2.typos);
        lemma_wf_for_slot(rmatch2, rword, rtext, rword.offset as int);
        lemma_wf_for_slot(qmatch2, qword, qtext, qword.offset as int);
    }
    let score2 = rmatch2.match_len() as isize - 2 * (f64_ceil_as_isize(rmatch2.typos));
    let score1 = match candidate.as_ref() {
        Some((m, _)) => m.match_len() as isize - 2 * (f64_ceil_as_isize(m.typos)),
        None => 0,
    };
    let replace = match (candidate.as_ref(), score1.cmp(&score2)) {
        (None, _) => true,
        (Some(_), Less) => true,
        (Some(_), Equal) if !rmatch2.func => true,
        _ => false,
    };
    if replace {
        *stop = !rmatch2.func;
        *candidate = Some((rmatch2, qmatch2));
    }
    Some(())
}
