// @item rust/core/src/matching/damlev/matrix.rs :: struct DistMatrix
pub struct DistMatrix {
    pub size: usize,
    pub raw: Vec<f64>,
}
// @item rust/core/src/matching/damlev/matrix.rs :: impl DistMatrix
impl DistMatrix {
    pub fn new(size: usize) -> (ret: Self)
    {
        let raw = vec![0.0; size * size];
        let mut matrix = Self { size, raw };
        matrix.init();
        matrix
    }
    pub fn prepare(&mut self, coefs1: &[f64], coefs2: &[f64])
    {
        let size = vmax(coefs1.len() + 2, coefs2.len() + 2);
        if size > self.size {
            let size = size + size / 2;
            self.raw.resize(size * size, 0.0);
            self.size = size;
            self.init();
        }
        unsafe {
            let __end0 = coefs1.len();
            for i1 in 0..__end0
            {
                let coef = coefs1[i1];
                let prev = self.get_unchecked(i1 + 1, 1);
                self.set_unchecked(i1 + 2, 1, prev + coef);
            }
            let __end1 = coefs2.len();
            for i2 in 0..__end1
            {
                let coef = coefs2[i2];
                let prev = self.get_unchecked(1, i2 + 1);
                self.set_unchecked(1, i2 + 2, prev + coef);
            }
        }
    }
    pub fn init(&mut self)
    {
        if self.size == 0 {
            return;
        }
        unsafe {
            let __end0 = self.size;
            for i in 0..__end0
            {
                self.set_unchecked(i, 0, usize_as_f64(self.size));
                self.set_unchecked(0, i, usize_as_f64(self.size));
            }
            let __end1 = self.size;
            for i in 1..__end1
            {
                self.set_unchecked(i, 1, usize_as_f64(i - 1));
                self.set_unchecked(1, i, usize_as_f64(i - 1));
            }
        }
    }
    pub unsafe fn get_unchecked(&self, i: usize, j: usize) -> (ret: f64)
    {
        *self.raw.get_unchecked(i * self.size + j)
    }
    pub unsafe fn set_unchecked(&mut self, i: usize, j: usize, val: f64)
    {
        *self.raw.get_unchecked_mut(i * self.size + j) = val;
    }
    pub fn get(&self, i: usize, j: usize) -> (ret: f64)
    {
        self.raw[i * self.size + j]
    }
}
// @item rust/core/src/lang/char_class.rs :: enum CharClass
#[derive(Clone, Copy, PartialEq, Eq, Structural)]
pub enum CharClass {
    Any,
    Control,
    Whitespace,
    Punctuation,
    NotAlpha,
    NotAlphaNum,
    Consonant,
    Vowel,
}
// @item rust/core/src/lang/pos.rs :: enum PartOfSpeech
#[derive(Clone, Copy, PartialEq, Eq, Structural)]
pub enum PartOfSpeech {
    Noun,
    Pronoun,
    Verb,
    Adjective,
    Adverb,
    Preposition,
    Conjunction,
    Particle,
    Intejection,
    Article,
}
// @item rust/core/src/tokenization/word_view.rs :: struct WordView
pub struct WordView<'a> {
    pub offset: usize,
    pub slice: (usize, usize),
    pub stem: usize,
    pub pos: Option<PartOfSpeech>,
    pub fin: bool,
    pub source: &'a [char],
    pub chars: &'a [char],
    pub classes: &'a [CharClass],
}
// @item rust/core/src/tokenization/word_view.rs :: impl Word for WordView
impl<'a> WordView<'a> {
    fn offset(&self) -> (ret: usize)
    {
        self.offset
    }
    fn slice(&self) -> (ret: (usize, usize))
    {
        self.slice
    }
    fn stem(&self) -> (ret: usize)
    {
        self.stem
    }
    fn pos(&self) -> (ret: Option<PartOfSpeech>)
    {
        self.pos
    }
    fn fin(&self) -> (ret: bool)
    {
        self.fin
    }
}
// @item rust/core/src/tokenization/word_view.rs :: impl WordView::{source,chars,classes}
impl<'a> WordView<'a> {
    pub fn source(&'a self) -> (ret: &'a [char])
    {
        &self.source[self.slice.0..self.slice.1]
    }
    pub fn chars(&'a self) -> (ret: &'a [char])
    {
        &self.chars[self.slice.0..self.slice.1]
    }
    pub fn classes(&'a self) -> (ret: &'a [CharClass])
    {
        &self.classes[self.slice.0..self.slice.1]
    }
}
// @item rust/core/src/tokenization/word.rs :: defaults Word as WordView<'a>::{len,is_empty}
impl<'a> WordView<'a> {
    fn len(&self) -> (ret: usize)
    {
        let (left, right) = self.slice();
        right - left
    }
    fn is_empty(&self) -> (ret: bool)
    {
        let (left, right) = self.slice();
        right == left
    }
}
// @item rust/core/src/matching/damlev/mod.rs :: const DEFAULT_CAPACITY
pub const DEFAULT_CAPACITY: usize = 20;
// @item rust/core/src/matching/damlev/mod.rs :: const COST_TRANS
pub const COST_TRANS: f64 = 0.5;
// @item rust/core/src/matching/damlev/mod.rs :: const COST_DOUBLE
pub const COST_DOUBLE: f64 = 0.5;
// @item rust/core/src/matching/damlev/mod.rs :: const COST_VOWEL
pub const COST_VOWEL: f64 = 0.5;
// @item rust/core/src/matching/damlev/mod.rs :: const COST_NOTALPHA
pub const COST_NOTALPHA: f64 = 0.5;
// @item rust/core/src/matching/damlev/mod.rs :: const COST_CONSONANT
pub const COST_CONSONANT: f64 = 1.0;
// @item rust/core/src/matching/damlev/mod.rs :: const COST_DEFAULT
pub const COST_DEFAULT: f64 = 1.0;
// @item rust/core/src/matching/damlev/mod.rs :: struct DamerauLevenshtein
pub struct DamerauLevenshtein {
    pub dists: DistMatrix,
    pub last_i1: HashMap<char, usize>,
    pub costs1: Vec<f64>,
    pub costs2: Vec<f64>,
}
// @item rust/core/src/matching/damlev/mod.rs :: impl DamerauLevenshtein
impl DamerauLevenshtein {
    pub fn new() -> (ret: Self)
    {
        let dists = DistMatrix::new(DEFAULT_CAPACITY + 2);
        let last_i1 = HashMap::with_capacity(DEFAULT_CAPACITY);
        let costs1 = Vec::with_capacity(DEFAULT_CAPACITY);
        let costs2 = Vec::with_capacity(DEFAULT_CAPACITY);
        Self { dists, last_i1, costs1, costs2 }
    }
    fn get_cost(class: &CharClass) -> (ret: f64)
    {
        match class {
            CharClass::Consonant => COST_CONSONANT,
            CharClass::Vowel => COST_VOWEL,
            CharClass::NotAlpha => COST_NOTALPHA,
            _ => COST_DEFAULT,
        }
    }
    pub fn distance(&mut self, word1: &WordView, word2: &WordView) -> (ret: f64)
    {
        let chars1 = word1.chars();
        let chars2 = word2.chars();
        let costs1 = &mut self.costs1;
        let costs2 = &mut self.costs2;
        costs1.clear();
        costs2.clear();
        let __src0 = word1.classes();
        let __end0 = __src0.len();
        for __i0 in 0..__end0
        {
            costs1.push(Self::get_cost(&__src0[__i0]));
        }
        let __src1 = word2.classes();
        let __end1 = __src1.len();
        for __i1 in 0..__end1
        {
            costs2.push(Self::get_cost(&__src1[__i1]));
        }
        let dists = &mut self.dists;
        dists.prepare(&costs1, &costs2);
        let last_i1 = &mut self.last_i1;
        last_i1.clear();
        let __end2 = chars1.len();
        for i1 in 0..__end2
        {
            let ch1 = chars1[i1];
            let mut l2 = 0;
            let cost1 = unsafe { *costs1.get_unchecked(i1) };
            let double1 = i1 > 0 && ch1 == unsafe { *chars1.get_unchecked(i1 - 1) };
            let cost_double1 = if double1 { COST_DOUBLE } else { COST_DEFAULT };
            let cost_del = fmin(cost1, cost_double1);
            let __end3 = chars2.len();
            for i2 in 0..__end3
            {
                let ch2 = chars2[i2];
                let l1 = *last_i1.get(&ch2).unwrap_or(&0);
                let cost2 = unsafe { *costs2.get_unchecked(i2) };
                let double2 = i2 > 0 && ch2 == unsafe { *chars2.get_unchecked(i2 - 1) };
                let cost_double2 = if double2 { COST_DOUBLE } else { COST_DEFAULT };
                let cost_add = fmin(cost2, cost_double2);
                let cost_sub = if ch1 == ch2 { 0.0 } else { fmax(cost1, cost2) };
                let cost_trans = COST_TRANS * usize_as_f64((i1 - l1) + (i2 - l2) + 1);
                let dist_add = cost_add + unsafe { dists.get_unchecked(i1 + 2, i2 + 1) };
                let dist_del = cost_del + unsafe { dists.get_unchecked(i1 + 1, i2 + 2) };
                let dist_sub = cost_sub + unsafe { dists.get_unchecked(i1 + 1, i2 + 1) };
                let dist_trans = cost_trans + unsafe { dists.get_unchecked(l1, l2) };
                let dist = fmin4(dist_add, dist_del, dist_sub, dist_trans);
                unsafe {
                    dists.set_unchecked(i1 + 2, i2 + 2, dist);
                }
                if ch1 == ch2 {
                    l2 = i2 + 1;
                }
            }
            last_i1.insert(ch1, i1 + 1);
        }
        unsafe { dists.get_unchecked(word1.len() + 1, word2.len() + 1) }
    }
}
// @item rust/core/src/matching/damlev/mod.rs :: fn fmin4
fn fmin4(x1: f64, x2: f64, x3: f64, x4: f64) -> (ret: f64)
{
    let mut min = x1;
    if x2 < min {
        min = x2;
    }
    if x3 < min {
        min = x3;
    }
    if x4 < min {
        min = x4;
    }
    min
}
// @item rust/core/src/matching/damlev/mod.rs :: fn fmin
fn fmin(x1: f64, x2: f64) -> (ret: f64)
{
    if x1 < x2 {
        x1
    } else {
        x2
    }
}
// @item rust/core/src/matching/damlev/mod.rs :: fn fmax
fn fmax(x1: f64, x2: f64) -> (ret: f64)
{
    if x1 > x2 {
        x1
    } else {
        x2
    }
}
// @item rust/core/src/matching/jaccard/mod.rs :: const DEFAULT_CAPACITY
pub const JACCARD_DEFAULT_CAPACITY: usize = 20;
// @item rust/core/src/matching/jaccard/mod.rs :: fn simple_similarity
pub fn simple_similarity(set1: &[char], set2: &[char]) -> (ret: f64)
{
    let mut i1 = 0;
    let mut i2 = 0;
    let mut union = 0;
    let mut intersection = 0;
    while i1 < set1.len() && i2 < set2.len()
    {
        let item1 = unsafe { *set1.get_unchecked(i1) };
        let item2 = unsafe { *set2.get_unchecked(i2) };
        union += 1;
        match item1.cmp(&item2) {
            Less => i1 += 1,
            Greater => i2 += 1,
            Equal => {
                intersection += 1;
                i1 += 1;
                i2 += 1;
            }
        }
    }
    union += set1.len() - i1;
    union += set2.len() - i2;
    usize_as_f64(intersection) / usize_as_f64(union)
}
// @item rust/core/src/matching/jaccard/mod.rs :: struct Jaccard
pub struct Jaccard {
    pub set1: Vec<char>,
    pub set2: Vec<char>,
}
// @item rust/core/src/matching/jaccard/mod.rs :: impl Jaccard
impl Jaccard {
    pub fn new() -> (ret: Self)
    {
        Self { set1: Vec::with_capacity(JACCARD_DEFAULT_CAPACITY), set2: Vec::with_capacity(JACCARD_DEFAULT_CAPACITY) }
    }
    pub fn similarity(&mut self, slice1: &[char], slice2: &[char]) -> (ret: f64)
    {
        match (slice1.len(), slice2.len()) {
            (0, 0) => return 1.0,
            (0, _) => return 0.0,
            (_, 0) => return 0.0,
            (_, _) => {}
        }
        let set1 = &mut self.set1;
        let set2 = &mut self.set2;
        set1.resize(slice1.len(), Default::default());
        set2.resize(slice2.len(), Default::default());
        set1.copy_from_slice(&slice1);
        set2.copy_from_slice(&slice2);
        set1.sort_unstable();
        set2.sort_unstable();
        set1.dedup();
        set2.dedup();
        simple_similarity(&set1, &set2)
    }
    pub fn rel_dist(&mut self, slice1: &[char], slice2: &[char]) -> (ret: f64)
    {
        1.0 - self.similarity(slice1, slice2)
    }
}
// @item rust/core/src/tokenization/word.rs :: defaults Word as WordView<'a>::{is_function,dist}
impl<'a> WordView<'a> {
    fn is_function(&self) -> (ret: bool)
    {
        match self.pos() {
            Some(PartOfSpeech::Article) => true,
            Some(PartOfSpeech::Preposition) => true,
            Some(PartOfSpeech::Conjunction) => true,
            Some(PartOfSpeech::Particle) => true,
            _ => false,
        }
    }
    fn dist(&self, other: &Self) -> (ret: usize)
    {
        let (left1, right1) = self.slice();
        let (left2, right2) = other.slice();
        if left1 >= right2 {
            return left1 - right2;
        }
        if left2 >= right1 {
            return left2 - right1;
        }
        return vpanic();
    }
}
// @item rust/core/src/tokenization/word_view.rs :: impl WordView::{to_shape,join}
impl<'a> WordView<'a> {
    pub fn to_shape(&'a self) -> (ret: WordShape)
    {
        WordShape { offset: self.offset, slice: self.slice, stem: self.stem, pos: self.pos, fin: self.fin }
    }
    pub fn join(&self, other: &Self) -> (ret: Self)
    {
        Self { offset: self.offset, slice: (self.slice.0, other.slice.1), stem: other.slice.0 - self.slice.0 + other.stem, pos: None, fin: other.fin, source: &self.source, chars: &self.chars, classes: &self.classes }
    }
}
// @item rust/core/src/tokenization/word_shape.rs :: struct WordShape
pub struct WordShape {
    pub offset: usize,
    pub slice: (usize, usize),
    pub stem: usize,
    pub pos: Option<PartOfSpeech>,
    pub fin: bool,
}
// @item rust/core/src/matching/word_match.rs :: struct WordMatch
pub struct WordMatch {
    pub offset: usize,
    pub slice: (usize, usize),
    pub subslice: (usize, usize),
    pub typos: f64,
    pub func: bool,
    pub fin: bool,
}
// @item rust/core/src/matching/word_match.rs :: impl WordMatch::{new_pair,word_len,match_len,split,split_typos}
impl WordMatch {
    pub fn new_pair(rword: &WordView, qword: &WordView, rslice: usize, qslice: usize, typos: f64) -> (ret: (Self, Self))
    {
        vassert(rword.slice.0 + rslice <= rword.slice.1);
        vassert(qword.slice.0 + qslice <= qword.slice.1);
        let fin = qword.fin || rword.len() == rslice;
        let rmatch = WordMatch { offset: rword.offset, slice: rword.slice, subslice: (0, rslice), func: rword.is_function(), typos, fin };
        let qmatch = WordMatch { offset: qword.offset, slice: qword.slice, subslice: (0, qslice), func: qword.is_function(), typos, fin };
        (rmatch, qmatch)
    }
    pub fn word_len(&self) -> (ret: usize)
    {
        let (left, right) = self.slice;
        return right - left;
    }
    pub fn match_len(&self) -> (ret: usize)
    {
        let (left, right) = self.subslice;
        return right - left;
    }
    pub fn split(&self, w1: &WordView, w2: &WordView) -> (ret: Option<(Self, Self)>)
    {
        vassert(w2.slice.0 > w1.slice.0);
        vassert(w1.offset == self.offset || w2.offset == self.offset);
        if w1.slice.0 + self.subslice.1 <= w2.slice.0 {
            return None;
        }
        let (typos1, typos2) = Self::split_typos(self.typos, w1.len(), w2.len());
        let part1 = Self { offset: w1.offset, slice: w1.slice, subslice: (0, w1.len()), func: w1.is_function(), typos: typos1, fin: true };
        let part2 = Self { offset: w2.offset, slice: w2.slice, subslice: (0, self.subslice.1 - (w2.slice.0 - w1.slice.0)), func: w2.is_function(), typos: typos2, fin: self.fin };
        Some((part1, part2))
    }
    fn split_typos(typos: f64, len1: usize, len2: usize) -> (ret: (f64, f64))
    {
        if len1 == 0 {
            return (0.0, typos);
        }
        if len2 == 0 {
            return (typos, 0.0);
        }
        let len1 = usize_as_f64(len1);
        let len2 = usize_as_f64(len2);
        let split1 = (typos * len1 * 10.0 / (len1 + len2)).ceil() / 10.0;
        let split2 = ((typos - split1) * 10.0).round() / 10.0;
        (split1, split2)
    }
}
// @item rust/core/src/matching/word.rs :: const LENGTH_THRESHOLD
pub const LENGTH_THRESHOLD: f64 = 0.26;
// @item rust/core/src/matching/word.rs :: const JACCARD_THRESHOLD
pub const JACCARD_THRESHOLD: f64 = 0.51;
// @item rust/core/src/matching/word.rs :: const DAMLEV_THRESHOLD
pub const DAMLEV_THRESHOLD: f64 = 0.21;
// @item rust/core/src/matching/word.rs :: fn word_match
pub fn word_match(rword: &WordView, qword: &WordView, tls: &mut Tls) -> (ret: Option<(WordMatch, WordMatch)>)
{
    if qword.is_empty() || rword.is_empty() {
        return None;
    }
    if !length_check(rword, qword) {
        return None;
    }
    if !jaccard_check(rword, qword, tls) {
        return None;
    }
    let mut best_match: Option<(WordMatch, WordMatch)> = None;
    {
        let damlev = &mut tls.DAMLEV;
        {
            damlev.distance(qword, rword);
            let dists = &damlev.dists;
            let left = if qword.fin { vmax(qword.stem, rword.stem) } else { qword.stem } - 1;
            let right = vmax(qword.len(), rword.len()) + 1;
            if right <= left {
                return best_match;
            }
            let range = (left..right).rev();
            let mut __rslice0 = right;
            while __rslice0 > left
            {
                __rslice0 -= 1;
                let rslice = __rslice0;
                let mut __qslice1 = right;
                while __qslice1 > left
                {
                    __qslice1 -= 1;
                    let qslice = __qslice1;
                    if qslice > qword.len() {
                        continue;
                    }
                    if rslice > rword.len() {
                        continue;
                    }
                    if qslice < qword.stem {
                        continue;
                    }
                    if rslice == left && qslice == left {
                        continue;
                    }
                    if qword.fin && rslice < rword.stem {
                        break;
                    }
                    if usize_absdiff(qslice, rslice) > 1 {
                        continue;
                    }
                    let dist = dists.get(qslice + 1, rslice + 1);
                    let rel = dist / usize_as_f64(vmax(qslice, vmax(rslice, 1)));
                    if rel > DAMLEV_THRESHOLD {
                        continue;
                    }
                    best_match = best_match
                        .take()
                        .filter(|pair: &(WordMatch, WordMatch)| -> (ret: bool)
                        {
                            pair.0.typos <= dist
                        })
                        .or_else(|| -> (ret: Option<(WordMatch, WordMatch)>)
                        {
                            Some(WordMatch::new_pair(rword, qword, rslice, qslice, dist))
                        });
                    if dist <= F64_EPSILON {
                        break;
                    }
                }
            }
        }
    };
    best_match
}
// @item rust/core/src/matching/word.rs :: fn length_check
pub fn length_check(rword: &WordView, qword: &WordView) -> (ret: bool)
{
    let qlen = qword.len();
    let rlen = if qword.fin { rword.len() } else { vmin(qlen, rword.len()) };
    if qlen <= 1 || rlen <= 1 {
        return qlen == rlen;
    }
    let long = vmax(qlen, rlen);
    let short = vmin(qlen, rlen);
    let dist = 1.0 - (usize_as_f64(short) / usize_as_f64(long));
    dist < LENGTH_THRESHOLD
}
// @item rust/core/src/matching/word.rs :: fn jaccard_check
pub fn jaccard_check(rword: &WordView, qword: &WordView, tls: &mut Tls) -> (ret: bool)
{
    let rslice = if qword.fin { rword.chars() } else { &rword.chars()[..vmin(qword.len() + 1, rword.len())] };
    let dist = {
        let j = &mut tls.JACCARD;
        j.rel_dist(rslice, qword.chars())
    };
    dist < JACCARD_THRESHOLD
}
// @item rust/core/src/tokenization/text.rs :: struct Text
pub struct TextRef<'a> {
    pub words: &'a [WordShape],
    pub source: &'a [char],
    pub chars: &'a [char],
    pub classes: &'a [CharClass],
}
// @item rust/core/src/tokenization/word_view.rs :: impl WordView::{new}
impl<'a> WordView<'a> {
    pub fn new(word: &'a WordShape, text: &'a TextRef) -> (ret: Self)
    {
        Self { offset: word.offset, slice: word.slice, stem: word.stem, pos: word.pos, fin: word.fin, source: &text.source, chars: &text.chars, classes: &text.classes }
    }
}
// @item rust/core/src/tokenization/word_shape.rs :: impl WordShape::{to_view}
impl WordShape {
    pub fn to_view<'a>(&'a self, text: &'a TextRef) -> (ret: WordView<'a>)
    {
        WordView::new(self, text)
    }
}
// @item rust/core/src/matching/text.rs :: fn text_match
pub fn text_match(rtext: &TextRef, qtext: &TextRef, tls: &mut Tls, tlsm: &mut TlsText) -> (ret: (Vec<WordMatch>, Vec<WordMatch>))
{
    {
        let rcell = &mut tlsm.RMATCHES;
        {
            {
                let qcell = &mut tlsm.QMATCHES;
                {
                    let rmatches = &mut *rcell;
                    let qmatches = &mut *qcell;
                    rmatches.clear();
                    qmatches.clear();
                    rmatches.resize(rtext.words.len(), None);
                    qmatches.resize(qtext.words.len(), None);
                    let __end0 = qtext.words.len();
                    let mut __i0 = 0;
                    while __i0 < __end0
                    {
                        let qword = &qtext.words[__i0];
                        __i0 += 1;
                        if qmatches[qword.offset].is_some() {
                            continue;
                        }
                        let qword = qword.to_view(qtext);
                        let mut candidate: Option<(WordMatch, WordMatch)> = None;
                        let __end1 = rtext.words.len();
                        let mut __i1 = 0;
                        while __i1 < __end1
                        {
                            let rword = &rtext.words[__i1];
                            __i1 += 1;
                            if rmatches[rword.offset].is_some() {
                                continue;
                            }
                            let rword = rword.to_view(rtext);
                            let mut stop = false;
                            let __r2 = text_match__c1(rtext, qtext, &rword, &qword, rmatches, qmatches, &mut candidate, &mut stop, tls);
                            let __r3 = if __r2.is_none() { text_match__c2(rtext, qtext, &rword, &qword, rmatches, qmatches, &mut candidate, &mut stop, tls) } else { __r2 };
                            let __r4 = if __r3.is_none() { text_match__c3(rtext, qtext, &rword, &qword, rmatches, qmatches, &mut candidate, &mut stop, tls) } else { __r3 };
                            if stop {
                                break;
                            }
                        }
                        if let Some((rmatch, qmatch)) = candidate {
                            let roffset = rmatch.offset;
                            let qoffset = qmatch.offset;
                            rmatches[roffset] = Some(rmatch);
                            qmatches[qoffset] = Some(qmatch);
                        }
                    }
                    let mut __out5 = Vec::new();
                    let __end5 = rmatches.len();
                    for __i5 in 0..__end5
                    {
                        match &rmatches[__i5] {
                            Some(__m) => {
                                __out5.push(__m.clone());
                            }
                            None => {}
                        }
                    }
                    rmatches.clear();
                    let rmatches2 = __out5;
                    let mut __out6 = Vec::new();
                    let __end6 = qmatches.len();
                    for __i6 in 0..__end6
                    {
                        match &qmatches[__i6] {
                            Some(__m) => {
                                __out6.push(__m.clone());
                            }
                            None => {}
                        }
                    }
                    qmatches.clear();
                    let qmatches2 = __out6;
                    (rmatches2, qmatches2)
                }
            }
        }
    }
}
// @item rust/core/src/matching/text.rs :: fn text_match (lifted)
fn text_match__c1(rtext: &TextRef, qtext: &TextRef, rword: &WordView, qword: &WordView, rmatches: &mut Vec<Option<WordMatch>>, qmatches: &mut Vec<Option<WordMatch>>, candidate: &mut Option<(WordMatch, WordMatch)>, stop: &mut bool, tls: &mut Tls) -> (ret: Option<()>)
{
    let rnext = rtext.words.get(rword.offset + 1)?.to_view(rtext);
    if qword.len() < rword.len() + rword.dist(&rnext) {
        return None;
    }
    if rmatches.get(rword.offset + 1)?.is_some() {
        return None;
    }
    let (rmatch, qmatch) = word_match(&rword.join(&rnext), &qword, tls)?;
    let (rmatch1, rmatch2) = rmatch.split(&rword, &rnext)?;
    let roffset1 = rmatch1.offset;
    let roffset2 = rmatch2.offset;
    let qoffset = qmatch.offset;
    rmatches[roffset1] = Some(rmatch1);
    rmatches[roffset2] = Some(rmatch2);
    qmatches[qoffset] = Some(qmatch);
    candidate.take();
    *stop = true;
    Some(())
}
// @item rust/core/src/matching/text.rs :: fn text_match (lifted)
fn text_match__c2(rtext: &TextRef, qtext: &TextRef, rword: &WordView, qword: &WordView, rmatches: &mut Vec<Option<WordMatch>>, qmatches: &mut Vec<Option<WordMatch>>, candidate: &mut Option<(WordMatch, WordMatch)>, stop: &mut bool, tls: &mut Tls) -> (ret: Option<()>)
{
    let qnext = qtext.words.get(qword.offset + 1)?.to_view(qtext);
    if rword.len() < qword.len() + qword.dist(&qnext) {
        return None;
    }
    if qmatches.get(qword.offset + 1)?.is_some() {
        return None;
    }
    let (rmatch, qmatch) = word_match(&rword, &qword.join(&qnext), tls)?;
    let (qmatch1, qmatch2) = qmatch.split(&qword, &qnext)?;
    let roffset = rmatch.offset;
    let qoffset1 = qmatch1.offset;
    let qoffset2 = qmatch2.offset;
    rmatches[roffset] = Some(rmatch);
    qmatches[qoffset1] = Some(qmatch1);
    qmatches[qoffset2] = Some(qmatch2);
    candidate.take();
    *stop = true;
    Some(())
}
// @item rust/core/src/matching/text.rs :: fn text_match (lifted)
fn text_match__c3(rtext: &TextRef, qtext: &TextRef, rword: &WordView, qword: &WordView, rmatches: &mut Vec<Option<WordMatch>>, qmatches: &mut Vec<Option<WordMatch>>, candidate: &mut Option<(WordMatch, WordMatch)>, stop: &mut bool, tls: &mut Tls) -> (ret: Option<()>)
{
    let (rmatch2, qmatch2) = word_match(&rword, &qword, tls)?;
    let score2 = rmatch2.match_len() as isize - 2 * (f64_ceil_as_isize(rmatch2.typos));
    let score1 = match candidate.as_ref() {
        Some((m, _)) => m.match_len() as isize - 2 * (f64_ceil_as_isize(m.typos)),
        None => 0,
    };
    let replace = match (candidate.as_ref(), score1.cmp(&score2)) {
        (None, _) => true,
        (Some(_), Less) => true,
        (Some(_), Equal) if !rmatch2.func => true,
        _ => false,
    };
    if replace {
        *stop = !rmatch2.func;
        *candidate = Some((rmatch2, qmatch2));
    }
    Some(())
}
