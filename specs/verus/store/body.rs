// ======================================================================= U8: the store (C10, C12)
// opaque: language tables and the Snowball stemmer are outside this unit
#[verifier::external_body]
pub struct Lang { _opaque: core::marker::PhantomData<()> }
impl Lang {
    #[verifier::external_body]
    pub fn new() -> Lang { unimplemented!() }
}
// R18: `to_vec(s)` = s.chars().collect()
#[verifier::external_body]
fn to_vec(s: &str) -> (r: Vec<char>) ensures r@ == s@ { s.chars().collect() }
// C12: the ranking an empty query must return: the `limit` best of the *given* records by (rating desc, normalised title asc).
// Uninterpreted here: what matters for C10/C12 is *which* records and *which* limit it is applied to.
pub uninterp spec fn spec_top(records: Seq<Record>, limit: usize) -> Seq<usize>;
// R12: the chain `records.iter().limit_sort_unstable(limit, cmp).map(|r| r.ix).collect()` of top_ixs, outlined
#[verifier::external_body]
fn top_ixs_tail(records: &Vec<Record>, limit: usize) -> (r: Vec<usize>) ensures r@ == spec_top(records@, limit) { unimplemented!() }
// @item rust/core/src/store/mod.rs :: static DEFAULT_LIMIT
pub const DEFAULT_LIMIT: usize = 10;
// @item rust/core/src/store/store.rs :: struct Store
pub struct Store {
    pub next_ix: usize,
    pub records: Vec<Record>,
    pub limit: usize,
    pub lang: Lang,
    pub dividers: (Vec<char>, Vec<char>),
    pub index: TrigramIndex,
    pub top_ixs: Option<(usize, Vec<usize>)>,
}
impl Store {
    // C10: the store is observably a freshly built one: positions are consecutive, the index has one slot per record,
    // and the cached empty-query ranking, when present, is the ranking of the CURRENT records under the CURRENT limit
    pub open spec fn coherent(&self) -> bool {
        &&& self.next_ix == self.records@.len() && self.index.len == self.records@.len() && self.records@.len() < 0x4000_0000
        &&& self.index.wf()
        &&& (forall|k: int| 0 <= k < self.records@.len() ==> (#[trigger] self.records@[k]).ix == k)
        // the cache is keyed by the limit it was computed for, so a direct write of `store.limit` (lib.rs::set_limit)
        // cannot make it stale
        &&& (self.top_ixs matches Some(p) ==> p.1@ == spec_top(self.records@, p.0))
    }
    pub open spec fn fresh(&self) -> bool {
        self.next_ix == 0 && self.records@.len() == 0 && self.index.len == 0 && self.index.dict@ == Map::<[char; 3], Vec<usize>>::empty() && self.top_ixs is None
    }
}
// @item rust/core/src/store/store.rs :: impl Store
impl Store {
    pub fn new() -> (ret: Self)
        ensures ret.coherent(), ret.fresh(), ret.limit == DEFAULT_LIMIT,
    {
        Self { next_ix: 0, records: Vec::new(), limit: DEFAULT_LIMIT, lang: Lang::new(), dividers: (vec!['['], vec![']']), index: TrigramIndex::new(), top_ixs: None }
    }
    pub fn add(&mut self, mut record: Record)
        requires old(self).coherent(), old(self).records@.len() + 1 < 0x4000_0000, text_ok_s(record.title.words@, record.title.chars@.len() as int),
        ensures final(self).coherent(), // [C10 C12]
            final(self).records@.len() == old(self).records@.len() + 1, final(self).limit == old(self).limit, final(self).dividers == old(self).dividers,
    {
        let Self { next_ix, index, records, top_ixs, .. } = self;
        vassert(*next_ix == records.len());
        record.ix = *next_ix;
        index.add(&record);
        records.push(record);
        *next_ix += 1;
        *top_ixs = None;
    }
    pub fn clear(&mut self)
        requires old(self).coherent(),
        // after clear() the store is a fresh one (same language, limit and markers)
        ensures final(self).coherent(), // [C10]
            final(self).fresh(), // [C10]
            final(self).limit == old(self).limit, final(self).dividers == old(self).dividers,
    {
        self.records.clear();
        self.next_ix = 0;
        self.index = TrigramIndex::new();
        self.top_ixs = None;
    }
    pub fn highlight_with(&mut self, dividers: (&str, &str))
        requires old(self).coherent(),
        ensures final(self).coherent(), final(self).records@ == old(self).records@, final(self).limit == old(self).limit,
            final(self).dividers.0@ == dividers.0@, final(self).dividers.1@ == dividers.1@,
    {
        let left: Vec<char> = to_vec(dividers.0);
        let right: Vec<char> = to_vec(dividers.1);
        self.dividers = (left, right);
    }
    pub fn dividers<'a>(&'a self) -> (ret: (&'a [char], &'a [char]))
        ensures ret.0@ == self.dividers.0@, ret.1@ == self.dividers.1@,
    {
        (&self.dividers.0, &self.dividers.1)
    }
}
// @item rust/core/src/search/mod.rs :: impl Store::{top_ixs}
impl Store {
    fn top_ixs(&mut self) -> (ret: Vec<usize>)
        // C12 / C10: the answer is the ranking of the current records under the current limit — whatever happened before;
        requires old(self).coherent(),
        ensures final(self).coherent(), // [C10 C12]
            ret@ == spec_top(final(self).records@, final(self).limit), // [C10 C12]
            final(self).records@ == old(self).records@, final(self).limit == old(self).limit,
    {
        let top_ixs = &mut self.top_ixs;
        if let Some((limit, ixs)) = top_ixs {
            if *limit == self.limit {
                return ixs.clone();
            }
        }
        let ixs = top_ixs_tail(&self.records, self.limit);
        *top_ixs = Some((self.limit, ixs.clone()));
        ixs
    }
}
