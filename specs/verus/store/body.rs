// ======================================================================= U8: the store (C10, C12)
// opaque: language tables and the Snowball stemmer are outside this unit
#[verifier::external_body]
pub struct Lang { _opaque: core::marker::PhantomData<()> }
impl Lang {
    #[verifier::external_body]
    pub fn new() -> Lang { unimplemented!() }
}
// R18: `to_vec(s)` = s.chars().collect()
#[verifier::external_body]
fn to_vec(s: &str) -> (r: Vec<char>) ensures r@ == s@ { s.chars().collect() }
//@include ../common/store_contract.rs
// @item rust/core/src/store/store.rs :: struct Store
pub struct Store {
    pub next_ix: usize,
    pub records: Vec<Record>,
    pub limit: usize,
    pub lang: Lang,
    pub dividers: (Vec<char>, Vec<char>),
    pub index: TrigramIndex,
    pub top_ixs: Option<(usize, Vec<usize>)>,
}
// the ranking is a selection of record positions: with positions consecutive (coherent) it satisfies top_post
proof fn lemma_top(recs: Seq<Record>, limit: usize)
    requires forall|k: int| 0 <= k < recs.len() ==> (#[trigger] recs[k]).ix == k,
        ls_spec(rec_refs(recs), limit, CmpRecords).len() == (if recs.len() < limit { recs.len() } else { limit as nat }),
        exists|idx: Seq<int>| selection(ls_spec(rec_refs(recs), limit, CmpRecords), rec_refs(recs), idx) && ls_best(ls_spec(rec_refs(recs), limit, CmpRecords), rec_refs(recs), idx, CmpRecords),
        ls_sorted(ls_spec(rec_refs(recs), limit, CmpRecords), CmpRecords),
    ensures top_post(recs.len() as int, limit as int, spec_top(recs, limit)),
        top_ordered(recs, spec_top(recs, limit)), // [C12]
{
    let sel = ls_spec(rec_refs(recs), limit, CmpRecords);
    let idx = choose|idx: Seq<int>| selection(sel, rec_refs(recs), idx) && ls_best(sel, rec_refs(recs), idx, CmpRecords);
    let r = spec_top(recs, limit);
    assert forall|k: int| 0 <= k < r.len() implies #[trigger] r[k] == idx[k] && sel[k] == &recs[idx[k]] by { assert(sel[k] == rec_refs(recs)[idx[k]]); }
    assert forall|a: int, b: int| 0 <= a < r.len() && 0 <= b < r.len() && a != b implies r[a] != r[b] by { assert(idx[a] != idx[b]); }
    assert forall|a: int, b: int| 0 <= a <= b < r.len() implies rec_le(&recs[#[trigger] r[a] as int], &recs[#[trigger] r[b] as int]) by {
        assert(ls_le::<&Record, CmpRecords>(CmpRecords, sel[a], sel[b]));
        lax::ls_le_records(sel[a], sel[b]);
    }
    assert forall|j: int| 0 <= j < recs.len() && !#[trigger] r.contains(j as usize) && r.len() > 0 implies rec_le(&recs[r.last() as int], &recs[j]) by {
        if idx.contains(j) { let k = choose|k: int| 0 <= k < idx.len() && idx[k] == j; assert(r[k] == j as usize); }
        assert(ls_le::<&Record, CmpRecords>(CmpRecords, sel.last(), rec_refs(recs)[j]));
        lax::ls_le_records(sel.last(), rec_refs(recs)[j]);
        assert(sel.last() == &recs[r.last() as int]) by { assert(sel[sel.len() - 1] == &recs[idx[sel.len() - 1]]); }
    }
}
// @item rust/core/src/store/store.rs :: impl Store
impl Store {
    pub fn new() -> (ret: Self)
        ensures ret.coherent(), ret.fresh(), ret.limit == DEFAULT_LIMIT,
    {
        Self { next_ix: 0, records: Vec::new(), limit: DEFAULT_LIMIT, lang: Lang::new(), dividers: (vec!['['], vec![']']), index: TrigramIndex::new(), top_ixs: None }
    }
    pub fn add(&mut self, mut record: Record)
        requires old(self).coherent(), old(self).records@.len() + 1 < 0x4000_0000, text_ok_s(record.title.words@, record.title.chars@.len() as int),
        ensures final(self).coherent(), // [C10 C12]
            final(self).records@.len() == old(self).records@.len() + 1, final(self).limit == old(self).limit, final(self).dividers == old(self).dividers,
            // C02 / C10: the earlier records are untouched and the new one is stored as given (id, title, rating) at the next position
            forall|k: int| 0 <= k < old(self).records@.len() ==> final(self).records@[k] == old(self).records@[k], // [C10 C02]
            final(self).records@.last().id == record.id && final(self).records@.last().title == record.title && final(self).records@.last().rating == record.rating, // [C10 C02]
    {
        let Self { next_ix, index, records, top_ixs, .. } = self;
        vassert(*next_ix == records.len());
        record.ix = *next_ix;
        index.add(&record);
        records.push(record);
        *next_ix += 1;
        *top_ixs = None;
    }
    pub fn clear(&mut self)
        requires old(self).coherent(),
        // after clear() the store is a fresh one (same language, limit and markers)
        ensures final(self).coherent(), // [C10]
            final(self).fresh(), // [C10]
            final(self).limit == old(self).limit, final(self).dividers == old(self).dividers,
    {
        self.records.clear();
        self.next_ix = 0;
        self.index = TrigramIndex::new();
        self.top_ixs = None;
    }
    pub fn highlight_with(&mut self, dividers: (&str, &str))
        requires old(self).coherent(),
        ensures final(self).coherent(), final(self).records@ == old(self).records@, final(self).limit == old(self).limit,
            final(self).dividers.0@ == dividers.0@, final(self).dividers.1@ == dividers.1@,
    {
        let left: Vec<char> = to_vec(dividers.0);
        let right: Vec<char> = to_vec(dividers.1);
        self.dividers = (left, right);
    }
    pub fn dividers<'a>(&'a self) -> (ret: (&'a [char], &'a [char]))
        ensures ret.0@ == self.dividers.0@, ret.1@ == self.dividers.1@,
    {
        (&self.dividers.0, &self.dividers.1)
    }
}
// @item rust/core/src/search/mod.rs :: impl Store::{top_ixs}
impl Store {
    fn top_ixs(&mut self) -> (ret: Vec<usize>)
        // C12 / C10: the answer is the ranking of the current records under the current limit — whatever happened before;
        requires old(self).coherent(), old(self).limit <= 0x7fff_ffff_ffff_ffff,   // the adapter computes limit * 2 (C01: limits are at most 2^16)
        ensures final(self).coherent(), // [C10 C12]
            ret@ == spec_top(final(self).records@, final(self).limit), // [C10 C12]
            // C12 / C06: min(limit, number of records) positions of existing records, none twice
            top_post(final(self).records@.len() as int, final(self).limit as int, ret@), // [C12 C06]
            // C12: in the order (rating descending, normalised title ascending), and no record left out is before the last listed one
            top_ordered(final(self).records@, ret@), // [C12]
            final(self).records@ == old(self).records@, final(self).limit == old(self).limit,
    {
        let top_ixs = &mut self.top_ixs;
        let ghost recs = self.records@;
        if let Some((limit, ixs)) = top_ixs {
            if *limit == self.limit {
                return ixs.clone();
            }
        }
        let ixs = {
            let mut __items0: Vec<&Record> = Vec::new();
            let mut __p0 = 0;
            while __p0 < self.records.len()
                invariant __p0 <= self.records@.len(), recs == self.records@, __items0@.len() == __p0,
                    forall|m: int| 0 <= m < __items0@.len() ==> #[trigger] __items0@[m] == &recs[m],
                decreases self.records@.len() - __p0,
            {
                let __ix = __p0;
                __p0 += 1;
                let __cur = &self.records[__ix];
                __items0.push(__cur);
            }
            let __sel0 = limit_sort_all(__items0, self.limit, CmpRecords);
            proof { assert(__items0@ =~= rec_refs(recs)); }
            let mut __out0: Vec<usize> = Vec::new();
            let mut __q0 = 0;
            while __q0 < __sel0.len()
                invariant __q0 <= __sel0@.len(), __out0@.len() == __q0,
                    forall|k: int| 0 <= k < __out0@.len() ==> #[trigger] __out0@[k] == __sel0@[k].ix,
                decreases __sel0@.len() - __q0,
            {
                let __jx = __q0;
                __q0 += 1;
                let r = &__sel0[__jx];
                let __cur = r.ix;
                __out0.push(__cur);
            }
            proof { lemma_ls_ok_records(); assert(__out0@ =~= spec_top(recs, self.limit)); lemma_top(recs, self.limit); }
            __out0
        };
        *top_ixs = Some((self.limit, ixs.clone()));
        ixs
    }
}
//@include ../common/cmp_specs.rs
// @item rust/core/src/search/mod.rs :: impl Store::{top_ixs} (lifted)
pub fn cmp_records(r1: &&Record, r2: &&Record) -> (ret: Ordering)
    // C12: the comparator of the empty-query ranking is (rating descending, normalised title ascending)
    ensures ret == rec_order(*r1, *r2), // [C12]
{
    {
        r2.rating.cmp(&r1.rating).then_with(|| -> (ret: Ordering)
            ensures ret == lex_cmp(r1.title.chars@, r2.title.chars@),
        {
            r1.title.chars.cmp(&r2.title.chars)
        })
    }
}
