// @item rust/core/src/matching/damlev/matrix.rs :: struct DistMatrix
pub struct DistMatrix {
    pub size: usize,
    pub raw: Vec<f64>,
}
// @item rust/core/src/matching/damlev/matrix.rs :: impl DistMatrix
impl DistMatrix {
    pub fn new(size: usize) -> (ret: Self)
    {
        let raw = vec![0.0; size * size];
        let mut matrix = Self { size, raw };
        matrix.init();
        matrix
    }
    pub fn prepare(&mut self, coefs1: &[f64], coefs2: &[f64])
    {
        let size = vmax(coefs1.len() + 2, coefs2.len() + 2);
        if size > self.size {
            let size = size + size / 2;
            self.raw.resize(size * size, 0.0);
            self.size = size;
            self.init();
        }
        unsafe {
            let __end0 = coefs1.len();
            for i1 in 0..__end0
            {
                let coef = coefs1[i1];
                let prev = self.get_unchecked(i1 + 1, 1);
                self.set_unchecked(i1 + 2, 1, prev + coef);
            }
            let __end1 = coefs2.len();
            for i2 in 0..__end1
            {
                let coef = coefs2[i2];
                let prev = self.get_unchecked(1, i2 + 1);
                self.set_unchecked(1, i2 + 2, prev + coef);
            }
        }
    }
    pub fn init(&mut self)
    {
        if self.size == 0 {
            return;
        }
        unsafe {
            let __end0 = self.size;
            for i in 0..__end0
            {
                self.set_unchecked(i, 0, usize_as_f64(self.size));
                self.set_unchecked(0, i, usize_as_f64(self.size));
            }
            let __end1 = self.size;
            for i in 1..__end1
            {
                self.set_unchecked(i, 1, usize_as_f64(i - 1));
                self.set_unchecked(1, i, usize_as_f64(i - 1));
            }
        }
    }
    pub unsafe fn get_unchecked(&self, i: usize, j: usize) -> (ret: f64)
    {
        *self.raw.get_unchecked(i * self.size + j)
    }
    pub unsafe fn set_unchecked(&mut self, i: usize, j: usize, val: f64)
    {
        *self.raw.get_unchecked_mut(i * self.size + j) = val;
    }
    pub fn get(&self, i: usize, j: usize) -> (ret: f64)
    {
        self.raw[i * self.size + j]
    }
}
// @item rust/core/src/lang/char_class.rs :: enum CharClass
#[derive(Clone, Copy, PartialEq, Eq, Structural)]
pub enum CharClass {
    Any,
    Control,
    Whitespace,
    Punctuation,
    NotAlpha,
    NotAlphaNum,
    Consonant,
    Vowel,
}
// @item rust/core/src/lang/pos.rs :: enum PartOfSpeech
#[derive(Clone, Copy, PartialEq, Eq, Structural)]
pub enum PartOfSpeech {
    Noun,
    Pronoun,
    Verb,
    Adjective,
    Adverb,
    Preposition,
    Conjunction,
    Particle,
    Intejection,
    Article,
}
// @item rust/core/src/tokenization/word_view.rs :: struct WordView
pub struct WordView<'a> {
    pub offset: usize,
    pub slice: (usize, usize),
    pub stem: usize,
    pub pos: Option<PartOfSpeech>,
    pub fin: bool,
    pub source: &'a [char],
    pub chars: &'a [char],
    pub classes: &'a [CharClass],
}
// @item rust/core/src/tokenization/word_view.rs :: impl Word for WordView
impl<'a> WordView<'a> {
    fn offset(&self) -> (ret: usize)
    {
        self.offset
    }
    fn slice(&self) -> (ret: (usize, usize))
    {
        self.slice
    }
    fn stem(&self) -> (ret: usize)
    {
        self.stem
    }
    fn pos(&self) -> (ret: Option<PartOfSpeech>)
    {
        self.pos
    }
    fn fin(&self) -> (ret: bool)
    {
        self.fin
    }
}
// @item rust/core/src/tokenization/word_view.rs :: impl WordView::{source,chars,classes}
impl<'a> WordView<'a> {
    pub fn source(&'a self) -> (ret: &'a [char])
    {
        &self.source[self.slice.0..self.slice.1]
    }
    pub fn chars(&'a self) -> (ret: &'a [char])
    {
        &self.chars[self.slice.0..self.slice.1]
    }
    pub fn classes(&'a self) -> (ret: &'a [CharClass])
    {
        &self.classes[self.slice.0..self.slice.1]
    }
}
// @item rust/core/src/tokenization/word.rs :: defaults Word as WordView<'a>::{len,is_empty}
impl<'a> WordView<'a> {
    fn len(&self) -> (ret: usize)
    {
        let (left, right) = self.slice();
        right - left
    }
    fn is_empty(&self) -> (ret: bool)
    {
        let (left, right) = self.slice();
        right == left
    }
}
// @item rust/core/src/matching/damlev/mod.rs :: const DEFAULT_CAPACITY
pub const DEFAULT_CAPACITY: usize = 20;
// @item rust/core/src/matching/damlev/mod.rs :: const COST_TRANS
pub const COST_TRANS: f64 = 0.5;
// @item rust/core/src/matching/damlev/mod.rs :: const COST_DOUBLE
pub const COST_DOUBLE: f64 = 0.5;
// @item rust/core/src/matching/damlev/mod.rs :: const COST_VOWEL
pub const COST_VOWEL: f64 = 0.5;
// @item rust/core/src/matching/damlev/mod.rs :: const COST_NOTALPHA
pub const COST_NOTALPHA: f64 = 0.5;
// @item rust/core/src/matching/damlev/mod.rs :: const COST_CONSONANT
pub const COST_CONSONANT: f64 = 1.0;
// @item rust/core/src/matching/damlev/mod.rs :: const COST_DEFAULT
pub const COST_DEFAULT: f64 = 1.0;
// @item rust/core/src/matching/damlev/mod.rs :: struct DamerauLevenshtein
pub struct DamerauLevenshtein {
    pub dists: DistMatrix,
    pub last_i1: HashMap<char, usize>,
    pub costs1: Vec<f64>,
    pub costs2: Vec<f64>,
}
// @item rust/core/src/matching/damlev/mod.rs :: impl DamerauLevenshtein
impl DamerauLevenshtein {
    pub fn new() -> (ret: Self)
    {
        let dists = DistMatrix::new(DEFAULT_CAPACITY + 2);
        let last_i1 = HashMap::with_capacity(DEFAULT_CAPACITY);
        let costs1 = Vec::with_capacity(DEFAULT_CAPACITY);
        let costs2 = Vec::with_capacity(DEFAULT_CAPACITY);
        Self { dists, last_i1, costs1, costs2 }
    }
    fn get_cost(class: &CharClass) -> (ret: f64)
    {
        match class {
            CharClass::Consonant => COST_CONSONANT,
            CharClass::Vowel => COST_VOWEL,
            CharClass::NotAlpha => COST_NOTALPHA,
            _ => COST_DEFAULT,
        }
    }
    pub fn distance(&mut self, word1: &WordView, word2: &WordView) -> (ret: f64)
    {
        let chars1 = word1.chars();
        let chars2 = word2.chars();
        let costs1 = &mut self.costs1;
        let costs2 = &mut self.costs2;
        costs1.clear();
        costs2.clear();
        let __src0 = word1.classes();
        let __end0 = __src0.len();
        for __i0 in 0..__end0
        {
            costs1.push(Self::get_cost(&__src0[__i0]));
        }
        let __src1 = word2.classes();
        let __end1 = __src1.len();
        for __i1 in 0..__end1
        {
            costs2.push(Self::get_cost(&__src1[__i1]));
        }
        let dists = &mut self.dists;
        dists.prepare(&costs1, &costs2);
        let last_i1 = &mut self.last_i1;
        last_i1.clear();
        let __end2 = chars1.len();
        for i1 in 0..__end2
        {
            let ch1 = chars1[i1];
            let mut l2 = 0;
            let cost1 = unsafe { *costs1.get_unchecked(i1) };
            let double1 = i1 > 0 && ch1 == unsafe { *chars1.get_unchecked(i1 - 1) };
            let cost_double1 = if double1 { COST_DOUBLE } else { COST_DEFAULT };
            let cost_del = fmin(cost1, cost_double1);
            let __end3 = chars2.len();
            for i2 in 0..__end3
            {
                let ch2 = chars2[i2];
                let l1 = *last_i1.get(&ch2).unwrap_or(&0);
                let cost2 = unsafe { *costs2.get_unchecked(i2) };
                let double2 = i2 > 0 && ch2 == unsafe { *chars2.get_unchecked(i2 - 1) };
                let cost_double2 = if double2 { COST_DOUBLE } else { COST_DEFAULT };
                let cost_add = fmin(cost2, cost_double2);
                let cost_sub = if ch1 == ch2 { 0.0 } else { fmax(cost1, cost2) };
                let cost_trans = COST_TRANS * usize_as_f64((i1 - l1) + (i2 - l2) + 1);
                let dist_add = cost_add + unsafe { dists.get_unchecked(i1 + 2, i2 + 1) };
                let dist_del = cost_del + unsafe { dists.get_unchecked(i1 + 1, i2 + 2) };
                let dist_sub = cost_sub + unsafe { dists.get_unchecked(i1 + 1, i2 + 1) };
                let dist_trans = cost_trans + unsafe { dists.get_unchecked(l1, l2) };
                let dist = fmin4(dist_add, dist_del, dist_sub, dist_trans);
                unsafe {
                    dists.set_unchecked(i1 + 2, i2 + 2, dist);
                }
                if ch1 == ch2 {
                    l2 = i2 + 1;
                }
            }
            last_i1.insert(ch1, i1 + 1);
        }
        unsafe { dists.get_unchecked(word1.len() + 1, word2.len() + 1) }
    }
}
// @item rust/core/src/matching/damlev/mod.rs :: fn fmin4
fn fmin4(x1: f64, x2: f64, x3: f64, x4: f64) -> (ret: f64)
{
    let mut min = x1;
    if x2 < min {
        min = x2;
    }
    if x3 < min {
        min = x3;
    }
    if x4 < min {
        min = x4;
    }
    min
}
// @item rust/core/src/matching/damlev/mod.rs :: fn fmin
fn fmin(x1: f64, x2: f64) -> (ret: f64)
{
    if x1 < x2 {
        x1
    } else {
        x2
    }
}
// @item rust/core/src/matching/damlev/mod.rs :: fn fmax
fn fmax(x1: f64, x2: f64) -> (ret: f64)
{
    if x1 > x2 {
        x1
    } else {
        x2
    }
}
// @item rust/core/src/tokenization/word.rs :: defaults Word as WordView<'a>::{is_function,dist}
impl<'a> WordView<'a> {
    fn is_function(&self) -> (ret: bool)
    {
        match self.pos() {
            Some(PartOfSpeech::Article) => true,
            Some(PartOfSpeech::Preposition) => true,
            Some(PartOfSpeech::Conjunction) => true,
            Some(PartOfSpeech::Particle) => true,
            _ => false,
        }
    }
    fn dist(&self, other: &Self) -> (ret: usize)
    {
        let (left1, right1) = self.slice();
        let (left2, right2) = other.slice();
        if left1 >= right2 {
            return left1 - right2;
        }
        if left2 >= right1 {
            return left2 - right1;
        }
        return vpanic();
    }
}
// @item rust/core/src/tokenization/word_view.rs :: impl WordView::{to_shape,join}
impl<'a> WordView<'a> {
    pub fn to_shape(&'a self) -> (ret: WordShape)
    {
        WordShape { offset: self.offset, slice: self.slice, stem: self.stem, pos: self.pos, fin: self.fin }
    }
    pub fn join(&self, other: &Self) -> (ret: Self)
    {
        Self { offset: self.offset, slice: (self.slice.0, other.slice.1), stem: other.slice.0 - self.slice.0 + other.stem, pos: None, fin: other.fin, source: &self.source, chars: &self.chars, classes: &self.classes }
    }
}
// @item rust/core/src/tokenization/word_shape.rs :: struct WordShape
pub struct WordShape {
    pub offset: usize,
    pub slice: (usize, usize),
    pub stem: usize,
    pub pos: Option<PartOfSpeech>,
    pub fin: bool,
}
// @item rust/core/src/matching/word_match.rs :: struct WordMatch
pub struct WordMatch {
    pub offset: usize,
    pub slice: (usize, usize),
    pub subslice: (usize, usize),
    pub typos: f64,
    pub func: bool,
    pub fin: bool,
}
// @item rust/core/src/matching/word_match.rs :: impl WordMatch::{new_pair,word_len,match_len,split,split_typos}
impl WordMatch {
    pub fn new_pair(rword: &WordView, qword: &WordView, rslice: usize, qslice: usize, typos: f64) -> (ret: (Self, Self))
    {
        vassert(rword.slice.0 + rslice <= rword.slice.1);
        vassert(qword.slice.0 + qslice <= qword.slice.1);
        let fin = qword.fin || rword.len() == rslice;
        let rmatch = WordMatch { offset: rword.offset, slice: rword.slice, subslice: (0, rslice), func: rword.is_function(), typos, fin };
        let qmatch = WordMatch { offset: qword.offset, slice: qword.slice, subslice: (0, qslice), func: qword.is_function(), typos, fin };
        (rmatch, qmatch)
    }
    pub fn word_len(&self) -> (ret: usize)
    {
        let (left, right) = self.slice;
        return right - left;
    }
    pub fn match_len(&self) -> (ret: usize)
    {
        let (left, right) = self.subslice;
        return right - left;
    }
    pub fn split(&self, w1: &WordView, w2: &WordView) -> (ret: Option<(Self, Self)>)
    {
        vassert(w2.slice.0 > w1.slice.0);
        vassert(w1.offset == self.offset || w2.offset == self.offset);
        if w1.slice.0 + self.subslice.1 <= w2.slice.0 {
            return None;
        }
        let (typos1, typos2) = Self::split_typos(self.typos, w1.len(), w2.len());
        let part1 = Self { offset: w1.offset, slice: w1.slice, subslice: (0, w1.len()), func: w1.is_function(), typos: typos1, fin: true };
        let part2 = Self { offset: w2.offset, slice: w2.slice, subslice: (0, self.subslice.1 - (w2.slice.0 - w1.slice.0)), func: w2.is_function(), typos: typos2, fin: self.fin };
        Some((part1, part2))
    }
    fn split_typos(typos: f64, len1: usize, len2: usize) -> (ret: (f64, f64))
    {
        if len1 == 0 {
            return (0.0, typos);
        }
        if len2 == 0 {
            return (typos, 0.0);
        }
        let len1 = usize_as_f64(len1);
        let len2 = usize_as_f64(len2);
        let split1 = (typos * len1 * 10.0 / (len1 + len2)).ceil() / 10.0;
        let split2 = ((typos - split1) * 10.0).round() / 10.0;
        (split1, split2)
    }
}
// @item rust/core/src/tokenization/text.rs :: struct Text
pub struct TextRef<'a> {
    pub words: &'a [WordShape],
    pub source: &'a [char],
    pub chars: &'a [char],
    pub classes: &'a [CharClass],
}
// @item rust/core/src/tokenization/text.rs :: struct Text
pub struct TextOwn {
    pub words: Vec<WordShape>,
    pub source: Vec<char>,
    pub chars: Vec<char>,
    pub classes: Vec<CharClass>,
}
// @item rust/core/src/tokenization/word_shape.rs :: impl Word for WordShape
impl WordShape {
    fn offset(&self) -> (ret: usize)
    {
        self.offset
    }
    fn slice(&self) -> (ret: (usize, usize))
    {
        self.slice
    }
    fn stem(&self) -> (ret: usize)
    {
        self.stem
    }
    fn pos(&self) -> (ret: Option<PartOfSpeech>)
    {
        self.pos
    }
    fn fin(&self) -> (ret: bool)
    {
        self.fin
    }
}
// @item rust/core/src/tokenization/word.rs :: defaults Word as WordShape::{len,is_empty,is_function}
impl WordShape {
    fn len(&self) -> (ret: usize)
    {
        let (left, right) = self.slice();
        right - left
    }
    fn is_empty(&self) -> (ret: bool)
    {
        let (left, right) = self.slice();
        right == left
    }
    fn is_function(&self) -> (ret: bool)
    {
        match self.pos() {
            Some(PartOfSpeech::Article) => true,
            Some(PartOfSpeech::Preposition) => true,
            Some(PartOfSpeech::Conjunction) => true,
            Some(PartOfSpeech::Particle) => true,
            _ => false,
        }
    }
}
// @item rust/core/src/tokenization/text.rs :: impl TextOwn::{to_ref}
impl TextOwn {
    pub fn to_ref<'a>(&'a self) -> (ret: TextRef<'a>)
    {
        TextRef { words: &self.words, source: &self.source, chars: &self.chars, classes: &self.classes }
    }
}
// @item rust/core/src/utils/trigrams.rs :: struct TrigramIter
pub struct TrigramIter<'a> {
    pub word: &'a [char],
    pub size: usize,
}
// @item rust/core/src/utils/trigrams.rs :: impl TrigramIter::{new}
impl<'a> TrigramIter<'a> {
    pub fn new(word: &'a [char]) -> (ret: Self)
    {
        Self { word, size: 1 }
    }
}
// @item rust/core/src/utils/trigrams.rs :: impl Iterator for TrigramIter::{next}
impl<'a> TrigramIter<'a> {
    fn next(&mut self) -> (ret: Option<[char; 3]>)
    {
        if self.word.len() < self.size {
            return None;
        }
        let mut gram = ['\0', '\0', '\0'];
        gram[..self.size].copy_from_slice(&self.word[..self.size]);
        if self.size < 3 {
            self.size += 1;
        } else {
            self.word = &self.word[1..];
        }
        Some(gram)
    }
}
// @item rust/core/src/store/mod.rs :: static DEFAULT_LIMIT
pub const DEFAULT_LIMIT: usize = 10;
// @item rust/core/src/store/record.rs :: struct Record
pub struct Record {
    pub ix: usize,
    pub id: usize,
    pub title: TextOwn,
    pub rating: usize,
}
// @item rust/core/src/store/trigram_index.rs :: struct TrigramIndex
pub struct TrigramIndex {
    pub len: usize,
    pub dict: HashMap<[char; 3], Vec<usize>>,
    pub counts: Vec<usize>,
}
// @item rust/core/src/store/trigram_index.rs :: impl TrigramIndex::{new,add,prepare,collect_grams}
impl TrigramIndex {
    pub fn new() -> (ret: Self)
    {
        Self { len: 0, dict: HashMap::new(), counts: Vec::new() }
    }
    pub fn add(&mut self, record: &Record)
    {
        let Self { dict, len, .. } = self;
        let Record { ix, title, .. } = record;
        let grams = Self::collect_grams(&title.to_ref());
        *len += 1;
        let __end0 = grams.len();
        for __i0 in 0..__end0
        {
            let gram = grams[__i0];
            if dict.contains_key(&gram) {
                let ixs = dict.get_mut(&gram).unwrap();
                {
                    vassert(ixs.len() == 0 || ixs.last().unwrap() < ix);
                    ixs.push(*ix);
                }
            } else {
                dict.insert(gram, vec![*ix]);
            }
        }
    }
    pub fn prepare(&mut self, query: &TextRef, size: usize) -> (ret: Vec<usize>)
    {
        let Self { counts, dict, .. } = self;
        if query.words.len() == 0 {
            return Vec::new();
        }
        counts.clear();
        counts.resize(self.len, 0);
        let grams = Self::collect_grams(&query);
        let __end0 = grams.len();
        for __i0 in 0..__end0
        {
            let gram = &grams[__i0];
            if let Some(ixs) = dict.get(gram) {
                let __end1 = ixs.len();
                for __i1 in 0..__end1
                {
                    let ix = ixs[__i1];
                    unsafe {
                        *counts.get_unchecked_mut(ix) += 1;
                    }
                }
            }
        }
        let mut __items0: Vec<(usize, &usize)> = Vec::new();
        let mut __p0 = 0;
        while __p0 < counts.len()
        {
            let __ix = __p0;
            __p0 += 1;
            let __cur = (__ix, &counts[__ix]);
            let __keep = {
                let count = *__cur.1;
                count > 0
            };
            if !__keep {
                continue;
            }
            __items0.push(__cur);
        }
        let __sel0 = limit_sort_all(__items0, size * 10, CmpCounts);
        let mut __out0: Vec<usize> = Vec::new();
        let mut __q0 = 0;
        while __q0 < __sel0.len()
        {
            let __jx = __q0;
            __q0 += 1;
            let ix = __sel0[__jx].0;
            let __cur = ix;
            __out0.push(__cur);
        }
        __out0
    }
    fn collect_grams(text: &TextRef) -> (ret: Vec<[char; 3]>)
    {
        let mut __acc0: usize = 0;
        let __end0 = text.words.len();
        for __i0 in 0..__end0
        {
            let w = &text.words[__i0];
            __acc0 += w.len();
        }
        let cap = __acc0;
        let mut grams = Vec::with_capacity(cap);
        let __end1 = text.words.len();
        for __i1 in 0..__end1
        {
            let word = &text.words[__i1];
            let chars = &text.chars[word.slice.0..word.slice.1];
            let mut __it2 = TrigramIter::new(chars);
            loop
            {
                match __it2.next() {
                    Some(gram) => {
                        grams.push(gram);
                    }
                    None => {
                        break;
                    }
                }
            }
        }
        grams.sort_unstable();
        grams.dedup();
        grams
    }
}
// @item rust/core/src/store/trigram_index.rs :: impl TrigramIndex::{new,add,prepare,collect_grams} (lifted)
pub fn cmp_counts(__a: &(usize, &usize), __b: &(usize, &usize)) -> (ret: Ordering)
{
    let (_, count1) = __a;
    let (_, count2) = __b;
    count2.cmp(count1)
}
// @item rust/core/src/store/store.rs :: struct Store
pub struct Store {
    pub next_ix: usize,
    pub records: Vec<Record>,
    pub limit: usize,
    pub lang: Lang,
    pub dividers: (Vec<char>, Vec<char>),
    pub index: TrigramIndex,
    pub top_ixs: Option<(usize, Vec<usize>)>,
}
// @item rust/core/src/store/store.rs :: impl Store
impl Store {
    pub fn new() -> (ret: Self)
    {
        Self { next_ix: 0, records: Vec::new(), limit: DEFAULT_LIMIT, lang: Lang::new(), dividers: (vec!['['], vec![']']), index: TrigramIndex::new(), top_ixs: None }
    }
    pub fn add(&mut self, mut record: Record)
    {
        let Self { next_ix, index, records, top_ixs, .. } = self;
        vassert(*next_ix == records.len());
        record.ix = *next_ix;
        index.add(&record);
        records.push(record);
        *next_ix += 1;
        *top_ixs = None;
    }
    pub fn clear(&mut self)
    {
        self.records.clear();
        self.next_ix = 0;
        self.index = TrigramIndex::new();
        self.top_ixs = None;
    }
    pub fn highlight_with(&mut self, dividers: (&str, &str))
    {
        let left: Vec<char> = to_vec(dividers.0);
        let right: Vec<char> = to_vec(dividers.1);
        self.dividers = (left, right);
    }
    pub fn dividers<'a>(&'a self) -> (ret: (&'a [char], &'a [char]))
    {
        (&self.dividers.0, &self.dividers.1)
    }
}
// @item rust/core/src/search/mod.rs :: impl Store::{top_ixs}
impl Store {
    fn top_ixs(&mut self) -> (ret: Vec<usize>)
    {
        let top_ixs = &mut self.top_ixs;
        if let Some((limit, ixs)) = top_ixs {
            if *limit == self.limit {
                return ixs.clone();
            }
        }
        let ixs = {
            let mut __items0: Vec<&Record> = Vec::new();
            let mut __p0 = 0;
            while __p0 < self.records.len()
            {
                let __ix = __p0;
                __p0 += 1;
                let __cur = &self.records[__ix];
                __items0.push(__cur);
            }
            let __sel0 = limit_sort_all(__items0, self.limit, CmpRecords);
            let mut __out0: Vec<usize> = Vec::new();
            let mut __q0 = 0;
            while __q0 < __sel0.len()
            {
                let __jx = __q0;
                __q0 += 1;
                let r = &__sel0[__jx];
                let __cur = r.ix;
                __out0.push(__cur);
            }
            __out0
        };
        *top_ixs = Some((self.limit, ixs.clone()));
        ixs
    }
}
// @item rust/core/src/search/mod.rs :: impl Store::{top_ixs} (lifted)
pub fn cmp_records(r1: &&Record, r2: &&Record) -> (ret: Ordering)
{
    {
        r2.rating.cmp(&r1.rating).then_with(|| -> (ret: Ordering)
        {
            r1.title.chars.cmp(&r2.title.chars)
        })
    }
}
