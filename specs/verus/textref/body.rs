// @item rust/core/src/tokenization/text.rs :: struct Text
pub struct TextRef<'a> {
    pub words: &'a [WordShape],
    pub source: &'a [char],
    pub chars: &'a [char],
    pub classes: &'a [CharClass],
}
