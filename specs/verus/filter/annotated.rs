//@include ../common/head.rs
//@include ../common/float.rs
//@include ../common/slices.rs
//@include ../common/uses.rs
//@include ../common/strings.rs
broadcast use {fax::g, sax::ix_ok_usize, sax::ix_val_usize, sax::ix_upd_usize, vstd::std_specs::hash::group_hash_axioms, kax::char_key_model, sx::iter_chars_slice};
//@include ../common/helpers.rs
//@include ../dl/body.rs
//@include ../shapes/body.rs
//@include ../textref/body.rs
//@include ../highlight/body.rs
//@include ../score/body.rs
//@include body.rs
//@include ../common/tail.rs
