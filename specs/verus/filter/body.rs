// ======================================================================= filter: hit_matches (C09 C03 C13 C12)
// @item rust/core/src/tokenization/text.rs :: impl Text::{is_empty}
impl<'a> TextRef<'a> {
    pub fn is_empty(&self) -> (ret: bool)
        ensures ret == (self.words@.len() == 0),
    {
        self.words.is_empty()
    }
}
// exact specification of the filter
pub open spec fn hm_spec(query: &TextRef, hit: &Hit) -> bool {
    if query.words@.len() == 0 { true } else if hit.rmatches@.len() == 0 { false }
    else if hit.rmatches@.len() == 1 && hit.qmatches@.len() == 1 && query.words@.len() > 1 {
        let rm = hit.rmatches@[0]; let qm = hit.qmatches@[0];
        !(!rm.fin && (qm.slice.1 - qm.slice.0) * 2 < rm.slice.1 - rm.slice.0)
    } else { true }
}
// @item rust/core/src/search/filter.rs :: fn hit_matches
pub fn hit_matches(query: &TextRef, hit: &Hit) -> (ret: bool)
    requires forall|k: int| 0 <= k < hit.rmatches@.len() ==> (#[trigger] hit.rmatches@[k]).slice.0 <= hit.rmatches@[k].slice.1,
        forall|k: int| 0 <= k < hit.qmatches@.len() ==> (#[trigger] hit.qmatches@[k]).slice.0 <= hit.qmatches@[k].slice.1 <= 0x4000_0000,
        // matches come in pairs (text_match's contract)
        hit.rmatches@.len() >= 1 ==> hit.qmatches@.len() >= 1,
    // exact specification (GLUE: Store::search is stated over hm_spec; every consequence of it that a property needs is a separately
    // tagged clause below, so a failure of this line alone is reported in the evidence notes, not as a violation)
    ensures ret == hm_spec(query, hit), // [GLUE]
        // C12: a query without words always passes
        query.words@.len() == 0 ==> ret, // [C12]
        // C09: a hit for a query with words has at least one match (hence one highlighted span)
        query.words@.len() > 0 && ret ==> hit.rmatches@.len() >= 1, // [C09 C05]
        // C03: a one-word query with a match passes
        query.words@.len() == 1 && hit.rmatches@.len() >= 1 ==> ret, // [C03 C04 C13]
        // C13 / C14 (queries of several words): a hit with more than one match on either side passes
        hit.rmatches@.len() >= 1 && !(hit.rmatches@.len() == 1 && hit.qmatches@.len() == 1) ==> ret, // [C13 C14]
        // C13: two matched words pass; a single match passes when it is finished
        query.words@.len() > 0 && hit.rmatches@.len() >= 2 ==> ret, // [C13 C14]
        query.words@.len() > 0 && hit.rmatches@.len() == 1 && hit.rmatches@[0].fin ==> ret, // [C13 C14]
{
    if query.is_empty() {
        return true;
    }
    if hit.rmatches.len() == 0 {
        return false;
    }
    if hit.rmatches.len() == 1 && hit.qmatches.len() == 1 && query.words.len() > 1 {
        let rmatch = &hit.rmatches[0];
        let qmatch = &hit.qmatches[0];
        let first_half = (qmatch.word_len() * 2) < rmatch.word_len();
        if !rmatch.fin && first_half {
            return false;
        }
    }
    true
}
