// ======================================================================= U2: Jaccard (C17)
pub open spec fn common(a: Seq<char>, b: Seq<char>, i: int) -> nat
    decreases i
{ if i <= 0 { 0 } else { common(a, b, i - 1) + if b.contains(a[i - 1]) { 1nat } else { 0nat } } }
proof fn lemma_common_le(a: Seq<char>, b: Seq<char>, i: int)
    requires 0 <= i
    ensures common(a, b, i) <= i
    decreases i
{ if i > 0 { lemma_common_le(a, b, i - 1); } }
proof fn lemma_common_tail(a: Seq<char>, b: Seq<char>, i: int, n: int)
    requires 0 <= i <= n <= a.len(), forall|k: int| i <= k < n ==> !b.contains(#[trigger] a[k])
    ensures common(a, b, n) == common(a, b, i)
    decreases n - i
{ if i < n { lemma_common_tail(a, b, i, n - 1); } }
// the merge result as a function of the two strictly increasing sequences
pub open spec fn merge_sim(s1: Seq<char>, s2: Seq<char>) -> f64 {
    to_f64(common(s1, s2, s1.len() as int) as int).div_spec(to_f64(s1.len() + s2.len() - common(s1, s2, s1.len() as int)))
}
// @item rust/core/src/matching/jaccard/mod.rs :: const DEFAULT_CAPACITY
pub const JACCARD_DEFAULT_CAPACITY: usize = 20;
// @item rust/core/src/matching/jaccard/mod.rs :: fn simple_similarity
pub fn simple_similarity(set1: &[char], set2: &[char]) -> (ret: f64)
    requires sorted_strict(set1@), sorted_strict(set2@), set1@.len() <= 0x4000_0000, set2@.len() <= 0x4000_0000,
    ensures ret == merge_sim(set1@, set2@),
{
    proof { cax::char_ord(); f64_obeys(); }
    let mut i1 = 0;
    let mut i2 = 0;
    let mut union = 0;
    let mut intersection = 0;
    while i1 < set1.len() && i2 < set2.len()
        invariant
            i1 <= set1@.len(), i2 <= set2@.len(), set1@.len() <= 0x4000_0000, set2@.len() <= 0x4000_0000,
            sorted_strict(set1@), sorted_strict(set2@),
            intersection == common(set1@, set2@, i1 as int),
            union + intersection == i1 + i2,
            intersection <= i1, intersection <= i2,
            forall|k: int, m: int| 0 <= k < i1 && i2 <= m < set2@.len() ==> lt(#[trigger] set1@[k], #[trigger] set2@[m]),
            forall|k: int, m: int| 0 <= m < i2 && i1 <= k < set1@.len() ==> lt(#[trigger] set2@[m], #[trigger] set1@[k]),
            <char as OrdSpec>::obeys_cmp_spec(),
            forall|a: char, b: char| #[trigger] a.cmp_spec(&b) == (if (a as u32) < (b as u32) { Ordering::Less } else if a == b { Ordering::Equal } else { Ordering::Greater }),
        decreases set1@.len() - i1 + set2@.len() - i2,
    {
        let item1 = unsafe { *set1.get_unchecked(i1) };
        let item2 = unsafe { *set2.get_unchecked(i2) };
        union += 1;
        proof {
            if lt(item1, item2) {
                assert(!set2@.contains(item1)) by {
                    if set2@.contains(item1) {
                        let m = choose|m: int| 0 <= m < set2@.len() && set2@[m] == item1;
                        if m < i2 { assert(lt(set2@[m], set1@[i1 as int])); } else { assert(m == i2 || lt(set2@[i2 as int], set2@[m])); }
                    }
                }
                assert forall|m: int| i2 <= m < set2@.len() implies lt(set1@[i1 as int], #[trigger] set2@[m]) by {
                    if m > i2 { assert(lt(set2@[i2 as int], set2@[m])); }
                }
            } else if lt(item2, item1) {
                assert forall|k: int| i1 <= k < set1@.len() implies lt(set2@[i2 as int], #[trigger] set1@[k]) by {
                    if k > i1 { assert(lt(set1@[i1 as int], set1@[k])); }
                }
            } else {
                assert(set2@[i2 as int] == item1); assert(set2@.contains(item1));
                assert forall|m: int| i2 + 1 <= m < set2@.len() implies lt(set1@[i1 as int], #[trigger] set2@[m]) by {
                    assert(lt(set2@[i2 as int], set2@[m]));
                }
                assert forall|k: int| i1 + 1 <= k < set1@.len() implies lt(set2@[i2 as int], #[trigger] set1@[k]) by {
                    assert(lt(set1@[i1 as int], set1@[k]));
                }
            }
        }
        match item1.cmp(&item2) {
            Less => i1 += 1,
            Greater => i2 += 1,
            Equal => {
                intersection += 1;
                i1 += 1;
                i2 += 1;
            }
        }
    }
    proof {
        if i1 < set1@.len() {
            assert forall|k: int| i1 <= k < set1@.len() implies !set2@.contains(#[trigger] set1@[k]) by {
                if set2@.contains(set1@[k]) {
                    let m = choose|m: int| 0 <= m < set2@.len() && set2@[m] == set1@[k];
                    assert(lt(set2@[m], set1@[k]));
                }
            }
            lemma_common_tail(set1@, set2@, i1 as int, set1@.len() as int);
        }
    }
    union += set1.len() - i1;
    union += set2.len() - i2;
    usize_as_f64(intersection) / usize_as_f64(union)
}
// ---- sets of distinct characters
pub open spec fn cset(s: Seq<char>) -> Set<char> { s.to_set() }
// C17: |A n B| / |A u B| with the three empty cases
pub open spec fn spec_sim(a: Seq<char>, b: Seq<char>) -> f64 {
    if a.len() == 0 && b.len() == 0 { 1.0f64 } else if a.len() == 0 || b.len() == 0 { 0.0f64 } else {
        to_f64(cset(a).intersect(cset(b)).len() as int).div_spec(to_f64(cset(a).union(cset(b)).len() as int))
    }
}
broadcast proof fn lemma_dedup(s: Seq<char>)
    requires sorted_le(s)
    ensures sorted_strict(#[trigger] dedup_spec(s)), dedup_spec(s).len() <= s.len(),
        forall|x: char| dedup_spec(s).contains(x) <==> s.contains(x),
        s.len() > 0 ==> dedup_spec(s).len() > 0 && dedup_spec(s).last() == s.last(),
    decreases s.len()
{
    if s.len() <= 1 {
    } else {
        let p = s.drop_last();
        lemma_dedup(p);
        let d = dedup_spec(p);
        let x = s.last();
        assert(p.last() == s[s.len() - 2]);
        if s[s.len() - 2] == x {
            assert forall|y: char| d.contains(y) <==> s.contains(y) by {
                if s.contains(y) { let i = choose|i: int| 0 <= i < s.len() && s[i] == y; if i < p.len() { assert(p[i] == y); assert(p.contains(y)); } else { assert(p[p.len() - 1] == y); assert(p.contains(y)); } }
                if d.contains(y) { assert(p.contains(y)); let i = choose|i: int| 0 <= i < p.len() && p[i] == y; assert(s[i] == y); }
            }
        } else {
            let r = d.push(x);
            assert(r.last() == x);
            assert forall|i: int, j: int| 0 <= i < j < r.len() implies lt(r[i], r[j]) by {
                if j == r.len() - 1 {
                    // r[i] is in p, all of p is <= p.last() = s[len-2] <= x and != x ... via d.last() == p.last()
                    assert(d.contains(r[i]));
                    assert(p.contains(r[i]));
                    let k = choose|k: int| 0 <= k < p.len() && p[k] == r[i];
                    assert(le(s[k], s[s.len() - 2]));
                    assert(le(s[s.len() - 2], x));
                    if i == d.len() - 1 { assert(r[i] == p.last()); } else { assert(lt(d[i], d[d.len() - 1])); }
                }
            }
            assert forall|y: char| r.contains(y) <==> s.contains(y) by {
                if s.contains(y) { let i = choose|i: int| 0 <= i < s.len() && s[i] == y; if i < p.len() { assert(p[i] == y); assert(p.contains(y)); assert(d.contains(y)); let k = choose|k: int| 0 <= k < d.len() && d[k] == y; assert(r[k] == y); } else { assert(r[r.len() - 1] == y); } }
                if r.contains(y) { let i = choose|i: int| 0 <= i < r.len() && r[i] == y; if i < d.len() { assert(d[i] == y); assert(d.contains(y)); assert(p.contains(y)); let k = choose|k: int| 0 <= k < p.len() && p[k] == y; assert(s[k] == y); } else { assert(s[s.len() - 1] == y); } }
            }
        }
    }
}
// @item rust/core/src/matching/jaccard/mod.rs :: struct Jaccard
pub struct Jaccard {
    pub set1: Vec<char>,
    pub set2: Vec<char>,
}
pub open spec fn jac_sim_is(sim: f64, a: Seq<char>, b: Seq<char>) -> bool {
    &&& (a.len() == 0 && b.len() == 0 ==> sim == 1.0f64)
    &&& ((a.len() == 0) != (b.len() == 0) ==> sim == 0.0f64)
    &&& (a.len() > 0 && b.len() > 0 ==> exists|s1: Seq<char>, s2: Seq<char>| sorted_strict(s1) && sorted_strict(s2)
            && (forall|x: char| s1.contains(x) <==> a.contains(x)) && (forall|x: char| s2.contains(x) <==> b.contains(x))
            && sim == merge_sim(s1, s2))
}
// @item rust/core/src/matching/jaccard/mod.rs :: impl Jaccard
impl Jaccard {
    pub fn new() -> (ret: Self)
        ensures ret.set1@.len() == 0,
    {
        Self { set1: Vec::with_capacity(JACCARD_DEFAULT_CAPACITY), set2: Vec::with_capacity(JACCARD_DEFAULT_CAPACITY) }
    }
    pub fn similarity(&mut self, slice1: &[char], slice2: &[char]) -> (ret: f64)
        // no old(self) on the right-hand side: leftovers of earlier calls cannot matter (C17 "what was compared before")
        requires slice1@.len() <= 0x4000_0000, slice2@.len() <= 0x4000_0000,
        ensures jac_sim_is(ret, slice1@, slice2@),
    {
        // the facts about de-duplicating a sorted buffer are applied wherever dedup_spec occurs: no snapshot of the buffers is taken,
        // so the order in which the two buffers are sorted and de-duplicated does not matter to the proof
        broadcast use lemma_dedup;
        match (slice1.len(), slice2.len()) {
            (0, 0) => return 1.0,
            (0, _) => return 0.0,
            (_, 0) => return 0.0,
            (_, _) => {}
        }
        let set1 = &mut self.set1;
        let set2 = &mut self.set2;
        set1.resize(slice1.len(), Default::default());
        set2.resize(slice2.len(), Default::default());
        set1.copy_from_slice(&slice1);
        set2.copy_from_slice(&slice2);
        set1.sort_unstable();
        set2.sort_unstable();
        set1.dedup();
        set2.dedup();
        proof {
            assert(forall|x: char| set1@.contains(x) <==> slice1@.contains(x));
            assert(forall|x: char| set2@.contains(x) <==> slice2@.contains(x));
        }
        simple_similarity(&set1, &set2)
    }
    pub fn rel_dist(&mut self, slice1: &[char], slice2: &[char]) -> (ret: f64)
        requires slice1@.len() <= 0x4000_0000, slice2@.len() <= 0x4000_0000,
        ensures exists|sim: f64| ret == (1.0f64).sub_spec(sim) && jac_sim_is(sim, slice1@, slice2@),
    {
        proof { f64_obeys(); }
        1.0 - self.similarity(slice1, slice2)
    }
}
// ---- C17 laws, as lemmas over the contract of `similarity` -------------------------------------------
// (1) the strictly increasing sequence with given members is unique: `jac_sim_is` determines one value, which
//     depends on the inputs only through membership => order / repetition independence.
proof fn lemma_sorted_unique(s: Seq<char>, t: Seq<char>)
    requires sorted_strict(s), sorted_strict(t), forall|x: char| s.contains(x) <==> t.contains(x)
    ensures s == t
    decreases s.len()
{
    if s.len() == 0 {
        if t.len() > 0 { assert(t.contains(t[0])); assert(s.contains(t[0])); }
        assert(s =~= t);
    } else if t.len() == 0 {
        assert(s.contains(s[0])); assert(t.contains(s[0]));
    } else {
        // the maxima coincide
        let a = s.last(); let b = t.last();
        assert(s.contains(a)); assert(t.contains(a));
        assert(t.contains(b)); assert(s.contains(b));
        let ia = choose|i: int| 0 <= i < t.len() && t[i] == a;
        let ib = choose|i: int| 0 <= i < s.len() && s[i] == b;
        if ia < t.len() - 1 { assert(lt(t[ia], t[t.len() - 1])); }
        if ib < s.len() - 1 { assert(lt(s[ib], s[s.len() - 1])); }
        assert(a == b);
        let s0 = s.drop_last(); let t0 = t.drop_last();
        assert forall|x: char| s0.contains(x) <==> t0.contains(x) by {
            if s0.contains(x) { let i = choose|i: int| 0 <= i < s0.len() && s0[i] == x; assert(s[i] == x); assert(lt(s[i], s[s.len() - 1])); assert(s.contains(x)); assert(t.contains(x)); let j = choose|j: int| 0 <= j < t.len() && t[j] == x; assert(j < t.len() - 1); assert(t0[j] == x); }
            if t0.contains(x) { let i = choose|i: int| 0 <= i < t0.len() && t0[i] == x; assert(t[i] == x); assert(lt(t[i], t[t.len() - 1])); assert(t.contains(x)); assert(s.contains(x)); let j = choose|j: int| 0 <= j < s.len() && s[j] == x; assert(j < s.len() - 1); assert(s0[j] == x); }
        }
        lemma_sorted_unique(s0, t0);
        assert(s =~= s0.push(a));
        assert(t =~= t0.push(b));
    }
}
// (2) symmetry: counting the members of s1 that occur in s2 equals counting the members of s2 that occur in s1
proof fn lemma_common_push(b: Seq<char>, a: Seq<char>, x: char, m: int)
    requires 0 <= m <= b.len(), !a.contains(x), b.no_duplicates()
    ensures common(b, a.push(x), m) == common(b, a, m) + (if b.take(m).contains(x) { 1nat } else { 0nat })
    decreases m
{
    if m > 0 {
        lemma_common_push(b, a, x, m - 1);
        let y = b[m - 1];
        let ax = a.push(x);
        assert(ax.contains(y) <==> (a.contains(y) || y == x)) by {
            if a.contains(y) { let i = choose|i: int| 0 <= i < a.len() && a[i] == y; assert(ax[i] == y); }
            if y == x { assert(ax[a.len() as int] == x); }
            if ax.contains(y) { let i = choose|i: int| 0 <= i < ax.len() && ax[i] == y; if i < a.len() { assert(a[i] == y); } }
        }
        let t1 = b.take(m - 1);
        let t = b.take(m);
        assert(t.contains(x) <==> (t1.contains(x) || y == x)) by {
            if t1.contains(x) { let i = choose|i: int| 0 <= i < t1.len() && t1[i] == x; assert(t[i] == x); }
            if y == x { assert(t[m - 1] == x); }
            if t.contains(x) { let i = choose|i: int| 0 <= i < t.len() && t[i] == x; if i < m - 1 { assert(t1[i] == x); } }
        }
        if y == x && t1.contains(x) {
            let i = choose|i: int| 0 <= i < t1.len() && t1[i] == x;
            assert(b[i] == b[m - 1]);
        }
    } else {
        assert(b.take(0).len() == 0);
    }
}
proof fn lemma_common_sym(a: Seq<char>, b: Seq<char>, n: int)
    requires a.no_duplicates(), b.no_duplicates(), 0 <= n <= a.len()
    ensures common(a, b, n) == common(b, a.take(n), b.len() as int)
    decreases n
{
    if n == 0 {
        lemma_common_none(b, a.take(0), b.len() as int);
    } else {
        lemma_common_sym(a, b, n - 1);
        let x = a[n - 1];
        let a0 = a.take(n - 1);
        assert(a.take(n) =~= a0.push(x));
        assert(!a0.contains(x)) by { if a0.contains(x) { let i = choose|i: int| 0 <= i < a0.len() && a0[i] == x; assert(a[i] == a[n - 1]); } }
        lemma_common_push(b, a0, x, b.len() as int);
        assert(b.take(b.len() as int) =~= b);
    }
}
proof fn lemma_common_none(b: Seq<char>, e: Seq<char>, m: int)
    requires e.len() == 0, 0 <= m
    ensures common(b, e, m) == 0
    decreases m
{ if m > 0 { lemma_common_none(b, e, m - 1); } }
proof fn lemma_strict_no_dup(s: Seq<char>)
    requires sorted_strict(s)
    ensures s.no_duplicates()
{
    assert forall|i: int, j: int| 0 <= i < s.len() && 0 <= j < s.len() && i != j implies s[i] != s[j] by {
        if i < j { assert(lt(s[i], s[j])); } else { assert(lt(s[j], s[i])); }
    }
}
// C17 symmetric: the value determined for (a, b) is the value determined for (b, a)
proof fn lemma_sim_symmetric(s1: Seq<char>, s2: Seq<char>)
    requires sorted_strict(s1), sorted_strict(s2)
    ensures merge_sim(s1, s2) == merge_sim(s2, s1)
{
    lemma_strict_no_dup(s1); lemma_strict_no_dup(s2);
    lemma_common_sym(s1, s2, s1.len() as int);
    assert(s1.take(s1.len() as int) =~= s1);
}
// C17 range: 0 <= common <= min(len1, len2) and the denominator is >= both lengths (float range [0,1]: FF2 in lane K)
proof fn lemma_sim_range(s1: Seq<char>, s2: Seq<char>)
    requires sorted_strict(s1), sorted_strict(s2)
    ensures common(s1, s2, s1.len() as int) <= s1.len(), common(s1, s2, s1.len() as int) <= s2.len(),
        common(s1, s2, s1.len() as int) <= s1.len() + s2.len() - common(s1, s2, s1.len() as int),
{
    lemma_common_le(s1, s2, s1.len() as int);
    lemma_strict_no_dup(s1); lemma_strict_no_dup(s2);
    lemma_common_sym(s1, s2, s1.len() as int);
    assert(s1.take(s1.len() as int) =~= s1);
    lemma_common_le(s2, s1, s2.len() as int);
}
