// ======================================================================= cardinality facts about strictly increasing sequences
// (the canonical representatives of character sets), used to discharge the Jaccard gate in the recall clauses
proof fn lemma_inj_len(s1: Seq<char>, s2: Seq<char>)
    requires sorted_strict(s1), sorted_strict(s2), forall|y: char| s1.contains(y) ==> s2.contains(y)
    ensures s1.len() <= s2.len()
    decreases s2.len()
{
    if s1.len() > 0 {
        let m1 = s1.last();
        assert(s1.contains(m1)); assert(s2.contains(m1));
        let j = choose|j: int| 0 <= j < s2.len() && s2[j] == m1;
        let m2 = s2.last();
        let s2p = s2.drop_last();
        if m1 == m2 {
            let s1p = s1.drop_last();
            assert forall|y: char| s1p.contains(y) implies s2p.contains(y) by {
                let i = choose|i: int| 0 <= i < s1p.len() && s1p[i] == y;
                assert(s1[i] == y); assert(lt(s1[i], s1[s1.len() - 1])); assert(s1.contains(y)); assert(s2.contains(y));
                let k = choose|k: int| 0 <= k < s2.len() && s2[k] == y;
                assert(k < s2.len() - 1); assert(s2p[k] == y);
            }
            lemma_inj_len(s1p, s2p);
        } else {
            assert(j < s2.len() - 1); assert(lt(s2[j], s2[s2.len() - 1]));
            assert forall|y: char| s1.contains(y) implies s2p.contains(y) by {
                let i = choose|i: int| 0 <= i < s1.len() && s1[i] == y;
                if i < s1.len() - 1 { assert(lt(s1[i], s1[s1.len() - 1])); }
                assert(s2.contains(y));
                let k = choose|k: int| 0 <= k < s2.len() && s2[k] == y;
                assert(k < s2.len() - 1); assert(s2p[k] == y);
            }
            lemma_inj_len(s1, s2p);
        }
    }
}
proof fn lemma_inj_len1(s1: Seq<char>, s2: Seq<char>, x: char)
    requires sorted_strict(s1), sorted_strict(s2), forall|y: char| s1.contains(y) ==> s2.contains(y) || y == x
    ensures s1.len() <= s2.len() + 1
    decreases s1.len() + s2.len()
{
    if s1.len() > 0 {
        let m1 = s1.last();
        let s1p = s1.drop_last();
        assert(s1.contains(m1));
        if m1 == x {
            assert forall|y: char| s1p.contains(y) implies s2.contains(y) by {
                let i = choose|i: int| 0 <= i < s1p.len() && s1p[i] == y;
                assert(s1[i] == y); assert(lt(s1[i], s1[s1.len() - 1])); assert(s1.contains(y));
            }
            lemma_inj_len(s1p, s2);
        } else {
            assert(s2.contains(m1));
            let j = choose|j: int| 0 <= j < s2.len() && s2[j] == m1;
            let m2 = s2.last();
            let s2p = s2.drop_last();
            if m1 == m2 {
                assert forall|y: char| s1p.contains(y) implies s2p.contains(y) || y == x by {
                    let i = choose|i: int| 0 <= i < s1p.len() && s1p[i] == y;
                    assert(s1[i] == y); assert(lt(s1[i], s1[s1.len() - 1])); assert(s1.contains(y));
                    if y != x { assert(s2.contains(y)); let k = choose|k: int| 0 <= k < s2.len() && s2[k] == y; assert(k < s2.len() - 1); assert(s2p[k] == y); }
                }
                lemma_inj_len1(s1p, s2p, x);
            } else {
                assert(j < s2.len() - 1); assert(lt(s2[j], s2[s2.len() - 1]));
                assert forall|y: char| s1.contains(y) implies s2p.contains(y) || y == x by {
                    let i = choose|i: int| 0 <= i < s1.len() && s1[i] == y;
                    if i < s1.len() - 1 { assert(lt(s1[i], s1[s1.len() - 1])); }
                    if y != x { assert(s2.contains(y)); let k = choose|k: int| 0 <= k < s2.len() && s2[k] == y; assert(k < s2.len() - 1); assert(s2p[k] == y); }
                }
                lemma_inj_len1(s1, s2p, x);
            }
        }
    }
}
proof fn lemma_common_all(a: Seq<char>, b: Seq<char>, n: int)
    requires 0 <= n <= a.len(), forall|k: int| 0 <= k < n ==> b.contains(#[trigger] a[k])
    ensures common(a, b, n) == n
    decreases n
{ if n > 0 { lemma_common_all(a, b, n - 1); } }
// if every member of B is a member of A and A has at most one member outside B, the Jaccard gate passes:
// |A n B| = |B|, |A u B| = |A| <= |B| + 1 <= 2|B|
proof fn lemma_jac_gate_superset(a: Seq<char>, b: Seq<char>, x: char)
    requires 1 <= b.len(), 1 <= a.len(), a.len() < 0x10_0000, b.len() < 0x10_0000,
        forall|y: char| b.contains(y) ==> a.contains(y), forall|y: char| a.contains(y) ==> b.contains(y) || y == x,
    ensures forall|sim: f64| jac_sim_is(sim, a, b) ==> jac_gate((1.0f64).sub_spec(sim))
{
    assert forall|sim: f64| jac_sim_is(sim, a, b) implies jac_gate((1.0f64).sub_spec(sim)) by {
        let (s1, s2) = choose|s1: Seq<char>, s2: Seq<char>| sorted_strict(s1) && sorted_strict(s2)
            && (forall|x: char| s1.contains(x) <==> a.contains(x)) && (forall|x: char| s2.contains(x) <==> b.contains(x)) && sim == merge_sim(s1, s2);
        lemma_strict_no_dup(s1); lemma_strict_no_dup(s2);
        lemma_common_sym(s1, s2, s1.len() as int);
        assert(s1.take(s1.len() as int) =~= s1);
        assert forall|k: int| 0 <= k < s2.len() implies s1.contains(#[trigger] s2[k]) by { assert(s2.contains(s2[k])); }
        lemma_common_all(s2, s1, s2.len() as int);
        lemma_inj_len1(s1, s2, x);
        lemma_inj_len(s2, s1);
        lemma_members_len(s1, a); lemma_members_len(s2, b);
        assert(s2.len() >= 1) by { assert(b.contains(b[0])); assert(s2.contains(b[0])); }
        let i = s2.len() as int; let u = s1.len() as int;
        gax::ax_jac_gate_pass(i, u);
    }
}
// a strictly increasing sequence whose members all occur in `a` is not longer than `a`
proof fn lemma_members_len(s: Seq<char>, a: Seq<char>)
    requires sorted_strict(s), forall|y: char| s.contains(y) ==> a.contains(y)
    ensures s.len() <= a.len()
    decreases a.len()
{
    if s.len() > 0 {
        if a.len() == 0 { assert(s.contains(s[0])); assert(a.contains(s[0])); }
        else {
            // remove the last element of `a` from both
            let z = a.last();
            let ap = a.drop_last();
            if s.contains(z) {
                let i = choose|i: int| 0 <= i < s.len() && s[i] == z;
                let sp = s.remove(i);
                assert(sorted_strict(sp)) by { assert forall|p: int, q: int| 0 <= p < q < sp.len() implies lt(sp[p], sp[q]) by {
                    let pp = if p < i { p } else { p + 1 }; let qq = if q < i { q } else { q + 1 }; assert(sp[p] == s[pp] && sp[q] == s[qq]); assert(lt(s[pp], s[qq])); } }
                assert forall|y: char| sp.contains(y) implies ap.contains(y) by {
                    let p = choose|p: int| 0 <= p < sp.len() && sp[p] == y;
                    let pp = if p < i { p } else { p + 1 };
                    assert(s[pp] == y); assert(s.contains(y)); assert(a.contains(y));
                    assert(y != z) by { if pp < i { assert(lt(s[pp], s[i])); } else { assert(lt(s[i], s[pp])); } }
                    let k = choose|k: int| 0 <= k < a.len() && a[k] == y; assert(k < a.len() - 1); assert(ap[k] == y);
                }
                lemma_members_len(sp, ap);
            } else {
                assert forall|y: char| s.contains(y) implies ap.contains(y) by {
                    assert(a.contains(y)); let k = choose|k: int| 0 <= k < a.len() && a[k] == y; assert(k < a.len() - 1); assert(ap[k] == y);
                }
                lemma_members_len(s, ap);
            }
        }
    }
}
// ---- C04: the Jaccard gate for one-edit neighbours.  If A and B differ by at most one member each way and A has at least three
// members, then 2|A n B| >= |A u B|:  |A n B| >= |A| - 1 >= 2, |A u B| <= |A n B| + 2
// all but at most one (x) of the first n members of a are members of b  ==>  common >= n - 1
proof fn lemma_common_all_but_one(a: Seq<char>, b: Seq<char>, x: char, n: int)
    requires 0 <= n <= a.len(), a.no_duplicates(), forall|k: int| 0 <= k < n ==> b.contains(#[trigger] a[k]) || a[k] == x
    ensures common(a, b, n) >= n - 1, (forall|k: int| 0 <= k < n ==> a[k] != x) ==> common(a, b, n) == n
    decreases n
{
    if n > 0 {
        lemma_common_all_but_one(a, b, x, n - 1);
        if a[n - 1] == x && !b.contains(x) {
            assert forall|k: int| 0 <= k < n - 1 implies a[k] != x by { assert(a[k] != a[n - 1]); }
        }
    }
}
proof fn lemma_jac_gate_near(a: Seq<char>, b: Seq<char>, x: char, z: char, c1: char, c2: char, c3: char)
    requires 1 <= b.len(), 1 <= a.len(), a.len() < 0x10_0000, b.len() < 0x10_0000,
        forall|y: char| a.contains(y) ==> b.contains(y) || y == x, forall|y: char| b.contains(y) ==> a.contains(y) || y == z,
        a.contains(c1), a.contains(c2), a.contains(c3), c1 != c2, c1 != c3, c2 != c3,
    ensures forall|sim: f64| jac_sim_is(sim, a, b) ==> jac_gate((1.0f64).sub_spec(sim))
{
    assert forall|sim: f64| jac_sim_is(sim, a, b) implies jac_gate((1.0f64).sub_spec(sim)) by {
        let (s1, s2) = choose|s1: Seq<char>, s2: Seq<char>| sorted_strict(s1) && sorted_strict(s2)
            && (forall|x: char| s1.contains(x) <==> a.contains(x)) && (forall|x: char| s2.contains(x) <==> b.contains(x)) && sim == merge_sim(s1, s2);
        lemma_strict_no_dup(s1); lemma_strict_no_dup(s2);
        lemma_common_sym(s1, s2, s1.len() as int);
        assert(s1.take(s1.len() as int) =~= s1);
        // |s1 n s2| >= |s1| - 1 and >= |s2| - 1
        assert forall|k: int| 0 <= k < s1.len() implies s2.contains(#[trigger] s1[k]) || s1[k] == x by { assert(s1.contains(s1[k])); }
        lemma_common_all_but_one(s1, s2, x, s1.len() as int);
        assert forall|k: int| 0 <= k < s2.len() implies s1.contains(#[trigger] s2[k]) || s2[k] == z by { assert(s2.contains(s2[k])); }
        lemma_common_all_but_one(s2, s1, z, s2.len() as int);
        // |s1| >= 3
        lemma_three_members(s1, c1, c2, c3);
        lemma_members_len(s1, a); lemma_members_len(s2, b);
        lemma_sim_range(s1, s2);
        let i = common(s1, s2, s1.len() as int) as int; let u = s1.len() + s2.len() - i;
        assert(i >= 2 && s1.len() <= i + 1 && s2.len() <= i + 1);
        gax::ax_jac_gate_pass(i, u);
    }
}
// a duplicate-free sequence with three different members has at least three entries
proof fn lemma_three_members(s: Seq<char>, c1: char, c2: char, c3: char)
    requires s.no_duplicates(), s.contains(c1), s.contains(c2), s.contains(c3), c1 != c2, c1 != c3, c2 != c3
    ensures s.len() >= 3
{
    let i1 = choose|i: int| 0 <= i < s.len() && s[i] == c1;
    let i2 = choose|i: int| 0 <= i < s.len() && s[i] == c2;
    let i3 = choose|i: int| 0 <= i < s.len() && s[i] == c3;
    assert(i1 != i2 && i1 != i3 && i2 != i3);
}
