// ======================================================================= U2 (safety variant): C19 / C01
// @item rust/core/src/matching/jaccard/mod.rs :: const DEFAULT_CAPACITY
pub const JACCARD_DEFAULT_CAPACITY: usize = 20;
// @item rust/core/src/matching/jaccard/mod.rs :: fn simple_similarity
pub fn simple_similarity(set1: &[char], set2: &[char]) -> (ret: f64)
    // C19: no precondition on the contents; lengths bounded so that the counters cannot overflow
    requires set1@.len() <= 0x4000_0000, set2@.len() <= 0x4000_0000,
{
    proof { f64_obeys(); }
    let mut i1 = 0;
    let mut i2 = 0;
    let mut union = 0;
    let mut intersection = 0;
    while i1 < set1.len() && i2 < set2.len()
        invariant
            i1 <= set1@.len(), i2 <= set2@.len(), set1@.len() <= 0x4000_0000, set2@.len() <= 0x4000_0000,
            union <= i1 + i2, intersection <= union,
        decreases set1@.len() - i1 + set2@.len() - i2,
    {
        let item1 = unsafe { *set1.get_unchecked(i1) };
        let item2 = unsafe { *set2.get_unchecked(i2) };
        union += 1;
        match item1.cmp(&item2) {
            Less => i1 += 1,
            Greater => i2 += 1,
            Equal => {
                intersection += 1;
                i1 += 1;
                i2 += 1;
            }
        }
    }
    union += set1.len() - i1;
    union += set2.len() - i2;
    usize_as_f64(intersection) / usize_as_f64(union)
}
// @item rust/core/src/matching/jaccard/mod.rs :: struct Jaccard
pub struct Jaccard {
    pub set1: Vec<char>,
    pub set2: Vec<char>,
}
// @item rust/core/src/matching/jaccard/mod.rs :: impl Jaccard
impl Jaccard {
    pub fn new() -> (ret: Self)
    {
        Self { set1: Vec::with_capacity(JACCARD_DEFAULT_CAPACITY), set2: Vec::with_capacity(JACCARD_DEFAULT_CAPACITY) }
    }
    pub fn similarity(&mut self, slice1: &[char], slice2: &[char]) -> (ret: f64)
        requires slice1@.len() <= 0x4000_0000, slice2@.len() <= 0x4000_0000,
    {
        broadcast use lemma_dedup_len;
        match (slice1.len(), slice2.len()) {
            (0, 0) => return 1.0,
            (0, _) => return 0.0,
            (_, 0) => return 0.0,
            (_, _) => {}
        }
        let set1 = &mut self.set1;
        let set2 = &mut self.set2;
        set1.resize(slice1.len(), Default::default());
        set2.resize(slice2.len(), Default::default());
        set1.copy_from_slice(&slice1);
        set2.copy_from_slice(&slice2);
        set1.sort_unstable();
        set2.sort_unstable();
        set1.dedup();
        set2.dedup();
        simple_similarity(&set1, &set2)
    }
    pub fn rel_dist(&mut self, slice1: &[char], slice2: &[char]) -> (ret: f64)
        requires slice1@.len() <= 0x4000_0000, slice2@.len() <= 0x4000_0000,
    {
        proof { f64_obeys(); }
        1.0 - self.similarity(slice1, slice2)
    }
}
// whatever is sorted / de-duplicated, and however often: lengths never grow (the safety proof must not depend on
// *which* buffer each call touches)
broadcast proof fn lemma_dedup_len(s: Seq<char>)
    ensures #[trigger] dedup_spec(s).len() <= s.len()
    decreases s.len()
{ if s.len() > 1 { lemma_dedup_len(s.drop_last()); } }
