// @item rust/core/src/utils/limitsort.rs :: trait LimitSort
pub trait LimitSort: Iterator + Sized {
    fn limit_sort<F>(self, limit: usize, sort_fn: F) -> (ret: LimitSortIter<Self::Item, Self, F>)
    where
        F: (FnMut(&Self::Item, &Self::Item) -> Ordering),
    {
        LimitSortIter { sort_fn, source: self, buffer: Vec::with_capacity(limit * 2), limit, stable: true, done: false }
    }
    fn limit_sort_unstable<F>(self, limit: usize, sort_fn: F) -> (ret: LimitSortIter<Self::Item, Self, F>)
    where
        F: (FnMut(&Self::Item, &Self::Item) -> Ordering),
    {
        LimitSortIter { sort_fn, source: self, buffer: Vec::with_capacity(limit * 2), limit, stable: false, done: false }
    }
}
// @item rust/core/src/utils/limitsort.rs :: struct LimitSortIter
pub struct LimitSortIter<T, I, F>
where
    I: Iterator<Item = T>,
    F: FnMut(&T, &T) -> Ordering,
{
    pub sort_fn: F,
    pub source: I,
    pub buffer: Vec<T>,
    pub limit: usize,
    pub stable: bool,
    pub done: bool,
}
// @item rust/core/src/utils/limitsort.rs :: impl Iterator for LimitSortIter::{next}
impl<T, I, F> LimitSortIter<T, I, F>
where
    I: Iterator<Item = T>,
    F: FnMut(&T, &T) -> Ordering,
{
    fn next(&mut self) -> (ret: Option<T>)
    {
        let Self { buffer, source, sort_fn, done, .. } = self;
        let limit = self.limit;
        let stable = self.stable;
        if !*done {
            loop
            {
                match source.next() {
                    Some(item) => {
                        buffer.push(item);
                        if buffer.len() >= limit * 2 {
                            if stable {
                                vsort_by(buffer, sort_fn);
                            } else {
                                vsort_unstable_by(buffer, sort_fn);
                            };
                            buffer.truncate(limit);
                        }
                    }
                    _ => {
                        break;
                    }
                }
            }
            if stable {
                vsort_by(buffer, sort_fn);
            } else {
                vsort_unstable_by(buffer, sort_fn);
            };
            buffer.truncate(limit);
            buffer.reverse();
            *done = true;
        }
        buffer.pop()
    }
}
// @item rust/core/src/utils/limitsort.rs :: traitimpl LimitSort for I
impl<I: Iterator> LimitSort for I {}
