//@include ../common/head.rs
use vstd::std_specs::iter::IteratorSpec;
//@include ../common/limitsort_sel.rs
//@include body.rs
//@include ../common/tail.rs
