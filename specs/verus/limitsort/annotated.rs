//@include ../common/head.rs
use vstd::std_specs::iter::IteratorSpec;
global size_of usize == 8;
//@include ../common/limitsort_sel.rs
//@include body.rs
//@include ../common/tail.rs
