// ======================================================================= the bounded top-k adapter (C06 C12 C18 ...): LS-sel proved
// The comparator is an opaque FnMut; sorting is the std sort (R33) with its documented contract: a permutation of the buffer.
pub open spec fn is_perm(p: Seq<int>, n: int) -> bool { p.len() == n && p.no_duplicates() && forall|k: int| 0 <= k < n ==> 0 <= #[trigger] p[k] < n }
pub open spec fn permuted<T>(pre: Seq<T>, post: Seq<T>, p: Seq<int>) -> bool {
    is_perm(p, pre.len() as int) && post.len() == pre.len() && forall|k: int| 0 <= k < pre.len() ==> post[k] == pre[#[trigger] p[k]]
}
// ---- the comparator as a relation: x is not after y when the comparator can answer something other than Greater for (x, y)
pub open spec fn le_by<T, F: FnMut(&T, &T) -> Ordering>(f: F, x: T, y: T) -> bool { exists|o: Ordering| #[trigger] f.ensures((&x, &y), o) && o != Ordering::Greater }
// a comparator that sorting can rely on: total and transitive (std requires a total order of sort_by's comparator)
pub open spec fn cmp_ok<T, F: FnMut(&T, &T) -> Ordering>(f: F) -> bool {
    (forall|x: T, y: T| #[trigger] le_by(f, x, y) || le_by(f, y, x))
    && (forall|x: T, y: T, z: T| #[trigger] le_by(f, x, y) && #[trigger] le_by(f, y, z) ==> le_by(f, x, z))
}
pub open spec fn cmp_same<T, F: FnMut(&T, &T) -> Ordering>(f: F, g: F) -> bool { forall|x: T, y: T| #[trigger] le_by(f, x, y) == le_by(g, x, y) }
pub open spec fn sorted_by<T, F: FnMut(&T, &T) -> Ordering>(s: Seq<T>, f: F) -> bool { forall|i: int, j: int| 0 <= i <= j < s.len() ==> le_by(f, #[trigger] s[i], #[trigger] s[j]) }
// R33: V.sort_by(|x, y| F(x, y)) / V.sort_unstable_by(..): std's contract — a permutation of the buffer, in the comparator's order
// when the comparator is a total preorder; the comparator is used, not changed
#[verifier::external_body]
fn vsort_by<T, F: FnMut(&T, &T) -> Ordering>(v: &mut Vec<T>, f: &mut F)
    ensures exists|p: Seq<int>| permuted(old(v)@, final(v)@, p), cmp_same::<T, F>(*old(f), *final(f)),
        cmp_ok::<T, F>(*old(f)) ==> sorted_by(final(v)@, *old(f)),
{ v.sort_by(|x, y| f(x, y)) }
#[verifier::external_body]
fn vsort_unstable_by<T, F: FnMut(&T, &T) -> Ordering>(v: &mut Vec<T>, f: &mut F)
    ensures exists|p: Seq<int>| permuted(old(v)@, final(v)@, p), cmp_same::<T, F>(*old(f), *final(f)),
        cmp_ok::<T, F>(*old(f)) ==> sorted_by(final(v)@, *old(f)),
{ v.sort_unstable_by(|x, y| f(x, y)) }
// <[T]>::reverse (documented behaviour)
pub assume_specification<T>[ <[T]>::reverse ](s: &mut [T])
    ensures final(s)@ == old(s)@.reverse();
// buffer entries with their provenance: entry k is item idx[k] of `all`, no item twice, only items among the first `consumed`
pub open spec fn prov<T>(buf: Seq<T>, all: Seq<T>, idx: Seq<int>, consumed: int) -> bool {
    idx.len() == buf.len() && idx.no_duplicates() && forall|k: int| 0 <= k < buf.len() ==> 0 <= #[trigger] idx[k] < consumed && buf[k] == all[idx[k]]
}
pub open spec fn perm_idx(idx: Seq<int>, p: Seq<int>) -> Seq<int> { Seq::new(idx.len(), |k: int| idx[p[k]]) }
proof fn lemma_prov_perm<T>(pre: Seq<T>, post: Seq<T>, p: Seq<int>, all: Seq<T>, idx: Seq<int>, consumed: int)
    requires prov(pre, all, idx, consumed), permuted(pre, post, p),
    ensures prov(post, all, perm_idx(idx, p), consumed),
{
    let idx2 = perm_idx(idx, p);
    assert forall|a: int, b: int| 0 <= a < idx2.len() && 0 <= b < idx2.len() && a != b implies idx2[a] != idx2[b] by { assert(p[a] != p[b]); }
}
// pairwise different integers in [0, n): at most n of them
proof fn lemma_distinct_ints(s: Seq<int>, n: int)
    requires s.no_duplicates(), forall|k: int| 0 <= k < s.len() ==> 0 <= #[trigger] s[k] < n, n >= 0,
    ensures s.len() <= n,
{
    s.unique_seq_to_set();
    vstd::set_lib::lemma_int_range(0, n);
    assert(s.to_set().subset_of(vstd::set_lib::set_int_range(0, n))) by {
        assert forall|x: int| s.to_set().contains(x) implies vstd::set_lib::set_int_range(0, n).contains(x) by { let k = choose|k: int| 0 <= k < s.len() && s[k] == x; assert(0 <= s[k] < n); }
    }
    vstd::set_lib::lemma_len_subset(s.to_set(), vstd::set_lib::set_int_range(0, n));
}
// in a permutation of [0, n), one of the positions m-1 .. n-1 holds a value below m (the m small values cannot all sit at the m-1 first positions)
proof fn lemma_perm_preimage(p: Seq<int>, n: int, m: int)
    requires is_perm(p, n), 1 <= m <= n,
    ensures exists|k: int| m - 1 <= k < n && #[trigger] p[k] < m,
{
    if !(exists|k: int| m - 1 <= k < n && #[trigger] p[k] < m) {
        lemma_injection_onto(p, n);
        // pre[v] = a position holding the value v, for v < m: m pairwise different positions, all below m-1
        let pre = Seq::new(m as nat, |v: int| choose|k: int| 0 <= k < p.len() && p[k] == v);
        assert forall|v: int| 0 <= v < m implies 0 <= #[trigger] pre[v] < m - 1 && p[pre[v]] == v by {
            assert(p.contains(v));
            let k = pre[v];
            assert(0 <= k < p.len() && p[k] == v);
            if k >= m - 1 { assert(p[k] < m); }
        }
        assert(pre.no_duplicates()) by {
            assert forall|a: int, b: int| 0 <= a < pre.len() && 0 <= b < pre.len() && a != b implies pre[a] != pre[b] by { assert(p[pre[a]] == a && p[pre[b]] == b); }
        }
        lemma_distinct_ints(pre, m - 1);
        assert(false);
    }
}
// one cut: the buffer b0 is sorted into b1 (a permutation p) and cut after `limit` entries.  The kept entries are not after the new
// threshold b1[limit-1], the cut ones are not before it, and the new threshold is not after the old one (when there was one: the first
// `limit` entries of b0 were not after it)
proof fn lemma_cut<T, F: FnMut(&T, &T) -> Ordering>(f: F, b0: Seq<T>, b1: Seq<T>, p: Seq<int>, limit: int, thr: Option<T>)
    requires cmp_ok::<T, F>(f), permuted(b0, b1, p), sorted_by(b1, f), 1 <= limit <= b1.len(),
        thr matches Some(t) ==> forall|q: int| 0 <= q < limit ==> le_by(f, #[trigger] b0[q], t),
    ensures forall|q: int| 0 <= q < limit ==> le_by(f, #[trigger] b1[q], b1[limit - 1]),
        forall|q: int| limit <= q < b1.len() ==> le_by(f, b1[limit - 1], #[trigger] b1[q]),
        thr matches Some(t) ==> le_by(f, b1[limit - 1], t),
{
    if thr is Some {
        let t = thr->0;
        lemma_perm_preimage(p, b0.len() as int, limit);
        let k = choose|k: int| limit - 1 <= k < b0.len() && #[trigger] p[k] < limit;
        assert(b1[k] == b0[p[k]]);
        assert(le_by(f, b0[p[k]], t));
        assert(le_by(f, b1[limit - 1], b1[k]));
        assert(le_by(f, b1[limit - 1], t));
    }
}
// comparators that answer alike are interchangeable
proof fn lemma_cmp_same<T, F: FnMut(&T, &T) -> Ordering>(f: F, g: F, s: Seq<T>)
    requires cmp_same::<T, F>(f, g),
    ensures cmp_ok::<T, F>(f) == cmp_ok::<T, F>(g), sorted_by(s, f) == sorted_by(s, g),
{
    assert forall|x: T, y: T| le_by(f, x, y) == le_by(g, x, y) by { }
    if cmp_ok::<T, F>(f) {
        assert forall|x: T, y: T| #[trigger] le_by(g, x, y) || le_by(g, y, x) by { assert(le_by(f, x, y) || le_by(f, y, x)); }
        assert forall|x: T, y: T, z: T| #[trigger] le_by(g, x, y) && #[trigger] le_by(g, y, z) implies le_by(g, x, z) by { assert(le_by(f, x, y) && le_by(f, y, z)); }
    }
    if cmp_ok::<T, F>(g) {
        assert forall|x: T, y: T| #[trigger] le_by(f, x, y) || le_by(f, y, x) by { assert(le_by(g, x, y) || le_by(g, y, x)); }
        assert forall|x: T, y: T, z: T| #[trigger] le_by(f, x, y) && #[trigger] le_by(f, y, z) implies le_by(f, x, z) by { assert(le_by(g, x, y) && le_by(g, y, z)); }
    }
    if sorted_by(s, f) { assert forall|i: int, j: int| 0 <= i <= j < s.len() implies le_by(g, #[trigger] s[i], #[trigger] s[j]) by { assert(le_by(f, s[i], s[j])); } }
    if sorted_by(s, g) { assert forall|i: int, j: int| 0 <= i <= j < s.len() implies le_by(f, #[trigger] s[i], #[trigger] s[j]) by { assert(le_by(g, s[i], s[j])); } }
}
// the ordering invariant of the adapter: `thr` is the last kept entry of the latest cut (None before the first cut); nothing consumed
// is missing from the buffer before the first cut; afterwards the first `limit` buffer entries are not after thr and everything
// that was cut away is not before it
pub open spec fn ord_inv<T, F: FnMut(&T, &T) -> Ordering>(f: F, buf: Seq<T>, all: Seq<T>, idx: Seq<int>, consumed: int, limit: int, thr: Option<T>) -> bool {
    match thr {
        None => forall|i: int| 0 <= i < consumed ==> idx.contains(i),
        Some(t) => buf.len() >= limit && (forall|q: int| 0 <= q < limit ==> le_by(f, #[trigger] buf[q], t))
            && (forall|i: int| 0 <= i < consumed && !idx.contains(i) ==> le_by(f, t, #[trigger] all[i])),
    }
}
// one sort-and-cut step re-establishes the invariant with the new threshold b1[limit-1]
proof fn lemma_after_cut<T, F: FnMut(&T, &T) -> Ordering>(f: F, all: Seq<T>, consumed: int, b0: Seq<T>, idx0: Seq<int>, b1: Seq<T>, p: Seq<int>, limit: int, thr: Option<T>)
    requires cmp_ok::<T, F>(f), prov(b0, all, idx0, consumed), permuted(b0, b1, p), sorted_by(b1, f), 1 <= limit <= b1.len(), consumed <= all.len(),
        ord_inv(f, b0, all, idx0, consumed, limit, thr),
    ensures ord_inv(f, b1.take(limit), all, perm_idx(idx0, p).take(limit), consumed, limit, Some(b1[limit - 1])),
{
    let idx1 = perm_idx(idx0, p);
    let idx2 = idx1.take(limit);
    let b2 = b1.take(limit);
    let t2 = b1[limit - 1];
    lemma_prov_perm(b0, b1, p, all, idx0, consumed);
    lemma_cut(f, b0, b1, p, limit, thr);
    lemma_injection_onto(p, b0.len() as int);
    assert forall|q: int| 0 <= q < limit implies le_by(f, #[trigger] b2[q], t2) by { assert(b2[q] == b1[q]); }
    assert forall|i: int| 0 <= i < consumed && !idx2.contains(i) implies le_by(f, t2, #[trigger] all[i]) by {
        if idx0.contains(i) {
            // it was in the buffer: after sorting it sits at some position k, which must be at or after the cut
            let a = choose|a: int| 0 <= a < idx0.len() && idx0[a] == i;
            assert(p.contains(a));
            let k = choose|k: int| 0 <= k < p.len() && p[k] == a;
            assert(idx1[k] == i);
            if k < limit { assert(idx2[k] == i); assert(idx2.contains(i)); }
            assert(b1[k] == all[i]);
            assert(le_by(f, t2, b1[k]));
        } else {
            // it had been cut away before
            let t = thr->0;
            assert(thr is Some);
            assert(le_by(f, t, all[i]));
            assert(le_by(f, t2, t));
        }
    }
}
// @item rust/core/src/utils/limitsort.rs :: trait LimitSort
pub trait LimitSort: Iterator + Sized {
    fn limit_sort<F>(self, limit: usize, sort_fn: F) -> (ret: LimitSortIter<Self::Item, Self, F>)
    where
        F: (FnMut(&Self::Item, &Self::Item) -> Ordering),
        requires limit <= 0x7fff_ffff_ffff_ffff, self.obeys_prophetic_iter_laws(), self.decrease() is Some,
        ensures ret.ready(), !ret.done, ret.limit == limit, ret.source == self, ret.sort_fn == sort_fn,
    {
        LimitSortIter { sort_fn, source: self, buffer: Vec::with_capacity(limit * 2), limit, stable: true, done: false }
    }
    fn limit_sort_unstable<F>(self, limit: usize, sort_fn: F) -> (ret: LimitSortIter<Self::Item, Self, F>)
    where
        F: (FnMut(&Self::Item, &Self::Item) -> Ordering),
        requires limit <= 0x7fff_ffff_ffff_ffff, self.obeys_prophetic_iter_laws(), self.decrease() is Some,
        ensures ret.ready(), !ret.done, ret.limit == limit, ret.source == self, ret.sort_fn == sort_fn,
    {
        LimitSortIter { sort_fn, source: self, buffer: Vec::with_capacity(limit * 2), limit, stable: false, done: false }
    }
}
// what the first call of next() returns and leaves pending, against the source's items `all`
pub open spec fn sel_len<T>(full: Seq<T>, all: Seq<T>, limit: usize) -> bool {
    full.len() == (if all.len() < limit { all.len() } else { limit as nat }) && exists|idx: Seq<int>| selection(full, all, idx)
}
pub open spec fn first_call_post<T>(ret: Option<T>, buf: Seq<T>, all: Seq<T>, limit: usize) -> bool {
    match ret { Some(x) => sel_len(seq![x] + buf.reverse(), all, limit), None => sel_len(buf.reverse(), all, limit) }
}
proof fn lemma_first_call<T>(b: Seq<T>, all: Seq<T>, idx: Seq<int>, limit: usize)
    requires selection(b.reverse(), all, idx), b.reverse().len() == (if all.len() < limit { all.len() } else { limit as nat }),
    ensures b.len() > 0 ==> first_call_post(Some(b[b.len() - 1]), b.subrange(0, b.len() - 1), all, limit),
        b.len() == 0 ==> first_call_post(None::<T>, b, all, limit),
{
    if b.len() > 0 {
        let full = seq![b[b.len() - 1]] + b.subrange(0, b.len() - 1).reverse();
        assert(full =~= b.reverse());
        assert(selection(full, all, idx));
        assert(sel_len(full, all, limit));
    } else {
        assert(sel_len(b.reverse(), all, limit));
    }
}
// LS-ord: the items handed out are in the comparator's order, and whatever was left out is not before the last one handed out
pub open spec fn ord_sel<T, F: FnMut(&T, &T) -> Ordering>(full: Seq<T>, all: Seq<T>, f: F) -> bool {
    sorted_by(full, f) && exists|idx: Seq<int>| selection(full, all, idx) && (forall|i: int| 0 <= i < all.len() && !#[trigger] idx.contains(i) && full.len() > 0 ==> le_by(f, full.last(), all[i]))
}
pub open spec fn first_call_ord<T, F: FnMut(&T, &T) -> Ordering>(ret: Option<T>, buf: Seq<T>, all: Seq<T>, f: F) -> bool {
    match ret { Some(x) => ord_sel(seq![x] + buf.reverse(), all, f), None => ord_sel(buf.reverse(), all, f) }
}
proof fn lemma_first_call_ord<T, F: FnMut(&T, &T) -> Ordering>(b: Seq<T>, all: Seq<T>, idx: Seq<int>, f: F)
    requires selection(b.reverse(), all, idx), sorted_by(b.reverse(), f),
        forall|i: int| 0 <= i < all.len() && !#[trigger] idx.contains(i) && b.len() > 0 ==> le_by(f, b.reverse().last(), all[i]),
    ensures b.len() > 0 ==> first_call_ord(Some(b[b.len() - 1]), b.subrange(0, b.len() - 1), all, f),
        b.len() == 0 ==> first_call_ord(None::<T>, b, all, f),
{
    if b.len() > 0 {
        let full = seq![b[b.len() - 1]] + b.subrange(0, b.len() - 1).reverse();
        assert(full =~= b.reverse());
        assert(selection(full, all, idx));
        assert(ord_sel(full, all, f));
    } else {
        let full = b.reverse();
        assert(full.len() == 0);
        assert(sorted_by(full, f));
        assert(ord_sel(full, all, f));
    }
}
#[verifier::reject_recursive_types(T)]
// @item rust/core/src/utils/limitsort.rs :: struct LimitSortIter
pub struct LimitSortIter<T, I, F>
where
    I: Iterator<Item = T>,
    F: FnMut(&T, &T) -> Ordering,
{
    pub sort_fn: F,
    pub source: I,
    pub buffer: Vec<T>,
    pub limit: usize,
    pub stable: bool,
    pub done: bool,
}
impl<T, I, F> LimitSortIter<T, I, F>
where
    I: Iterator<Item = T>,
    F: FnMut(&T, &T) -> Ordering,
{
    // the items still to be handed out, in order (the buffer is kept reversed and popped from the end)
    pub open spec fn pending(&self) -> Seq<T> { self.buffer@.reverse() }
    pub open spec fn ready(&self) -> bool {
        self.source.obeys_prophetic_iter_laws() && self.source.decrease() is Some && self.limit <= 0x7fff_ffff_ffff_ffff && (!self.done ==> self.buffer@.len() == 0)
    }
}
// @item rust/core/src/utils/limitsort.rs :: impl Iterator for LimitSortIter::{next}
impl<T, I, F> LimitSortIter<T, I, F>
where
    I: Iterator<Item = T>,
    F: FnMut(&T, &T) -> Ordering,
{
    fn next(&mut self) -> (ret: Option<T>)
        requires old(self).ready(),
        ensures final(self).ready(), final(self).done, final(self).limit == old(self).limit, ret is None ==> final(self).buffer@.len() == 0,
            // LS-sel: the first call drains the source; what it returns and leaves pending is a selection of min(n, limit) of the
            // source's items at pairwise different positions
            !old(self).done ==> first_call_post(ret, final(self).buffer@, old(self).source.remaining(), old(self).limit),
            // LS-ord: for a comparator that is a total preorder, they are in its order and nothing left out is before the last of them
            cmp_same::<T, F>(old(self).sort_fn, final(self).sort_fn),
            !old(self).done && cmp_ok::<T, F>(old(self).sort_fn) ==> first_call_ord(ret, final(self).buffer@, old(self).source.remaining(), old(self).sort_fn),
            // afterwards the pending items are handed out one by one
            old(self).done ==> (old(self).pending().len() > 0 ==> ret == Some(old(self).pending()[0]) && final(self).pending() == old(self).pending().skip(1))
                && (old(self).pending().len() == 0 ==> ret is None && final(self).pending().len() == 0),
    {
        let Self { buffer, source, sort_fn, done, .. } = self;
        let limit = self.limit;
        let stable = self.stable;
        let ghost all = source.remaining();
        let ghost mut consumed: int = 0;
        let ghost mut idx: Seq<int> = Seq::empty();
        let ghost was_done = *done;
        let ghost f0 = *sort_fn;
        let ghost ok = cmp_ok::<T, F>(f0) && limit > 0;
        let ghost mut thr: Option<T> = None;
        if !*done {
            loop
                invariant source.obeys_prophetic_iter_laws(), source.decrease() is Some, limit <= 0x7fff_ffff_ffff_ffff,
                    0 <= consumed <= all.len(), source.remaining() == all.skip(consumed),
                    prov(buffer@, all, idx, consumed),
                    buffer@.len() <= consumed, buffer@.len() >= (if consumed < limit { consumed } else { limit as int }),
                    cmp_same::<T, F>(f0, *sort_fn), ok == (cmp_ok::<T, F>(f0) && limit > 0),
                    ok ==> ord_inv(f0, buffer@, all, idx, consumed, limit as int, thr),
                ensures consumed == all.len(),
                decreases source.decrease().unwrap(),
            {
                match source.next() {
                    Some(item) => {
                        buffer.push(item);
                        proof {
                            assert(item == all[consumed]);
                            let ghost idx_old = idx;
                            idx = idx.push(consumed);
                            consumed = consumed + 1;
                            if ok {
                                assert forall|i: int| 0 <= i < consumed && idx_old.contains(i) implies idx.contains(i) by {
                                    let a = choose|a: int| 0 <= a < idx_old.len() && idx_old[a] == i; assert(idx[a] == i);
                                }
                                assert(idx[idx.len() - 1] == consumed - 1);
                                assert(idx.contains(consumed - 1));
                            }
                            assert(all.skip(consumed - 1).drop_first() =~= all.skip(consumed));
                            assert(prov(buffer@, all, idx, consumed)) by {
                                assert forall|a: int, b: int| 0 <= a < idx.len() && 0 <= b < idx.len() && a != b implies idx[a] != idx[b] by {
                                    if a == idx.len() - 1 { assert(idx[b] < consumed - 1); } else if b == idx.len() - 1 { assert(idx[a] < consumed - 1); } else { assert(idx.drop_last()[a] != idx.drop_last()[b]); }
                                }
                            }
                        }
                        if buffer.len() >= limit * 2 {
                            let ghost pre0 = buffer@;
                            let ghost fpre0 = *sort_fn;
                            if stable {
                                vsort_by(buffer, sort_fn);
                            } else {
                                vsort_unstable_by(buffer, sort_fn);
                            };
                            let ghost sorted0 = buffer@;
                            proof {
                                let p = choose|p: Seq<int>| permuted(pre0, buffer@, p);
                                lemma_prov_perm(pre0, buffer@, p, all, idx, consumed);
                                if ok {
                                    lemma_cmp_same(f0, fpre0, sorted0);
                                    lemma_after_cut(f0, all, consumed, pre0, idx, sorted0, p, limit as int, thr);
                                }
                                idx = perm_idx(idx, p);
                            }
                            buffer.truncate(limit);
                            proof {
                                idx = idx.take(limit as int);
                                if ok { thr = Some(sorted0[limit as int - 1]); assert(buffer@ =~= sorted0.take(limit as int)); }
                            }
                        }
                    }
                    _ => {
                        break;
                    }
                }
            }
            let ghost pre1 = buffer@;
            let ghost fpre1 = *sort_fn;
            if stable {
                vsort_by(buffer, sort_fn);
            } else {
                vsort_unstable_by(buffer, sort_fn);
            };
            let ghost sorted1 = buffer@;
            let ghost idx_pre = idx;
            proof {
                let p = choose|p: Seq<int>| permuted(pre1, buffer@, p);
                lemma_prov_perm(pre1, buffer@, p, all, idx, consumed);
                if cmp_ok::<T, F>(f0) { lemma_cmp_same(f0, fpre1, sorted1); }
                if ok && sorted1.len() >= limit {
                    lemma_after_cut(f0, all, consumed, pre1, idx, sorted1, p, limit as int, thr);
                }
                if ok && sorted1.len() < limit {
                    // no cut so far and none now: every consumed item is still in the buffer
                    lemma_injection_onto(p, pre1.len() as int);
                    assert(pre1.len() == sorted1.len());
                    assert(thr is None);
                    assert forall|i: int| 0 <= i < consumed implies perm_idx(idx, p).contains(i) by {
                        assert(idx.contains(i));
                        let a = choose|a: int| 0 <= a < idx.len() && idx[a] == i;
                        assert(p.contains(a));
                        let k = choose|k: int| 0 <= k < p.len() && p[k] == a;
                        assert(perm_idx(idx, p)[k] == i);
                    }
                }
                idx = perm_idx(idx, p);
            }
            buffer.truncate(limit);
            proof {
                if limit < idx.len() { idx = idx.take(limit as int); }
                if ok && sorted1.len() >= limit { thr = Some(sorted1[limit as int - 1]); assert(buffer@ =~= sorted1.take(limit as int)); assert(idx =~= perm_idx(idx_pre, choose|p: Seq<int>| permuted(pre1, sorted1, p)).take(limit as int)); }
            }
            let ghost b2 = buffer@;
            buffer.reverse();
            proof {
                assert(buffer@.reverse() =~= b2);
                assert(selection(buffer@.reverse(), all, idx));
                assert(b2.len() == (if all.len() < limit { all.len() } else { limit as nat }));
                if cmp_ok::<T, F>(f0) {
                    assert(sorted_by(sorted1, f0));
                    assert(sorted_by(b2, f0)) by { assert forall|i: int, j: int| 0 <= i <= j < b2.len() implies le_by(f0, #[trigger] b2[i], #[trigger] b2[j]) by { assert(b2[i] == sorted1[i] && b2[j] == sorted1[j]); } }
                }
            }
            *done = true;
        }
        proof {
            let b = buffer@;
            if b.len() > 0 {
                assert(seq![b.last()] + b.drop_last().reverse() =~= b.reverse());
                assert(b.drop_last().reverse() =~= b.reverse().skip(1));
                assert(b.subrange(0, b.len() - 1) =~= b.drop_last());
                assert(seq![b.last()] + b.subrange(0, b.len() - 1).reverse() =~= b.reverse());
                assert(b.last() == b[b.len() - 1]);
            } else {
                assert(b.reverse() =~= Seq::<T>::empty());
                assert(Seq::<T>::empty() + b.reverse() =~= b.reverse());
            }
            if !was_done {
                assert(selection(b.reverse(), all, idx));
                assert(b.reverse().len() == (if all.len() < limit { all.len() } else { limit as nat }));
                lemma_first_call(b, all, idx, limit);
                if cmp_ok::<T, F>(f0) {
                    assert(sorted_by(b.reverse(), f0));
                    assert forall|i: int| 0 <= i < all.len() && !#[trigger] idx.contains(i) && b.len() > 0 implies le_by(f0, b.reverse().last(), all[i]) by {
                        if limit > 0 {
                            assert(thr is Some);
                            assert(thr->0 == b.reverse().last());
                        }
                    }
                    lemma_first_call_ord(b, all, idx, f0);
                }
            }
        }
        buffer.pop()
    }
}
// @item rust/core/src/utils/limitsort.rs :: traitimpl LimitSort for I
impl<I: Iterator> LimitSort for I {}
// ---- LS-sel for the collected result.  `ITEMS.into_iter().limit_sort_unstable(limit, cmp).collect::<Vec<_>>()` spelled out with the
// repository's constructor and next(): collecting into a Vec is the loop that pushes what next() returns until it returns None.
// (In units grams / store / search the call `limit_sort_all(items, limit, cmp)` that rule R30 leaves in place of the selection
// stage carries exactly this contract.)
pub fn limit_sort_all<T, F: FnMut(&T, &T) -> Ordering>(items: Vec<T>, limit: usize, cmp: F) -> (r: Vec<T>)
    requires limit <= 0x7fff_ffff_ffff_ffff,
    ensures r@.len() == (if items@.len() < limit { items@.len() } else { limit as nat }), // [LSsel]
        exists|idx: Seq<int>| selection(r@, items@, idx), // [LSsel]
        // LS-ord: for a comparator that is a total preorder the result is in its order and no item left out is before the last one
        cmp_ok::<T, F>(cmp) ==> ord_sel(r@, items@, cmp), // [LSord]
{
    let ghost all = items@;
    let ghost f0 = cmp;
    let mut it = items.into_iter().limit_sort_unstable(limit, cmp);
    let mut out: Vec<T> = Vec::new();
    let first = it.next();
    let ghost full: Seq<T> = if first is Some { seq![first->0] + it.pending() } else { it.pending() };
    match first {
        Some(x) => { out.push(x); }
        None => { proof { assert(it.pending() =~= Seq::<T>::empty()); } return out; }
    }
    loop
        invariant it.ready(), it.done, out@ + it.pending() =~= full, sel_len(full, all, limit), cmp_ok::<T, F>(f0) ==> ord_sel(full, all, f0),
        ensures out@ =~= full,
        decreases it.pending().len(),
    {
        match it.next() {
            Some(x) => { out.push(x); }
            None => { break; }
        }
    }
    out
}
