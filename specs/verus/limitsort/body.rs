// ======================================================================= the bounded top-k adapter (C06 C12 C18 ...): LS-sel proved
// The comparator is an opaque FnMut; sorting is the std sort (R33) with its documented contract: a permutation of the buffer.
pub open spec fn is_perm(p: Seq<int>, n: int) -> bool { p.len() == n && p.no_duplicates() && forall|k: int| 0 <= k < n ==> 0 <= #[trigger] p[k] < n }
pub open spec fn permuted<T>(pre: Seq<T>, post: Seq<T>, p: Seq<int>) -> bool {
    is_perm(p, pre.len() as int) && post.len() == pre.len() && forall|k: int| 0 <= k < pre.len() ==> post[k] == pre[#[trigger] p[k]]
}
// R33: V.sort_by(|x, y| F(x, y)) / V.sort_unstable_by(..)
#[verifier::external_body]
fn vsort_by<T, F: FnMut(&T, &T) -> Ordering>(v: &mut Vec<T>, f: &mut F)
    ensures exists|p: Seq<int>| permuted(old(v)@, final(v)@, p),
{ v.sort_by(|x, y| f(x, y)) }
#[verifier::external_body]
fn vsort_unstable_by<T, F: FnMut(&T, &T) -> Ordering>(v: &mut Vec<T>, f: &mut F)
    ensures exists|p: Seq<int>| permuted(old(v)@, final(v)@, p),
{ v.sort_unstable_by(|x, y| f(x, y)) }
// <[T]>::reverse (documented behaviour)
pub assume_specification<T>[ <[T]>::reverse ](s: &mut [T])
    ensures final(s)@ == old(s)@.reverse();
// buffer entries with their provenance: entry k is item idx[k] of `all`, no item twice, only items among the first `consumed`
pub open spec fn prov<T>(buf: Seq<T>, all: Seq<T>, idx: Seq<int>, consumed: int) -> bool {
    idx.len() == buf.len() && idx.no_duplicates() && forall|k: int| 0 <= k < buf.len() ==> 0 <= #[trigger] idx[k] < consumed && buf[k] == all[idx[k]]
}
pub open spec fn perm_idx(idx: Seq<int>, p: Seq<int>) -> Seq<int> { Seq::new(idx.len(), |k: int| idx[p[k]]) }
proof fn lemma_prov_perm<T>(pre: Seq<T>, post: Seq<T>, p: Seq<int>, all: Seq<T>, idx: Seq<int>, consumed: int)
    requires prov(pre, all, idx, consumed), permuted(pre, post, p),
    ensures prov(post, all, perm_idx(idx, p), consumed),
{
    let idx2 = perm_idx(idx, p);
    assert forall|a: int, b: int| 0 <= a < idx2.len() && 0 <= b < idx2.len() && a != b implies idx2[a] != idx2[b] by { assert(p[a] != p[b]); }
}
// @item rust/core/src/utils/limitsort.rs :: trait LimitSort
pub trait LimitSort: Iterator + Sized {
    fn limit_sort<F>(self, limit: usize, sort_fn: F) -> (ret: LimitSortIter<Self::Item, Self, F>)
    where
        F: (FnMut(&Self::Item, &Self::Item) -> Ordering),
        requires limit <= 0x7fff_ffff_ffff_ffff, self.obeys_prophetic_iter_laws(), self.decrease() is Some,
        ensures ret.ready(), !ret.done, ret.limit == limit, ret.source == self,
    {
        LimitSortIter { sort_fn, source: self, buffer: Vec::with_capacity(limit * 2), limit, stable: true, done: false }
    }
    fn limit_sort_unstable<F>(self, limit: usize, sort_fn: F) -> (ret: LimitSortIter<Self::Item, Self, F>)
    where
        F: (FnMut(&Self::Item, &Self::Item) -> Ordering),
        requires limit <= 0x7fff_ffff_ffff_ffff, self.obeys_prophetic_iter_laws(), self.decrease() is Some,
        ensures ret.ready(), !ret.done, ret.limit == limit, ret.source == self,
    {
        LimitSortIter { sort_fn, source: self, buffer: Vec::with_capacity(limit * 2), limit, stable: false, done: false }
    }
}
// what the first call of next() returns and leaves pending, against the source's items `all`
pub open spec fn sel_len<T>(full: Seq<T>, all: Seq<T>, limit: usize) -> bool {
    full.len() == (if all.len() < limit { all.len() } else { limit as nat }) && exists|idx: Seq<int>| selection(full, all, idx)
}
pub open spec fn first_call_post<T>(ret: Option<T>, buf: Seq<T>, all: Seq<T>, limit: usize) -> bool {
    match ret { Some(x) => sel_len(seq![x] + buf.reverse(), all, limit), None => sel_len(buf.reverse(), all, limit) }
}
proof fn lemma_first_call<T>(b: Seq<T>, all: Seq<T>, idx: Seq<int>, limit: usize)
    requires selection(b.reverse(), all, idx), b.reverse().len() == (if all.len() < limit { all.len() } else { limit as nat }),
    ensures b.len() > 0 ==> first_call_post(Some(b[b.len() - 1]), b.subrange(0, b.len() - 1), all, limit),
        b.len() == 0 ==> first_call_post(None::<T>, b, all, limit),
{
    if b.len() > 0 {
        let full = seq![b[b.len() - 1]] + b.subrange(0, b.len() - 1).reverse();
        assert(full =~= b.reverse());
        assert(selection(full, all, idx));
        assert(sel_len(full, all, limit));
    } else {
        assert(sel_len(b.reverse(), all, limit));
    }
}
#[verifier::reject_recursive_types(T)]
// @item rust/core/src/utils/limitsort.rs :: struct LimitSortIter
pub struct LimitSortIter<T, I, F>
where
    I: Iterator<Item = T>,
    F: FnMut(&T, &T) -> Ordering,
{
    pub sort_fn: F,
    pub source: I,
    pub buffer: Vec<T>,
    pub limit: usize,
    pub stable: bool,
    pub done: bool,
}
impl<T, I, F> LimitSortIter<T, I, F>
where
    I: Iterator<Item = T>,
    F: FnMut(&T, &T) -> Ordering,
{
    // the items still to be handed out, in order (the buffer is kept reversed and popped from the end)
    pub open spec fn pending(&self) -> Seq<T> { self.buffer@.reverse() }
    pub open spec fn ready(&self) -> bool {
        self.source.obeys_prophetic_iter_laws() && self.source.decrease() is Some && self.limit <= 0x7fff_ffff_ffff_ffff && (!self.done ==> self.buffer@.len() == 0)
    }
}
// @item rust/core/src/utils/limitsort.rs :: impl Iterator for LimitSortIter::{next}
impl<T, I, F> LimitSortIter<T, I, F>
where
    I: Iterator<Item = T>,
    F: FnMut(&T, &T) -> Ordering,
{
    fn next(&mut self) -> (ret: Option<T>)
        requires old(self).ready(),
        ensures final(self).ready(), final(self).done, final(self).limit == old(self).limit, ret is None ==> final(self).buffer@.len() == 0,
            // LS-sel: the first call drains the source; what it returns and leaves pending is a selection of min(n, limit) of the
            // source's items at pairwise different positions
            !old(self).done ==> first_call_post(ret, final(self).buffer@, old(self).source.remaining(), old(self).limit),
            // afterwards the pending items are handed out one by one
            old(self).done ==> (old(self).pending().len() > 0 ==> ret == Some(old(self).pending()[0]) && final(self).pending() == old(self).pending().skip(1))
                && (old(self).pending().len() == 0 ==> ret is None && final(self).pending().len() == 0),
    {
        let Self { buffer, source, sort_fn, done, .. } = self;
        let limit = self.limit;
        let stable = self.stable;
        let ghost all = source.remaining();
        let ghost mut consumed: int = 0;
        let ghost mut idx: Seq<int> = Seq::empty();
        let ghost was_done = *done;
        if !*done {
            loop
                invariant source.obeys_prophetic_iter_laws(), source.decrease() is Some, limit <= 0x7fff_ffff_ffff_ffff,
                    0 <= consumed <= all.len(), source.remaining() == all.skip(consumed),
                    prov(buffer@, all, idx, consumed),
                    buffer@.len() <= consumed, buffer@.len() >= (if consumed < limit { consumed } else { limit as int }),
                ensures consumed == all.len(),
                decreases source.decrease().unwrap(),
            {
                match source.next() {
                    Some(item) => {
                        buffer.push(item);
                        proof {
                            assert(item == all[consumed]);
                            idx = idx.push(consumed);
                            consumed = consumed + 1;
                            assert(all.skip(consumed - 1).drop_first() =~= all.skip(consumed));
                            assert(prov(buffer@, all, idx, consumed)) by {
                                assert forall|a: int, b: int| 0 <= a < idx.len() && 0 <= b < idx.len() && a != b implies idx[a] != idx[b] by {
                                    if a == idx.len() - 1 { assert(idx[b] < consumed - 1); } else if b == idx.len() - 1 { assert(idx[a] < consumed - 1); } else { assert(idx.drop_last()[a] != idx.drop_last()[b]); }
                                }
                            }
                        }
                        if buffer.len() >= limit * 2 {
                            let ghost pre0 = buffer@;
                            if stable {
                                vsort_by(buffer, sort_fn);
                            } else {
                                vsort_unstable_by(buffer, sort_fn);
                            };
                            proof {
                                let p = choose|p: Seq<int>| permuted(pre0, buffer@, p);
                                lemma_prov_perm(pre0, buffer@, p, all, idx, consumed);
                                idx = perm_idx(idx, p);
                            }
                            buffer.truncate(limit);
                            proof { idx = idx.take(limit as int); }
                        }
                    }
                    _ => {
                        break;
                    }
                }
            }
            let ghost pre1 = buffer@;
            if stable {
                vsort_by(buffer, sort_fn);
            } else {
                vsort_unstable_by(buffer, sort_fn);
            };
            proof {
                let p = choose|p: Seq<int>| permuted(pre1, buffer@, p);
                lemma_prov_perm(pre1, buffer@, p, all, idx, consumed);
                idx = perm_idx(idx, p);
            }
            buffer.truncate(limit);
            proof { if limit < idx.len() { idx = idx.take(limit as int); } }
            let ghost b2 = buffer@;
            buffer.reverse();
            proof {
                assert(buffer@.reverse() =~= b2);
                assert(selection(buffer@.reverse(), all, idx));
                assert(b2.len() == (if all.len() < limit { all.len() } else { limit as nat }));
            }
            *done = true;
        }
        proof {
            let b = buffer@;
            if b.len() > 0 {
                assert(seq![b.last()] + b.drop_last().reverse() =~= b.reverse());
                assert(b.drop_last().reverse() =~= b.reverse().skip(1));
                assert(b.subrange(0, b.len() - 1) =~= b.drop_last());
                assert(seq![b.last()] + b.subrange(0, b.len() - 1).reverse() =~= b.reverse());
                assert(b.last() == b[b.len() - 1]);
            } else {
                assert(b.reverse() =~= Seq::<T>::empty());
                assert(Seq::<T>::empty() + b.reverse() =~= b.reverse());
            }
            if !was_done {
                assert(selection(b.reverse(), all, idx));
                assert(b.reverse().len() == (if all.len() < limit { all.len() } else { limit as nat }));
                lemma_first_call(b, all, idx, limit);
            }
        }
        buffer.pop()
    }
}
// @item rust/core/src/utils/limitsort.rs :: traitimpl LimitSort for I
impl<I: Iterator> LimitSort for I {}
// ---- LS-sel for the collected result.  `ITEMS.into_iter().limit_sort_unstable(limit, cmp).collect::<Vec<_>>()` spelled out with the
// repository's constructor and next(): collecting into a Vec is the loop that pushes what next() returns until it returns None.
// (In units grams / store / search the call `limit_sort_all(items, limit, cmp)` that rule R30 leaves in place of the selection
// stage carries exactly this contract.)
pub fn limit_sort_all<T, F: FnMut(&T, &T) -> Ordering>(items: Vec<T>, limit: usize, cmp: F) -> (r: Vec<T>)
    requires limit <= 0x7fff_ffff_ffff_ffff,
    ensures r@.len() == (if items@.len() < limit { items@.len() } else { limit as nat }), // [LSsel]
        exists|idx: Seq<int>| selection(r@, items@, idx), // [LSsel]
{
    let ghost all = items@;
    let mut it = items.into_iter().limit_sort_unstable(limit, cmp);
    let mut out: Vec<T> = Vec::new();
    let first = it.next();
    let ghost full: Seq<T> = if first is Some { seq![first->0] + it.pending() } else { it.pending() };
    match first {
        Some(x) => { out.push(x); }
        None => { proof { assert(it.pending() =~= Seq::<T>::empty()); } return out; }
    }
    loop
        invariant it.ready(), it.done, out@ + it.pending() =~= full, sel_len(full, all, limit),
        ensures out@ =~= full,
        decreases it.pending().len(),
    {
        match it.next() {
            Some(x) => { out.push(x); }
            None => { break; }
        }
    }
    out
}
