// @item rust/core/src/store/record.rs :: struct Record
pub struct Record {
    pub ix: usize,
    pub id: usize,
    pub title: TextOwn,
    pub rating: usize,
}
// @item rust/core/src/store/mod.rs :: static DEFAULT_LIMIT
pub const DEFAULT_LIMIT: usize = 10;
// @item rust/core/src/store/trigram_index.rs :: struct TrigramIndex
pub struct TrigramIndex {
    pub len: usize,
    pub dict: HashMap<[char; 3], Vec<usize>>,
    pub counts: Vec<usize>,
}
// @item rust/core/src/store/store.rs :: struct Store
pub struct Store {
    pub next_ix: usize,
    pub records: Vec<Record>,
    pub limit: usize,
    pub lang: Lang,
    pub dividers: (Vec<char>, Vec<char>),
    pub index: TrigramIndex,
    pub top_ixs: Option<(usize, Vec<usize>)>,
}
// @item rust/core/src/store/store.rs :: impl Store::{dividers}
impl Store {
    pub fn dividers<'a>(&'a self) -> (ret: (&'a [char], &'a [char]))
        ensures ret.0@ == self.dividers.0@, ret.1@ == self.dividers.1@,
    {
        (&self.dividers.0, &self.dividers.1)
    }
}
// @item rust/core/src/tokenization/text.rs :: impl TextOwn::{to_ref}
impl TextOwn {
    pub fn to_ref<'a>(&'a self) -> (ret: TextRef<'a>)
        ensures ret.words@ == self.words@, ret.source@ == self.source@, ret.chars@ == self.chars@, ret.classes@ == self.classes@,
    {
        TextRef { words: &self.words, source: &self.source, chars: &self.chars, classes: &self.classes }
    }
}
// @item rust/core/src/search/result.rs :: struct SearchResult
pub struct SearchResult {
    pub id: usize,
    pub title: String,
}
