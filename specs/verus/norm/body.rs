// ======================================================================= U6: normalisation (C15, C02b, C01, C11)
// R14: external type (rust_stemmers::Stemmer) replaced by an opaque placeholder
#[verifier::external_body]
pub struct OpaqueStemmer { _p: core::marker::PhantomData<()> }
// R3: slice comparison
#[verifier::external_body]
fn slice_eq(a: &[char], b: &[char]) -> (r: bool) ensures r == (a@ == b@) { a == b }
pub open spec fn not_nul() -> spec_fn(char) -> bool { |c: char| c != '\0' }
proof fn lemma_filter_add(a: Seq<char>, b: Seq<char>, p: spec_fn(char) -> bool)
    ensures (a + b).filter(p) == a.filter(p) + b.filter(p)
    decreases b.len()
{
    reveal(Seq::filter);
    if b.len() == 0 { assert(a + b =~= a); assert(a.filter(p) + b.filter(p) =~= a.filter(p)); }
    else {
        lemma_filter_add(a, b.drop_last(), p);
        assert((a + b).drop_last() =~= a + b.drop_last());
        assert((a + b).last() == b.last());
        if p(b.last()) { assert(a.filter(p) + b.drop_last().filter(p).push(b.last()) =~= (a.filter(p) + b.drop_last().filter(p)).push(b.last())); }
    }
}
proof fn lemma_filter_push_nul(a: Seq<char>)
    ensures a.push('\0').filter(not_nul()) == a.filter(not_nul())
{ reveal(Seq::filter); assert(a.push('\0').drop_last() =~= a); }
// @item rust/core/src/utils/fading_windows.rs :: struct FadingWindows
pub struct FadingWindows<'a> {
    pub v: &'a [char],
    pub size: usize,
}
impl<'a> FadingWindows<'a> {
    pub open spec fn wf(&self) -> bool { self.size >= 1 || self.v@.len() == 0 }
}
// @item rust/core/src/utils/fading_windows.rs :: impl FadingWindows::{new}
impl<'a> FadingWindows<'a> {
    pub fn new(v: &'a [char], size: usize) -> (ret: Self)
        // C01: the panic "zero window size with nonempty slice" is an obligation on the caller
        requires !(size == 0 && v@.len() > 0),
        ensures ret.v@ == v@, ret.size == size, ret.wf(),
    {
        if size == 0 && v.len() > 0 {
            return vpanic();
        }
        Self { v, size }
    }
}
// @item rust/core/src/utils/fading_windows.rs :: impl Iterator for FadingWindows::{next}
impl<'a> FadingWindows<'a> {
    fn next(&mut self) -> (ret: Option<&'a [char]>)
        requires old(self).wf(),
        ensures final(self).wf(), final(self).size == old(self).size,
            old(self).v@.len() == 0 ==> ret is None && final(self).v@ == old(self).v@,
            old(self).v@.len() > 0 ==> (ret matches Some(w) && w@ == old(self).v@.take(imin(old(self).size as int, old(self).v@.len() as int))) && final(self).v@ == old(self).v@.skip(1),
    {
        if self.v.len() == 0 {
            None
        } else {
            let window = Some(&self.v[..vmin(self.size, self.v.len())]);
            self.v = &self.v[1..];
            window
        }
    }
}
// @item rust/core/src/lang/normalize.rs :: const NORM_MAX_PATTERN_LEN
pub const NORM_MAX_PATTERN_LEN: usize = 2;
// @item rust/core/src/lang/normalize.rs :: struct Normalize
pub struct Normalize<'a> {
    pub windows: FadingWindows<'a>,
    pub map: &'a HashMap<Vec<char>, Vec<char>>,
    pub skip: usize,
}
//@include ../common/vecmap.rs
impl<'a> Normalize<'a> {
    pub open spec fn wf(&self) -> bool { self.windows.size == 2 && (self.skip <= self.windows.v@.len() || self.windows.v@.len() == 0) }
    // the part of the source not yet covered by a returned chunk
    pub open spec fn remaining(&self) -> Seq<char> { if self.skip <= self.windows.v@.len() { self.windows.v@.skip(self.skip as int) } else { Seq::<char>::empty() } }
}
// @item rust/core/src/lang/normalize.rs :: impl Normalize::{new}
impl<'a> Normalize<'a> {
    pub fn new(source: &'a [char], map: &'a HashMap<Vec<char>, Vec<char>>) -> (ret: Self)
        ensures ret.wf(), ret.remaining() == source@, ret.map == map,
    {
        Self { windows: FadingWindows::new(source, NORM_MAX_PATTERN_LEN), map, skip: 0 }
    }
}
// @item rust/core/src/lang/normalize.rs :: impl Iterator for Normalize::{next}
impl<'a> Normalize<'a> {
    fn next(&mut self) -> (ret: Option<(&'a [char], &'a [char])>)
        // "longest pattern first over a two-character window": the chunks tile the source
        requires old(self).wf(),
        ensures final(self).wf(), final(self).map == old(self).map,
            old(self).remaining().len() == 0 ==> ret is None,
            old(self).remaining().len() > 0 ==> (ret matches Some(pr) && 1 <= pr.0@.len() <= 2 && pr.0@.len() <= old(self).remaining().len() && pr.0@ == old(self).remaining().take(pr.0@.len() as int)
                && final(self).remaining() == old(self).remaining().skip(pr.0@.len() as int)
                && (pr.1@ == pr.0@ || map_has(old(self).map, pr.0@, pr.1@))),
            // C02 / C11: WHICH chunk: the longest pattern of the map at the front of the remaining text, else the character itself
            old(self).remaining().len() > 0 ==> (ret matches Some(pr) && pr.0@.len() == norm_step(old(self).map, old(self).remaining()).0 && pr.1@ == norm_step(old(self).map, old(self).remaining()).1), // [C02 C10 C11]
            final(self).windows.v@.len() < old(self).windows.v@.len() || ret is None,
    {
        let mut window = self.windows.next()?;
        let ghost v0 = old(self).windows.v@;
        let ghost k0 = old(self).skip as int;
        while self.skip > 0
            invariant self.windows.wf(), self.windows.size == 2, self.map == old(self).map, 0 <= self.skip <= k0, v0.len() > 0,
                v0 == old(self).windows.v@, k0 == old(self).skip, k0 <= v0.len(),
                self.windows.v@ == v0.skip(k0 - self.skip + 1), k0 - self.skip < v0.len(),
                window@ == v0.skip(k0 - self.skip as int).take(imin(2, v0.len() - (k0 - self.skip as int))),
            decreases self.skip,
        {
            proof { if self.windows.v@.len() == 0 { assert(old(self).remaining().len() == 0); } }
            window = self.windows.next()?;
            self.skip -= 1;
        }
        let __lo0 = 1;
        let __hi0 = window.len() + 1;
        let mut __len0 = __hi0;
        while __len0 > __lo0
            invariant __lo0 == 1, __hi0 == window@.len() + 1, 1 <= __len0 <= __hi0, self.windows.wf(), self.windows.size == 2, self.map == old(self).map, self.skip == 0,
                v0 == old(self).windows.v@, k0 == old(self).skip, k0 <= v0.len(),
                k0 < v0.len(), self.windows.v@ == v0.skip(k0 + 1), window@ == v0.skip(k0).take(imin(2, v0.len() - k0)),
                forall|l: int| __len0 <= l < __hi0 ==> !has_key_chars(self.map, #[trigger] window@.take(l)), // [C02 C10 C11]
            decreases __len0,
        {
            __len0 -= 1;
            let len = __len0;
            let pattern = &window[..len];
            if let Some(replace) = self.map.get(pattern) {
                self.skip = pattern.len() - 1;
                proof {
                    let rem = v0.skip(k0);
                    assert(map_has(self.map, pattern@, replace@));
                    lemma_mlook(self.map, pattern@, replace@);
                    assert(window@.take(__len0 as int) =~= rem.take(__len0 as int));
                    if __len0 == 1 && rem.len() >= 2 { assert(window@.take(2) =~= rem.take(2)); assert(!has_key_chars(self.map, window@.take(2))); }
                    assert(old(self).remaining() =~= v0.skip(k0));
                    assert(pattern@ =~= v0.skip(k0).take(__len0 as int));
                    assert(self.windows.v@.skip(self.skip as int) =~= v0.skip(k0).skip(__len0 as int));
                }
                return Some((pattern, replace));
            }
        }
        proof {
            let rem = v0.skip(k0);
            assert(window@.take(1) =~= rem.take(1));
            assert(!has_key_chars(self.map, window@.take(1)));
            if rem.len() >= 2 { assert(window@.take(2) =~= rem.take(2)); assert(!has_key_chars(self.map, window@.take(2))); }
            assert(old(self).remaining() =~= v0.skip(k0));
            assert(window@.take(1) =~= v0.skip(k0).take(1));
            assert(self.windows.v@.skip(0) =~= v0.skip(k0).skip(1));
        }
        Some((&window[..1], &window[..1]))
    }
}
// @item rust/core/src/lang/lang.rs :: const BUFFER_CAPACITY
pub const BUFFER_CAPACITY: usize = 20;
impl Lang {
    pub open spec fn sp_class(&self, c: char) -> Option<CharClass> { if self.char_map@.contains_key(c) { Some(self.char_map@[c]) } else { None } }
    // C01 (padding loop): every reduction maps its pattern to at least as many characters (table lemma T1 per language)
    pub open spec fn wf(&self) -> bool {
        forall|k: Vec<char>| self.reduce_map@.contains_key(k) ==> (#[trigger] self.reduce_map@[k])@.len() >= k@.len()
    }
}
// @item rust/core/src/lang/lang.rs :: struct Lang
pub struct Lang {
    pub stemmer: Option<OpaqueStemmer>,
    pub char_map: HashMap<char, CharClass>,
    pub pos_map: HashMap<Vec<char>, PartOfSpeech>,
    pub compose_map: HashMap<Vec<char>, Vec<char>>,
    pub reduce_map: HashMap<Vec<char>, Vec<char>>,
    pub stem_buffer: String,
    pub norm_buffer1: Vec<char>,
    pub norm_buffer2: Vec<char>,
}
// @item rust/core/src/lang/lang.rs :: impl Lang::{get_pos,get_char_class,unicode_compose,unicode_reduce}
impl Lang {
    pub fn get_pos(&self, word: &[char]) -> (ret: Option<PartOfSpeech>)
    {
        self.pos_map.get(word).cloned()
    }
    pub fn get_char_class(&self, ch: char) -> (ret: Option<CharClass>)
        ensures ret == self.sp_class(ch),
    {
        self.char_map.get(&ch).cloned()
    }
    pub fn unicode_compose(&mut self, word: &[char]) -> (ret: Option<Vec<char>>)
        ensures final(self).reduce_map == old(self).reduce_map, final(self).compose_map == old(self).compose_map, final(self).pos_map == old(self).pos_map, final(self).char_map == old(self).char_map,
            ret matches Some(v) ==> v@ != word@,
            // C02 / C11: the composed text is the normalisation of the input under the composition table; None when nothing changes
            ret matches Some(v) ==> v@ == norm_seq(&old(self).compose_map, word@), // [C02 C10 C11]
            ret is None ==> norm_seq(&old(self).compose_map, word@) == word@, // [C02 C10 C11]
    {
        let buffer = &mut self.norm_buffer1;
        buffer.clear();
        let mut __it0 = Normalize::new(word, &self.compose_map);
        let ghost cmap = self.compose_map;
        let ghost mut n: int = 0;
        proof { assert(word@.skip(0) =~= word@); }
        loop
            invariant_except_break word@.skip(n) == __it0.remaining(),
            invariant __it0.wf(), __it0.map == &cmap, cmap == old(self).compose_map, 0 <= n <= word@.len(),
                norm_seq(&cmap, word@) == buffer@ + norm_seq(&cmap, word@.skip(n)), // [C02 C10 C11]
            ensures n == word@.len(),
            decreases __it0.windows.v@.len(),
        {
            let ghost rem0 = __it0.remaining();
            let ghost buf0 = buffer@;
            match __it0.next() {
                Some((_, norm_chunk)) => {
                    buffer.extend(norm_chunk);
                    proof {
                        let st = norm_step(&cmap, rem0);
                        assert(norm_seq(&cmap, rem0) == st.1 + norm_seq(&cmap, rem0.skip(st.0)));
                        assert(rem0.skip(st.0) =~= word@.skip(n + st.0));
                        assert(buf0 + (st.1 + norm_seq(&cmap, word@.skip(n + st.0))) =~= (buf0 + st.1) + norm_seq(&cmap, word@.skip(n + st.0)));
                        n = n + st.0;
                    }
                }
                None => {
                    proof { assert(rem0.len() == 0); assert(n == word@.len()); assert(norm_seq(&cmap, word@.skip(n)) =~= Seq::<char>::empty()); assert(buffer@ + Seq::<char>::empty() =~= buffer@); }
                    break;
                }
            }
        }
        proof { assert(buffer@ =~= buffer@.subrange(0, buffer@.len() as int)); }
        if slice_eq(&buffer[..], word) {
            None
        } else {
            Some(buffer.clone())
        }
    }
    pub fn unicode_reduce(&mut self, word: &[char]) -> (ret: Option<(Vec<char>, Vec<char>)>)
        requires old(self).wf(),
        ensures final(self).reduce_map == old(self).reduce_map, final(self).compose_map == old(self).compose_map, final(self).pos_map == old(self).pos_map, final(self).char_map == old(self).char_map,
            // C15 / C02(b): source and normalised text stay position-aligned; removing the NUL padding gives back the input
            ret matches Some(p) ==> p.0@.len() == p.1@.len(), // [C15 C02 C01]
            ret matches Some(p) ==> p.1@ != word@ && p.0@.filter(not_nul()) == word@.filter(not_nul()),
            // C02 / C11: the normalised text is the normalisation of the input under the reduction table; None when nothing changes
            ret matches Some(p) ==> p.1@ == norm_seq(&old(self).reduce_map, word@), // [C02 C10 C11]
            ret is None ==> norm_seq(&old(self).reduce_map, word@) == word@, // [C02 C10 C11]
    {
        let buffer1 = &mut self.norm_buffer1;
        let buffer2 = &mut self.norm_buffer2;
        buffer1.clear();
        buffer2.clear();
        let mut __it0 = Normalize::new(word, &self.reduce_map);
        let ghost rmap = self.reduce_map;
        let ghost mut n: int = 0;
        proof { assert(word@.skip(0) =~= word@); assert(word@.take(0).filter(not_nul()) =~= Seq::<char>::empty()) by { reveal(Seq::filter); } }
        loop
            invariant_except_break word@.skip(n) == __it0.remaining(),
            invariant __it0.wf(), __it0.map == &rmap, rmap == old(self).reduce_map, old(self).wf(),
                buffer1@.len() == buffer2@.len(), // [C15 C02 C01]
                0 <= n <= word@.len(), buffer1@.filter(not_nul()) == word@.take(n).filter(not_nul()),
                norm_seq(&rmap, word@) == buffer2@ + norm_seq(&rmap, word@.skip(n)), // [C02 C10 C11]
            ensures n == word@.len(), norm_seq(&rmap, word@) == buffer2@,
            decreases __it0.windows.v@.len(),
        {
            let ghost rem0 = __it0.remaining();
            match __it0.next() {
                Some((word_chunk, norm_chunk)) => {
                    let ghost b1 = buffer1@;
                    let ghost b2 = buffer2@;
                    let ghost l = word_chunk@.len() as int;
                    proof {
                        assert(rem0 == word@.skip(n)); assert(l <= rem0.len());
                        assert(word_chunk@ =~= word@.subrange(n, n + l));
                        if norm_chunk@ != word_chunk@ {
                            let k = choose|k: Vec<char>| rmap@.contains_key(k) && k@ == word_chunk@ && (#[trigger] rmap@[k])@ == norm_chunk@;
                            assert(rmap@[k]@.len() >= k@.len());
                        }
                    }
                    buffer1.extend(word_chunk);
                    buffer2.extend(norm_chunk);
                    let __end1 = norm_chunk.len() - word_chunk.len();
                    for __k1 in 0..__end1
                        invariant buffer1@ == (b1 + word_chunk@) + Seq::new(__k1 as nat, |t: int| '\0'), buffer2@.len() == b1.len() + norm_chunk@.len(), __end1 == norm_chunk@.len() - word_chunk@.len(), // [C15 C02 C01]
                            (b1 + word_chunk@).filter(not_nul()) == buffer1@.filter(not_nul()), // [C15 C02]
                    {
                        buffer1.push('\0');
                            proof {
                                lemma_filter_push_nul((b1 + word_chunk@) + Seq::new(__k1 as nat, |t: int| '\0'));
                                assert(((b1 + word_chunk@) + Seq::new(__k1 as nat, |t: int| '\0')).push('\0') =~= (b1 + word_chunk@) + Seq::new((__k1 + 1) as nat, |t: int| '\0'));
                            }
                    }
                    proof {
                        lemma_filter_add(b1, word_chunk@, not_nul());
                        lemma_filter_add(word@.take(n), word@.subrange(n, n + l), not_nul());
                        assert(word@.take(n) + word@.subrange(n, n + l) =~= word@.take(n + l));
                        assert(word@.skip(n).skip(l) =~= word@.skip(n + l));
                        let st = norm_step(&rmap, rem0);
                        assert(norm_seq(&rmap, rem0) == st.1 + norm_seq(&rmap, rem0.skip(st.0)));
                        assert(b2 + (st.1 + norm_seq(&rmap, word@.skip(n + l))) =~= (b2 + st.1) + norm_seq(&rmap, word@.skip(n + l)));
                        n = n + l;
                    }
                }
                None => {
                    break;
                }
            }
        }
        proof { assert(buffer2@ =~= buffer2@.subrange(0, buffer2@.len() as int)); assert(word@.take(n) =~= word@); }
        if slice_eq(&buffer2[..], word) {
            None
        } else {
            Some((buffer1.clone(), buffer2.clone()))
        }
    }
}
