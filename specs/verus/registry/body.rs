// ======================================================================= the top-level registry (C20)
// @item rust/core/src/search/result.rs :: struct SearchResult
pub struct SearchResult {
    pub id: usize,
    pub title: String,
}
// R2: the two thread-local maps of lib.rs become fields of a parameter
pub struct Reg { pub STORES: HashMap<usize, Store>, pub RESULTS: HashMap<usize, Vec<SearchResult>> }
// ---- opaque callees: what a search returns is an (uninterpreted) function of the store and the query text — the registry
// contract below holds for ANY such function; tokenisation and scoring are covered by the other units
pub uninterp spec fn tok_spec(source: Seq<char>, lang: &Lang) -> TextOwn;
pub uninterp spec fn search_spec(store: &Store, query: &TextOwn) -> Seq<SearchResult>;
#[verifier::external_body]
pub fn tokenize_query(source: &str, lang: &Lang) -> (r: TextOwn) ensures r == tok_spec(source@, lang) { unimplemented!() }
impl Store {
    #[verifier::external_body]
    pub fn search(&self, query: &TextRef) -> (r: Vec<SearchResult>)
        ensures forall|q: &TextOwn| q.words@ == query.words@ && q.chars@ == query.chars@ && q.source@ == query.source@ && q.classes@ == query.classes@ ==> r@ == #[trigger] search_spec(self, q),
    { unimplemented!() }
}
impl Record {
    #[verifier::external_body]
    pub fn new(id: usize, source: &str, rating: usize, lang: &Lang) -> (r: Record)
        // assumed (proved for the tokeniser in unit tok, C15): the title's words lie inside its character array
        ensures r.id == id, r.rating == rating, text_ok_s(r.title.words@, r.title.chars@.len() as int),
    { unimplemented!() }
}
impl Reg {
    // C20: the two maps have the same key set and every store is coherent (C10)
    pub open spec fn inv(&self) -> bool {
        self.STORES@.dom() == self.RESULTS@.dom() && forall|id: usize| self.STORES@.contains_key(id) ==> (#[trigger] self.STORES@[id]).coherent()
    }
    // every id other than `id` is untouched: its store and its result buffer
    pub open spec fn others_same(&self, old: &Reg, id: usize) -> bool {
        forall|j: usize| j != id ==> (self.STORES@.contains_key(j) == old.STORES@.contains_key(j)) && (self.RESULTS@.contains_key(j) == old.RESULTS@.contains_key(j))
            && (old.STORES@.contains_key(j) ==> #[trigger] self.STORES@[j] == old.STORES@[j]) && (old.RESULTS@.contains_key(j) ==> #[trigger] self.RESULTS@[j] == old.RESULTS@[j])
    }
}
// @item rust/core/src/lib.rs :: fn create_store
pub fn create_store(id: usize, lang: Lang, reg: &mut Reg)
    // valid calls only (no duplicate create): then neither "Duplicate store id" panic is reachable
    requires old(reg).inv(), !old(reg).STORES@.contains_key(id),
    ensures final(reg).inv(), final(reg).others_same(old(reg), id),
        final(reg).STORES@.contains_key(id) && final(reg).RESULTS@.contains_key(id),
        // a (re-)created id starts empty
        final(reg).STORES@[id].fresh() && final(reg).STORES@[id].limit == DEFAULT_LIMIT && final(reg).RESULTS@[id]@.len() == 0,
{
    {
        let cell = &mut reg.STORES;
        {
            let stores = &mut *cell;
            if stores.contains_key(&id) {
                return vpanic();
            }
            let mut store = Store::new();
            store.lang = lang;
            stores.insert(id, store);
        }
    };
    {
        let cell = &mut reg.RESULTS;
        {
            let buffers = &mut *cell;
            if buffers.contains_key(&id) {
                return vpanic();
            }
            buffers.insert(id, Vec::with_capacity(DEFAULT_LIMIT));
        }
    };
}
// @item rust/core/src/lib.rs :: fn destroy_store
pub fn destroy_store(id: usize, reg: &mut Reg)
    requires old(reg).inv(), old(reg).STORES@.contains_key(id),
    ensures final(reg).inv(), final(reg).others_same(old(reg), id), !final(reg).STORES@.contains_key(id) && !final(reg).RESULTS@.contains_key(id),
{
    {
        let cell = &mut reg.STORES;
        {
            let stores = &mut *cell;
            if !stores.contains_key(&id) {
                return vpanic();
            }
            stores.remove(&id);
        }
    };
    {
        let cell = &mut reg.RESULTS;
        {
            let buffers = &mut *cell;
            if !buffers.contains_key(&id) {
                return vpanic();
            }
            buffers.remove(&id);
        }
    };
}
// @item rust/core/src/lib.rs :: fn highlight_with
pub fn highlight_with(store_id: usize, separators: (&str, &str), reg: &mut Reg)
    requires old(reg).inv(), old(reg).STORES@.contains_key(store_id),
    ensures final(reg).inv(), final(reg).others_same(old(reg), store_id),
        // the result buffer is unaffected by a setting change on the same id
        final(reg).RESULTS@ == old(reg).RESULTS@,
        final(reg).STORES@.contains_key(store_id) && final(reg).STORES@[store_id].records@ == old(reg).STORES@[store_id].records@ && final(reg).STORES@[store_id].limit == old(reg).STORES@[store_id].limit,
        final(reg).STORES@[store_id].dividers.0@ == separators.0@ && final(reg).STORES@[store_id].dividers.1@ == separators.1@,
{
    {
        let store = reg.STORES.get_mut(&store_id).unwrap();
        {
            store.highlight_with(separators);
        }
    };
    proof {
        assert(reg.STORES@.dom() =~= old(reg).STORES@.dom());
        assert forall|j: usize| reg.STORES@.contains_key(j) implies (#[trigger] reg.STORES@[j]).coherent() by { if j != store_id { assert(reg.STORES@[j] == old(reg).STORES@[j]); } }
    }
}
// @item rust/core/src/lib.rs :: fn add_record
pub fn add_record(store_id: usize, record_id: usize, title: &str, rating: usize, reg: &mut Reg)
    requires old(reg).inv(), old(reg).STORES@.contains_key(store_id), old(reg).STORES@[store_id].records@.len() + 1 < 0x4000_0000,
    ensures final(reg).inv(), final(reg).others_same(old(reg), store_id),
        final(reg).RESULTS@ == old(reg).RESULTS@,
        final(reg).STORES@.contains_key(store_id) && final(reg).STORES@[store_id].records@.len() == old(reg).STORES@[store_id].records@.len() + 1
            && final(reg).STORES@[store_id].limit == old(reg).STORES@[store_id].limit && final(reg).STORES@[store_id].dividers == old(reg).STORES@[store_id].dividers,
{
    {
        let store = reg.STORES.get_mut(&store_id).unwrap();
        {
            store.add(Record::new(record_id, title, rating, &store.lang));
        }
    }
    proof {
        assert(reg.STORES@.dom() =~= old(reg).STORES@.dom());
        assert forall|j: usize| reg.STORES@.contains_key(j) implies (#[trigger] reg.STORES@[j]).coherent() by { if j != store_id { assert(reg.STORES@[j] == old(reg).STORES@[j]); } }
    }
}
// @item rust/core/src/lib.rs :: fn set_limit
pub fn set_limit(store_id: usize, limit: usize, reg: &mut Reg)
    requires old(reg).inv(), old(reg).STORES@.contains_key(store_id),
    ensures final(reg).inv(), final(reg).others_same(old(reg), store_id),
        final(reg).STORES@.contains_key(store_id) && final(reg).STORES@[store_id].limit == limit && final(reg).STORES@[store_id].records@ == old(reg).STORES@[store_id].records@
            && final(reg).STORES@[store_id].dividers == old(reg).STORES@[store_id].dividers,
        // growing the buffer capacity does not change the stored results
        final(reg).RESULTS@.contains_key(store_id) && final(reg).RESULTS@[store_id]@ == old(reg).RESULTS@[store_id]@,
{
    {
        let store = reg.STORES.get_mut(&store_id).unwrap();
        {
            {
                let buffer = reg.RESULTS.get_mut(&store_id).unwrap();
                {
                    store.limit = limit;
                    if limit > buffer.capacity() {
                        buffer.reserve_exact(limit - buffer.len());
                    }
                }
            };
        }
    };
}
// @item rust/core/src/lib.rs :: fn run_search
pub fn run_search(store_id: usize, query: &str, reg: &mut Reg)
    requires old(reg).inv(), old(reg).STORES@.contains_key(store_id),
    ensures final(reg).inv(), final(reg).others_same(old(reg), store_id),
        final(reg).STORES@ == old(reg).STORES@,
        // the addressed buffer holds exactly the hits of this search on this id's store
        final(reg).RESULTS@.contains_key(store_id) && final(reg).RESULTS@[store_id]@ == search_spec(&old(reg).STORES@[store_id], &tok_spec(query@, &old(reg).STORES@[store_id].lang)),
{
    {
        let store = reg.STORES.get_mut(&store_id).unwrap();
        {
            {
                let buffer = reg.RESULTS.get_mut(&store_id).unwrap();
                {
                    let query = tokenize_query(query, &store.lang);
                    let query = query.to_ref();
                    buffer.clear();
                    let mut __t0 = store.search(&query);
                    buffer.append(&mut __t0);
                }
            };
        }
    };
}
