// ======================================================================= U3: trigrams and the trigram index (C18, C19)
// @item rust/core/src/tokenization/word_shape.rs :: impl Word for WordShape
impl WordShape {
    fn offset(&self) -> (ret: usize)
        ensures ret == self.offset,
    {
        self.offset
    }
    fn slice(&self) -> (ret: (usize, usize))
        ensures ret == self.slice,
    {
        self.slice
    }
    fn stem(&self) -> (ret: usize)
        ensures ret == self.stem,
    {
        self.stem
    }
    fn pos(&self) -> (ret: Option<PartOfSpeech>)
        ensures ret == self.pos,
    {
        self.pos
    }
    fn fin(&self) -> (ret: bool)
        ensures ret == self.fin,
    {
        self.fin
    }
}
// @item rust/core/src/tokenization/word.rs :: defaults Word as WordShape::{len,is_empty,is_function}
impl WordShape {
    fn len(&self) -> (ret: usize)
        requires self.slice.0 <= self.slice.1,
        ensures ret == self.slice.1 - self.slice.0,
    {
        let (left, right) = self.slice();
        right - left
    }
    fn is_empty(&self) -> (ret: bool)
    {
        let (left, right) = self.slice();
        right == left
    }
    fn is_function(&self) -> (ret: bool)
    {
        match self.pos() {
            Some(PartOfSpeech::Article) => true,
            Some(PartOfSpeech::Preposition) => true,
            Some(PartOfSpeech::Conjunction) => true,
            Some(PartOfSpeech::Particle) => true,
            _ => false,
        }
    }
}
// @item rust/core/src/tokenization/text.rs :: impl TextOwn::{to_ref}
impl TextOwn {
    pub fn to_ref<'a>(&'a self) -> (ret: TextRef<'a>)
        ensures ret.words@ == self.words@, ret.source@ == self.source@, ret.chars@ == self.chars@, ret.classes@ == self.classes@,
    {
        TextRef { words: &self.words, source: &self.source, chars: &self.chars, classes: &self.classes }
    }
}
//@include ../common/gram_contracts.rs
// @item rust/core/src/utils/trigrams.rs :: struct TrigramIter
pub struct TrigramIter<'a> {
    pub word: &'a [char],
    pub size: usize,
}
impl<'a> TrigramIter<'a> {
    pub open spec fn wf(&self) -> bool { 1 <= self.size <= 3 && self.word@.len() + 1 >= self.size }
    // the grams still to be produced: a function of (word, size) only
    pub open spec fn remaining(&self) -> Seq<Seq<char>> {
        if self.size == 3 { windows(self.word@) } else { gram_list(self.word@).skip(self.size - 1) }
    }
}
// @item rust/core/src/utils/trigrams.rs :: impl TrigramIter::{new}
impl<'a> TrigramIter<'a> {
    pub fn new(word: &'a [char]) -> (ret: Self)
        ensures ret.wf(), ret.remaining() == gram_list(word@),
    {
        Self { word, size: 1 }
    }
}
// @item rust/core/src/utils/trigrams.rs :: impl Iterator for TrigramIter::{next}
impl<'a> TrigramIter<'a> {
    fn next(&mut self) -> (ret: Option<[char; 3]>)
        requires old(self).wf(),
        ensures final(self).wf(),
            old(self).remaining().len() == 0 ==> ret is None && final(self).remaining().len() == 0,
            old(self).remaining().len() > 0 ==> (ret matches Some(g) && g@ == old(self).remaining()[0]) && final(self).remaining() == old(self).remaining().skip(1),
    {
        if self.word.len() < self.size {
            return None;
        }
        let mut gram = ['\0', '\0', '\0'];
        gram[..self.size].copy_from_slice(&self.word[..self.size]);
        if self.size < 3 {
            self.size += 1;
        } else {
            self.word = &self.word[1..];
        }
        Some(gram)
    }
}
// @item rust/core/src/store/mod.rs :: static DEFAULT_LIMIT
pub const DEFAULT_LIMIT: usize = 10;
// @item rust/core/src/store/record.rs :: struct Record
pub struct Record {
    pub ix: usize,
    pub id: usize,
    pub title: TextOwn,
    pub rating: usize,
}
proof fn lemma_sum_len_mono(words: Seq<WordShape>, a: int, b: int)
    requires 0 <= a <= b <= words.len(), forall|k: int| 0 <= k < words.len() ==> (#[trigger] words[k]).slice.0 <= words[k].slice.1
    ensures 0 <= sum_len(words, a) <= sum_len(words, b)
    decreases b
{ if a < b { lemma_sum_len_mono(words, a, b - 1); } else if a > 0 { lemma_sum_len_mono(words, a - 1, a - 1); } }
proof fn lemma_gdedup<T>(s: Seq<T>)
    requires grouped(s)
    ensures gdedup(s).no_duplicates(), forall|x: T| gdedup(s).contains(x) <==> s.contains(x), gdedup(s).len() <= s.len(),
        s.len() > 0 ==> gdedup(s).len() > 0 && gdedup(s).last() == s.last(),
    decreases s.len()
{
    if s.len() <= 1 {
    } else {
        let p = s.drop_last();
        assert(grouped(p)) by { assert forall|i: int, j: int, k: int| 0 <= i <= k <= j < p.len() && p[i] == p[j] implies p[k] == p[i] by { assert(s[i] == s[j]); assert(s[k] == s[i]); } }
        lemma_gdedup(p);
        let d = gdedup(p);
        let x = s.last();
        assert(p.last() == s[s.len() - 2]);
        if s[s.len() - 2] == x {
            assert forall|y: T| d.contains(y) <==> s.contains(y) by {
                if s.contains(y) { let i = choose|i: int| 0 <= i < s.len() && s[i] == y; if i < p.len() { assert(p[i] == y); assert(p.contains(y)); } else { assert(p[p.len() - 1] == y); assert(p.contains(y)); } }
                if d.contains(y) { assert(p.contains(y)); let i = choose|i: int| 0 <= i < p.len() && p[i] == y; assert(s[i] == y); }
            }
        } else {
            let r = d.push(x);
            assert(r.last() == x);
            assert(!p.contains(x)) by {
                if p.contains(x) { let i = choose|i: int| 0 <= i < p.len() && p[i] == x; assert(s[i] == s[s.len() - 1]); assert(s[s.len() - 2] == s[i]); }
            }
            assert(!d.contains(x));
            assert forall|i: int, j: int| 0 <= i < r.len() && 0 <= j < r.len() && i != j implies r[i] != r[j] by {
                if i < d.len() && j < d.len() { assert(d[i] != d[j]); }
                else if i < d.len() { assert(d.contains(r[i])); }
                else { assert(d.contains(r[j])); }
            }
            assert forall|y: T| r.contains(y) <==> s.contains(y) by {
                if s.contains(y) { let i = choose|i: int| 0 <= i < s.len() && s[i] == y; if i < p.len() { assert(p[i] == y); assert(p.contains(y)); assert(d.contains(y)); let k = choose|k: int| 0 <= k < d.len() && d[k] == y; assert(r[k] == y); } else { assert(r[r.len() - 1] == y); } }
                if r.contains(y) { let i = choose|i: int| 0 <= i < r.len() && r[i] == y; if i < d.len() { assert(d[i] == y); assert(d.contains(y)); assert(p.contains(y)); let k = choose|k: int| 0 <= k < p.len() && p[k] == y; assert(s[k] == y); } else { assert(s[s.len() - 1] == y); } }
            }
        }
    }
}
//@include ../common/limitsort.rs
// the comparator closure of prepare's selection (by count, descending), replaced by name (R30); its text is pinned by hash
pub struct CmpCounts;
mod cntx {
    use vstd::prelude::*;
    use super::{ls_le, CmpCounts};
    // link (rule R12b): the tag CmpCounts stands for the comparator closure of prepare, lifted into `cmp_counts` and proved there to
    // order by the counter, larger first
    pub axiom fn ls_le_counts(a: (usize, &usize), b: (usize, &usize)) ensures ls_le::<(usize, &usize), CmpCounts>(CmpCounts, a, b) == (*a.1 >= *b.1);
}
proof fn lemma_ls_ok_counts() ensures ls_ok::<(usize, &usize), CmpCounts>(CmpCounts)
{
    reveal(ls_ok);
    assert forall|x: (usize, &usize), y: (usize, &usize)| #[trigger] ls_le::<(usize, &usize), CmpCounts>(CmpCounts, x, y) || ls_le::<(usize, &usize), CmpCounts>(CmpCounts, y, x) by { cntx::ls_le_counts(x, y); cntx::ls_le_counts(y, x); }
    assert forall|x: (usize, &usize), y: (usize, &usize), z: (usize, &usize)| #[trigger] ls_le::<(usize, &usize), CmpCounts>(CmpCounts, x, y) && #[trigger] ls_le::<(usize, &usize), CmpCounts>(CmpCounts, y, z) implies ls_le::<(usize, &usize), CmpCounts>(CmpCounts, x, z) by { cntx::ls_le_counts(x, y); cntx::ls_le_counts(y, z); cntx::ls_le_counts(x, z); }
}
// ---- counting lemmas (C18): kept out of `prepare` so that its loop bodies stay small
pub open spec fn strictly_inc(s: Seq<usize>) -> bool { forall|a: int, b: int| 0 <= a < b < s.len() ==> #[trigger] s[a] < #[trigger] s[b] }
proof fn lemma_cnt_bounds(dict: Map<[char; 3], Vec<usize>>, gs: Seq<[char; 3]>, j: int, n: int)
    requires 0 <= n
    ensures 0 <= shared_cnt(dict, gs, j, n) <= n
    decreases n
{ if n > 0 { lemma_cnt_bounds(dict, gs, j, n - 1); } }
// the counter is positive exactly when one of the grams lists the position
proof fn lemma_cnt_pos(dict: Map<[char; 3], Vec<usize>>, gs: Seq<[char; 3]>, j: int, n: int)
    requires 0 <= n
    ensures shared_cnt(dict, gs, j, n) > 0 <==> exists|t: int| 0 <= t < n && #[trigger] posted(dict, gs[t], j)
    decreases n
{
    if n > 0 {
        lemma_cnt_pos(dict, gs, j, n - 1); lemma_cnt_bounds(dict, gs, j, n - 1);
        if exists|t: int| 0 <= t < n && #[trigger] posted(dict, gs[t], j) {
            let t = choose|t: int| 0 <= t < n && #[trigger] posted(dict, gs[t], j);
            if t < n - 1 { assert(exists|t: int| 0 <= t < n - 1 && #[trigger] posted(dict, gs[t], j)); }
        }
        if shared_cnt(dict, gs, j, n) > 0 {
            if posted(dict, gs[n - 1], j) { } else { let t = choose|t: int| 0 <= t < n - 1 && #[trigger] posted(dict, gs[t], j); assert(posted(dict, gs[t], j)); }
        }
    }
}
// entry n of a strictly increasing list does not occur before n
proof fn lemma_cnt_fresh(ixs: Seq<usize>, n: int)
    requires 0 <= n < ixs.len(), strictly_inc(ixs)
    ensures !in_prefix(ixs, n, ixs[n] as int)
{ if in_prefix(ixs, n, ixs[n] as int) { let u = choose|u: int| 0 <= u < n && #[trigger] ixs[u] == ixs[n] as int; assert(ixs[u] < ixs[n]); } }
// one step of the inner counting loop
proof fn lemma_cnt_inner(dict: Map<[char; 3], Vec<usize>>, gs: Seq<[char; 3]>, len: int, i0: int, ixs: Seq<usize>, i1: int, c0: Seq<usize>, c1: Seq<usize>)
    requires 0 <= i1 < ixs.len(), strictly_inc(ixs), 0 <= i0, c0.len() == len, ixs[i1] < len, c0[ixs[i1] as int] + 1 <= usize::MAX,
        c1 == c0.update(ixs[i1] as int, (c0[ixs[i1] as int] + 1) as usize),
        forall|j: int| 0 <= j < len ==> #[trigger] c0[j] == shared_cnt(dict, gs, j, i0) + (if in_prefix(ixs, i1, j) { 1int } else { 0int }),
    ensures forall|j: int| 0 <= j < len ==> #[trigger] c1[j] == shared_cnt(dict, gs, j, i0) + (if in_prefix(ixs, i1 + 1, j) { 1int } else { 0int }),
{
    let ix = ixs[i1] as int;
    lemma_cnt_fresh(ixs, i1);
    assert forall|j: int| 0 <= j < len implies #[trigger] c1[j] == shared_cnt(dict, gs, j, i0) + (if in_prefix(ixs, i1 + 1, j) { 1int } else { 0int }) by {
        if j == ix {
            assert(ixs[i1] == j);
            assert(in_prefix(ixs, i1 + 1, j));
        } else {
            if in_prefix(ixs, i1 + 1, j) { let u = choose|u: int| 0 <= u < i1 + 1 && #[trigger] ixs[u] == j; assert(u < i1); assert(in_prefix(ixs, i1, j)); }
            if in_prefix(ixs, i1, j) { let u = choose|u: int| 0 <= u < i1 && #[trigger] ixs[u] == j; assert(in_prefix(ixs, i1 + 1, j)); }
        }
    }
}
// after the posting list of gram i0 (or when the gram has none) the counters are the counts over i0 + 1 grams
proof fn lemma_cnt_gram(dict: Map<[char; 3], Vec<usize>>, gs: Seq<[char; 3]>, len: int, i0: int, c: Seq<usize>)
    requires 0 <= i0 < gs.len(), c.len() == len,
        dict.contains_key(gs[i0]) ==> forall|j: int| 0 <= j < len ==> #[trigger] c[j] == shared_cnt(dict, gs, j, i0) + (if in_prefix(dict[gs[i0]]@, dict[gs[i0]]@.len() as int, j) { 1int } else { 0int }),
        !dict.contains_key(gs[i0]) ==> forall|j: int| 0 <= j < len ==> #[trigger] c[j] == shared_cnt(dict, gs, j, i0),
    ensures forall|j: int| 0 <= j < len ==> #[trigger] c[j] == shared_cnt(dict, gs, j, i0 + 1),
{
    assert forall|j: int| 0 <= j < len implies #[trigger] c[j] == shared_cnt(dict, gs, j, i0 + 1) by {
        if dict.contains_key(gs[i0]) {
            let l = dict[gs[i0]]@;
            assert(in_prefix(l, l.len() as int, j) == posted(dict, gs[i0], j));
        } else {
            assert(!posted(dict, gs[i0], j));
        }
    }
}
// position j occurs among the first n entries of a posting list
pub open spec fn in_prefix(ixs: Seq<usize>, n: int, j: int) -> bool { exists|u: int| 0 <= u < n && #[trigger] ixs[u] == j }
// the candidate list against the counters: from the counting invariants of `prepare` to its contract
// the tail of prepare, part 1: the order of the selection in terms of the counters (LS-ord with the comparator tag CmpCounts)
proof fn lemma_tail_rank(len0: int, counts: Seq<usize>, items: Seq<(usize, &usize)>, sel: Seq<(usize, &usize)>, idx: Seq<int>, r: Seq<usize>)
    requires counts.len() == len0,
        forall|m: int| 0 <= m < items.len() ==> (#[trigger] items[m]).0 < len0 && *items[m].1 == counts[items[m].0 as int],
        forall|j: int| 0 <= j < len0 && counts[j] > 0 ==> exists|m: int| 0 <= m < items.len() && (#[trigger] items[m]).0 == j,
        selection(sel, items, idx), ls_best(sel, items, idx, CmpCounts), ls_sorted(sel, CmpCounts),
        r.len() == sel.len(), forall|k: int| 0 <= k < r.len() ==> #[trigger] r[k] == sel[k].0,
    ensures
        forall|k: int| 0 <= k < r.len() ==> (#[trigger] r[k]) < len0,
        forall|a: int, b: int| 0 <= a <= b < r.len() ==> counts[#[trigger] r[a] as int] >= counts[#[trigger] r[b] as int],
        forall|j: int| 0 <= j < len0 && !#[trigger] r.contains(j as usize) && r.len() > 0 ==> counts[r.last() as int] >= counts[j],
{
    assert forall|k: int| 0 <= k < r.len() implies (#[trigger] r[k]) < len0 && *sel[k].1 == counts[r[k] as int] by { assert(sel[k] == items[idx[k]]); }
    assert forall|a: int, b: int| 0 <= a <= b < r.len() implies counts[#[trigger] r[a] as int] >= counts[#[trigger] r[b] as int] by {
        cntx::ls_le_counts(sel[a], sel[b]);
        assert(ls_le(CmpCounts, sel[a], sel[b]));
        assert(*sel[a].1 == counts[r[a] as int] && *sel[b].1 == counts[r[b] as int]);
    }
    assert forall|j: int| 0 <= j < len0 && !#[trigger] r.contains(j as usize) && r.len() > 0 implies counts[r.last() as int] >= counts[j] by {
        if counts[j] > 0 {
            let m = choose|m: int| 0 <= m < items.len() && (#[trigger] items[m]).0 == j;
            if idx.contains(m) { let k = choose|k: int| 0 <= k < idx.len() && idx[k] == m; assert(sel[k] == items[idx[k]]); assert(r[k] == j as usize); assert(false); }
            let z = r.len() - 1;
            cntx::ls_le_counts(sel[z], items[m]);
            assert(ls_le(CmpCounts, sel.last(), items[m]));
            assert(*sel[z].1 == counts[r[z] as int]);
        }
    }
}
// part 2: the selected positions as a selection of the increasing list of positions with a positive counter
proof fn lemma_tail_sel(len0: int, counts: Seq<usize>, items: Seq<(usize, &usize)>, sel: Seq<(usize, &usize)>, idx: Seq<int>, r: Seq<usize>, ps: Seq<int>)
    requires counts.len() == len0, ps == Seq::new(items.len(), |m: int| items[m].0 as int),
        forall|m: int| 0 <= m < items.len() ==> (#[trigger] items[m]).0 < len0 && counts[items[m].0 as int] > 0,
        forall|a: int, b: int| 0 <= a < b < items.len() ==> (#[trigger] items[a]).0 < (#[trigger] items[b]).0,
        forall|j: int| 0 <= j < len0 && counts[j] > 0 ==> exists|m: int| 0 <= m < items.len() && (#[trigger] items[m]).0 == j,
        selection(sel, items, idx), r.len() == sel.len(), forall|k: int| 0 <= k < r.len() ==> #[trigger] r[k] == sel[k].0,
    ensures
        forall|m: int| 0 <= m < ps.len() ==> 0 <= #[trigger] ps[m] < len0 && counts[ps[m]] > 0,
        forall|a: int, b: int| 0 <= a < b < ps.len() ==> #[trigger] ps[a] < #[trigger] ps[b],
        forall|j: int| 0 <= j < len0 && counts[j] > 0 ==> exists|m: int| 0 <= m < ps.len() && #[trigger] ps[m] == j,
        idx.len() == r.len(), idx.no_duplicates(), forall|k: int| 0 <= k < r.len() ==> 0 <= #[trigger] idx[k] < ps.len() && r[k] as int == ps[idx[k]],
        r.len() == ps.len() ==> forall|m: int| 0 <= m < ps.len() ==> idx.contains(m),
{
    assert forall|k: int| 0 <= k < r.len() implies 0 <= #[trigger] idx[k] < ps.len() && r[k] as int == ps[idx[k]] by { assert(sel[k] == items[idx[k]]); }
    if r.len() == ps.len() {
        lemma_selection_full(sel, items, idx);
        assert forall|m: int| 0 <= m < ps.len() implies idx.contains(m) by { assert(sel.contains(items[m])); }
    }
    assert forall|j: int| 0 <= j < len0 && counts[j] > 0 implies exists|m: int| 0 <= m < ps.len() && #[trigger] ps[m] == j by {
        let m = choose|m: int| 0 <= m < items.len() && (#[trigger] items[m]).0 == j;
        assert(ps[m] == j);
    }
    assert forall|m: int| 0 <= m < ps.len() implies 0 <= #[trigger] ps[m] < len0 && counts[ps[m]] > 0 by { assert(items[m].0 < len0); }
    assert forall|a: int, b: int| 0 <= a < b < ps.len() implies #[trigger] ps[a] < #[trigger] ps[b] by { assert(items[a].0 < items[b].0); }
}
// the tail of prepare: from the selection of (position, counter) items to the contract of the candidate list
proof fn lemma_prepare_tail(dict0: Map<[char; 3], Vec<usize>>, len0: int, qw: Seq<WordShape>, qc: Seq<char>, size: int, grams: Seq<[char; 3]>, counts: Seq<usize>,
        items: Seq<(usize, &usize)>, sel: Seq<(usize, &usize)>, idx: Seq<int>, r: Seq<usize>)
    requires counts.len() == len0, len0 >= 0, size >= 0, grams.no_duplicates(),
        forall|g: [char; 3]| grams.contains(g) <==> has_gram(qw, qc, g@),
        forall|j: int| 0 <= j < len0 ==> #[trigger] counts[j] == shared_cnt(dict0, grams, j, grams.len() as int),
        // the items are the positions with a positive counter, in increasing order, each with its counter
        forall|m: int| 0 <= m < items.len() ==> (#[trigger] items[m]).0 < len0 && counts[items[m].0 as int] > 0 && *items[m].1 == counts[items[m].0 as int],
        forall|a: int, b: int| 0 <= a < b < items.len() ==> (#[trigger] items[a]).0 < (#[trigger] items[b]).0,
        forall|j: int| 0 <= j < len0 && counts[j] > 0 ==> exists|m: int| 0 <= m < items.len() && (#[trigger] items[m]).0 == j,
        // the selection (LS-sel, LS-ord with the comparator tag CmpCounts) and the projected result
        selection(sel, items, idx), ls_best(sel, items, idx, CmpCounts), ls_sorted(sel, CmpCounts),
        sel.len() == (if items.len() < size * 10 { items.len() as int } else { size * 10 }),
        r.len() == sel.len(), forall|k: int| 0 <= k < r.len() ==> #[trigger] r[k] == sel[k].0,
    ensures prepare_post(dict0, len0, qw, qc, size, r),
{
    let ps = Seq::new(items.len(), |m: int| items[m].0 as int);
    lemma_tail_rank(len0, counts, items, sel, idx, r);
    lemma_tail_sel(len0, counts, items, sel, idx, r, ps);
    lemma_prepare_post(dict0, len0, qw, qc, size, grams, counts, ps, idx, r);
}
proof fn lemma_prepare_post(dict0: Map<[char; 3], Vec<usize>>, len0: int, qw: Seq<WordShape>, qc: Seq<char>, size: int, grams: Seq<[char; 3]>, counts: Seq<usize>, ps: Seq<int>, idx: Seq<int>, r: Seq<usize>)
    requires counts.len() == len0, len0 >= 0,
        forall|g: [char; 3]| grams.contains(g) <==> has_gram(qw, qc, g@),
        forall|m: int| 0 <= m < ps.len() ==> 0 <= #[trigger] ps[m] < len0 && counts[ps[m]] > 0,
        forall|a: int, b: int| 0 <= a < b < ps.len() ==> #[trigger] ps[a] < #[trigger] ps[b],
        forall|j: int| 0 <= j < len0 && counts[j] > 0 ==> exists|m: int| 0 <= m < ps.len() && #[trigger] ps[m] == j,
        idx.len() == r.len(), idx.no_duplicates(), forall|k: int| 0 <= k < r.len() ==> 0 <= #[trigger] idx[k] < ps.len() && r[k] as int == ps[idx[k]],
        r.len() == (if ps.len() < size * 10 { ps.len() as int } else { size * 10 }), size >= 0,
        r.len() == ps.len() ==> forall|m: int| 0 <= m < ps.len() ==> idx.contains(m),
        // C18 ranking: the counters are the shared-gram counts; the list is in counter order and nothing left out has a larger counter
        grams.no_duplicates(),
        forall|j: int| 0 <= j < len0 ==> #[trigger] counts[j] == shared_cnt(dict0, grams, j, grams.len() as int),
        forall|a: int, b: int| 0 <= a <= b < r.len() ==> counts[#[trigger] r[a] as int] >= counts[#[trigger] r[b] as int],
        forall|j: int| 0 <= j < len0 && !#[trigger] r.contains(j as usize) && r.len() > 0 ==> counts[r.last() as int] >= counts[j],
    ensures prepare_post(dict0, len0, qw, qc, size, r),
{
    // a counter is positive exactly when one of the query's grams lists the position
    assert forall|j: int| 0 <= j < len0 && #[trigger] counts[j] > 0 implies exists|t: int| 0 <= t < grams.len() && #[trigger] posted(dict0, grams[t], j) by { lemma_cnt_pos(dict0, grams, j, grams.len() as int); }
    assert forall|t: int, j: int| 0 <= t < grams.len() && 0 <= j < len0 && #[trigger] posted(dict0, grams[t], j) implies counts[j] > 0 by { lemma_cnt_pos(dict0, grams, j, grams.len() as int); }
    assert forall|j: int| 0 <= j < len0 implies (#[trigger] shares(dict0, qw, qc, j) <==> counts[j] > 0) by {
        if shares(dict0, qw, qc, j) {
            let g = choose|g: [char; 3]| has_gram(qw, qc, g@) && #[trigger] posted(dict0, g, j);
            assert(grams.contains(g));
            let t = choose|t: int| 0 <= t < grams.len() && grams[t] == g;
            assert(posted(dict0, grams[t], j));
        }
        if counts[j] > 0 {
            let t = choose|t: int| 0 <= t < grams.len() && #[trigger] posted(dict0, grams[t], j);
            assert(grams.contains(grams[t]));
            assert(has_gram(qw, qc, grams[t]@));
        }
    }
    assert forall|k: int| 0 <= k < r.len() implies #[trigger] r[k] < len0 && shares(dict0, qw, qc, r[k] as int) by { assert(counts[ps[idx[k]]] > 0); }
    assert forall|a: int, b: int| 0 <= a < r.len() && 0 <= b < r.len() && a != b implies r[a] != r[b] by {
        assert(idx[a] != idx[b]);
        if idx[a] < idx[b] { assert(ps[idx[a]] < ps[idx[b]]); } else { assert(ps[idx[b]] < ps[idx[a]]); }
    }
    let ss = share_set(dict0, len0, qw, qc);
    assert(ps.no_duplicates()) by {
        assert forall|a: int, b: int| 0 <= a < ps.len() && 0 <= b < ps.len() && a != b implies ps[a] != ps[b] by { if a < b { assert(ps[a] < ps[b]); } else { assert(ps[b] < ps[a]); } }
    }
    assert(ps.to_set() =~= ss) by {
        assert forall|j: int| ps.to_set().contains(j) <==> ss.contains(j) by {
            if ps.to_set().contains(j) { let m = choose|m: int| 0 <= m < ps.len() && ps[m] == j; assert(counts[ps[m]] > 0); }
            if ss.contains(j) { assert(counts[j] > 0); let m = choose|m: int| 0 <= m < ps.len() && #[trigger] ps[m] == j; assert(ps.contains(j)); }
        }
    }
    ps.unique_seq_to_set();
    assert(ss.len() == ps.len());
    // |ps| <= len0: strictly increasing positions below len0
    assert(ps.len() <= len0) by {
        vstd::set_lib::lemma_int_range(0, len0);
        assert(ss.subset_of(vstd::set_lib::set_int_range(0, len0)));
        vstd::set_lib::lemma_len_subset(ss, vstd::set_lib::set_int_range(0, len0));
    }
    if r.len() == ps.len() {
        assert forall|j: int| 0 <= j < len0 && #[trigger] shares(dict0, qw, qc, j) implies r.contains(j as usize) by {
            assert(counts[j] > 0);
            let m = choose|m: int| 0 <= m < ps.len() && #[trigger] ps[m] == j;
            assert(idx.contains(m));
            let k = choose|k: int| 0 <= k < idx.len() && idx[k] == m;
            assert(r[k] as int == j);
        }
    }
    assert(gram_enum(grams, qw, qc));
    assert(cnt_ranked(dict0, grams, len0, r)) by {
        assert forall|a: int, b: int| 0 <= a <= b < r.len() implies shared_cnt(dict0, grams, #[trigger] r[a] as int, grams.len() as int) >= shared_cnt(dict0, grams, #[trigger] r[b] as int, grams.len() as int) by {
            assert(counts[r[a] as int] >= counts[r[b] as int]);
        }
        if r.len() > 0 { assert(r[r.len() - 1] < len0); }
    }
}
// @item rust/core/src/store/trigram_index.rs :: struct TrigramIndex
pub struct TrigramIndex {
    pub len: usize,
    pub dict: HashMap<[char; 3], Vec<usize>>,
    pub counts: Vec<usize>,
}
// @item rust/core/src/store/trigram_index.rs :: impl TrigramIndex::{new,add,prepare,collect_grams}
impl TrigramIndex {
    pub fn new() -> (ret: Self)
        ensures ret.wf(), ret.len == 0, ret.dict@ == Map::<[char; 3], Vec<usize>>::empty(),
    {
        Self { len: 0, dict: HashMap::new(), counts: Vec::new() }
    }
    pub fn add(&mut self, record: &Record)
        // C19/C18/C10: the record is appended at position `len`; posting lists stay strictly increasing (this is the debug_assert!)
        requires old(self).wf(), record.ix == old(self).len, old(self).len < 0x4000_0000, text_ok_s(record.title.words@, record.title.chars@.len() as int),
        ensures final(self).wf(), final(self).len == old(self).len + 1, final(self).counts@ == old(self).counts@, // [C01 ALL]
            // C18: afterwards the posting lists hold what they held, plus the new position under exactly the grams of the new title
            forall|g: [char; 3], j: int| #[trigger] posted(final(self).dict@, g, j) <==> (posted(old(self).dict@, g, j) || (j == old(self).len && has_gram(record.title.words@, record.title.chars@, g@))), // [C18 C05 C03 C04]
    {
        let Self { dict, len, .. } = self;
        let Record { ix, title, .. } = record;
        let grams = Self::collect_grams(&title.to_ref());
        let ghost dict0 = dict@;
        let ghost n0 = *len as int;
        *len += 1;
        let __end0 = grams.len();
        for __i0 in 0..__end0
            invariant __end0 == grams@.len(), grams@.no_duplicates(), *len == n0 + 1, *ix == n0, n0 < 0x4000_0000,
                postings_wf(dict@, n0 + 1),
                forall|g: [char; 3]| dict@.contains_key(g) && !grams@.take(__i0 as int).contains(g) ==> (forall|k: int| 0 <= k < (#[trigger] dict@[g])@.len() ==> dict@[g]@[k] < n0),
                forall|g: [char; 3], j: int| #[trigger] posted(dict@, g, j) <==> (posted(dict0, g, j) || (j == n0 && grams@.take(__i0 as int).contains(g))), // [C18 C05 C03 C04]
        {
            let gram = grams[__i0];
            let ghost d1 = dict@;
            proof {
                assert(!grams@.take(__i0 as int).contains(gram)) by {
                    if grams@.take(__i0 as int).contains(gram) { let t = choose|t: int| 0 <= t < __i0 && grams@.take(__i0 as int)[t] == gram; assert(grams@[t] == grams@[__i0 as int]); }
                }
                assert forall|g: [char; 3]| !grams@.take(__i0 as int + 1).contains(g) implies !grams@.take(__i0 as int).contains(g) by {
                    if grams@.take(__i0 as int).contains(g) { let t = choose|t: int| 0 <= t < __i0 && grams@.take(__i0 as int)[t] == g; assert(grams@.take(__i0 as int + 1)[t] == g); }
                }
                assert(grams@.take(__i0 as int + 1).contains(gram)) by { assert(grams@.take(__i0 as int + 1)[__i0 as int] == gram); }
            }
            if dict.contains_key(&gram) {
                let ixs = dict.get_mut(&gram).unwrap();
                {
                    vassert(ixs.len() == 0 || ixs.last().unwrap() < ix);
                    ixs.push(*ix);
                }
            } else {
                dict.insert(gram, vec![*ix]);
            }
            proof {
                let tk = grams@.take(__i0 as int); let tk1 = grams@.take(__i0 as int + 1);
                assert forall|g: [char; 3], j: int| #[trigger] posted(dict@, g, j) <==> (posted(dict0, g, j) || (j == n0 && tk1.contains(g))) by {
                    assert(tk1.contains(g) <==> (tk.contains(g) || g == gram)) by {
                        if tk1.contains(g) { let t = choose|t: int| 0 <= t < tk1.len() && tk1[t] == g; if t < __i0 { assert(tk[t] == g); } }
                        if tk.contains(g) { let t = choose|t: int| 0 <= t < tk.len() && tk[t] == g; assert(tk1[t] == g); }
                    }
                    assert(posted(d1, g, j) <==> (posted(dict0, g, j) || (j == n0 && tk.contains(g))));
                    if g == gram {
                        assert(!tk.contains(gram));
                        if d1.contains_key(gram) {
                            let l0 = d1[gram]@; let l1 = dict@[gram]@;
                            assert(l1 == l0.push(n0 as usize));
                            if posted(dict@, g, j) { let t = choose|t: int| 0 <= t < l1.len() && #[trigger] l1[t] == j; if t < l0.len() { assert(l0[t] == j); assert(posted(d1, g, j)); } else { assert(j == n0); } }
                            if posted(d1, g, j) { let t = choose|t: int| 0 <= t < l0.len() && #[trigger] l0[t] == j; assert(l1[t] == j); assert(posted(dict@, g, j)); }
                            if j == n0 { assert(l1[l0.len() as int] == j); assert(posted(dict@, g, j)); }
                            assert(posted(dict@, g, j) <==> (posted(d1, g, j) || j == n0));
                        } else {
                            assert(!posted(d1, g, j));
                            assert(dict@[gram]@ =~= seq![n0 as usize]);
                            if j == n0 { assert(dict@[gram]@[0] == j); assert(posted(dict@, g, j)); }
                            if posted(dict@, g, j) { let t = choose|t: int| 0 <= t < dict@[gram]@.len() && #[trigger] dict@[gram]@[t] == j; assert(t == 0); }
                            assert(posted(dict@, g, j) <==> j == n0);
                        }
                    } else {
                        assert(dict@.contains_key(g) == d1.contains_key(g));
                        if d1.contains_key(g) { assert(dict@[g] == d1[g]); }
                        assert(posted(dict@, g, j) == posted(d1, g, j));
                    }
                }
            }
        }
        proof {
            assert(grams@.take(grams@.len() as int) == grams@);
            assert forall|g: [char; 3], j: int| #[trigger] posted(dict@, g, j) <==> (posted(dict0, g, j) || (j == n0 && has_gram(record.title.words@, record.title.chars@, g@))) by {
                assert(grams@.contains(g) <==> has_gram(title.words@, title.chars@, g@));
            }
        }
    }
    pub fn prepare(&mut self, query: &TextRef, size: usize) -> (ret: Vec<usize>)
        requires old(self).wf(), text_ok(query), size <= 0x1000_0000,
        ensures final(self).wf(), final(self).len == old(self).len, final(self).dict@ == old(self).dict@, // [C01 ALL]
            // C05(a) / C06 / C03: what the candidate list is, in terms of the posting lists and the query's grams
            prepare_post(old(self).dict@, old(self).len as int, query.words@, query.chars@, size as int, ret@), // [C05 C06 C03 C04 C18]
    {
        let Self { counts, dict, .. } = self;
        let ghost len0 = self.len as int;
        let ghost dict0 = dict@;
        if query.words.len() == 0 {
            proof {
                assert forall|j: int| 0 <= j < len0 && #[trigger] shares(dict0, query.words@, query.chars@, j) implies false by {}
                assert(share_set(dict0, len0, query.words@, query.chars@) =~= Set::<int>::empty());
                assert(gram_enum(Seq::<[char; 3]>::empty(), query.words@, query.chars@));
                assert(cnt_ranked(dict0, Seq::<[char; 3]>::empty(), len0, Seq::<usize>::empty()));
            }
            return Vec::new();
        }
        counts.clear();
        counts.resize(self.len, 0);
        let grams = Self::collect_grams(&query);
        let ghost qw = query.words@;
        let ghost qc = query.chars@;
        let __end0 = grams.len();
        for __i0 in 0..__end0
            invariant __end0 == grams@.len(), counts@.len() == len0, dict@ == dict0, postings_wf(dict0, len0), len0 <= 0x4000_0000,
                // C18 (and through it C05 C03 C04 C06): the counter IS the number of grams seen so far that list the position
                forall|j: int| 0 <= j < len0 ==> #[trigger] counts@[j] == shared_cnt(dict0, grams@, j, __i0 as int), // [C18 C05 C03 C04 C06 C01 C10]
        {
            let gram = &grams[__i0];
            if let Some(ixs) = dict.get(gram) {
                let __end1 = ixs.len();
                for __i1 in 0..__end1
                    invariant __end1 == ixs@.len(), __end0 == grams@.len(), __i0 < __end0, counts@.len() == len0, dict@ == dict0, postings_wf(dict0, len0), len0 <= 0x4000_0000,
                        dict0.contains_key(*gram), ixs@ == dict0[*gram]@, *gram == grams@[__i0 as int], strictly_inc(ixs@),
                        forall|j: int| 0 <= j < len0 ==> #[trigger] counts@[j] == shared_cnt(dict0, grams@, j, __i0 as int) + (if in_prefix(ixs@, __i1 as int, j) { 1int } else { 0int }), // [C18 C05 C03 C04 C06 C01 C10]
                {
                    let ix = ixs[__i1];
                    let ghost c0 = counts@;
                    proof {
                        assert(ix < len0);
                        // the increment cannot overflow: the position has not been counted for this gram yet
                        lemma_cnt_fresh(ixs@, __i1 as int);
                        lemma_cnt_bounds(dict0, grams@, ix as int, __i0 as int);
                    }
                    unsafe {
                        *counts.get_unchecked_mut(ix) += 1;
                    }
                    proof {
                        assert(counts@ == c0.update(ix as int, (c0[ix as int] + 1) as usize));
                        lemma_cnt_inner(dict0, grams@, len0, __i0 as int, ixs@, __i1 as int, c0, counts@);
                    }
                }
            }
            proof { lemma_cnt_gram(dict0, grams@, len0, __i0 as int, counts@); }
        }
        let mut __items0: Vec<(usize, &usize)> = Vec::new();
        let mut __p0 = 0;
        while __p0 < counts.len()
            invariant __p0 <= counts@.len(), counts@.len() == len0, len0 <= 0x4000_0000, __items0@.len() <= __p0,
                forall|m: int| 0 <= m < __items0@.len() ==> (#[trigger] __items0@[m]).0 < __p0 && counts@[__items0@[m].0 as int] > 0,
                forall|a: int, b: int| 0 <= a < b < __items0@.len() ==> (#[trigger] __items0@[a]).0 < (#[trigger] __items0@[b]).0,
                forall|j: int| 0 <= j < __p0 && counts@[j] > 0 ==> exists|m: int| 0 <= m < __items0@.len() && (#[trigger] __items0@[m]).0 == j,
                // each item carries its position's counter
                forall|m: int| 0 <= m < __items0@.len() ==> *(#[trigger] __items0@[m]).1 == counts@[__items0@[m].0 as int], // [C18]
            decreases counts@.len() - __p0,
        {
            let __ix = __p0;
            __p0 += 1;
            let __cur = (__ix, &counts[__ix]);
            let __keep = {
                let count = *__cur.1;
                count > 0
            };
            proof {
                // the invariant's last clause for the new __p0: position __ix is either skipped (count 0) or pushed below
                assert(__keep == (counts@[__ix as int] > 0));
            }
            if !__keep {
                continue;
            }
            let ghost it0 = __items0@;
            __items0.push(__cur);
            proof {
                assert forall|j: int| 0 <= j < __p0 && counts@[j] > 0 implies exists|m: int| 0 <= m < __items0@.len() && (#[trigger] __items0@[m]).0 == j by {
                    if j == __ix { assert(__items0@[it0.len() as int].0 == j); }
                    else { let m = choose|m: int| 0 <= m < it0.len() && (#[trigger] it0[m]).0 == j; assert(__items0@[m].0 == j); }
                }
            }
        }
        let ghost items = __items0@;
        proof { lemma_ls_ok_counts(); }
        let __sel0 = limit_sort_all(__items0, size * 10, CmpCounts);
        let ghost idx = choose|idx: Seq<int>| selection(__sel0@, items, idx) && ls_best(__sel0@, items, idx, CmpCounts);
        let mut __out0: Vec<usize> = Vec::new();
        let mut __q0 = 0;
        while __q0 < __sel0.len()
            invariant __q0 <= __sel0@.len(), __out0@.len() == __q0,
                forall|k: int| 0 <= k < __out0@.len() ==> #[trigger] __out0@[k] == __sel0@[k].0,
            decreases __sel0@.len() - __q0,
        {
            let __jx = __q0;
            __q0 += 1;
            let ix = __sel0[__jx].0;
            let __cur = ix;
            __out0.push(__cur);
        }
        proof { lemma_prepare_tail(dict0, len0, qw, qc, size as int, grams@, counts@, items, __sel0@, idx, __out0@); }
        __out0
    }
    fn collect_grams(text: &TextRef) -> (ret: Vec<[char; 3]>)
        requires text_ok(text),
        // sorted and de-duplicated: no gram occurs twice
        ensures ret@.no_duplicates(),
            // C18: exactly the grams of the text's words
            forall|g: [char; 3]| ret@.contains(g) <==> has_gram(text.words@, text.chars@, g@), // [C18 C05 C03 C04]
    {
        let mut __acc0: usize = 0;
        let __end0 = text.words.len();
        for __i0 in 0..__end0
            invariant __end0 == text.words@.len(), text_ok(text), __acc0 == sum_len(text.words@, __i0 as int),
        {
            let w = &text.words[__i0];
            proof { lemma_sum_len_mono(text.words@, __i0 as int + 1, text.words@.len() as int); }
            __acc0 += w.len();
        }
        let cap = __acc0;
        let mut grams = Vec::with_capacity(cap);
        let __end1 = text.words.len();
        for __i1 in 0..__end1
            invariant __end1 == text.words@.len(), text_ok(text),
                forall|g: [char; 3]| grams@.contains(g) <==> has_gram_upto(text.words@, text.chars@, __i1 as int, g@),
        {
            let word = &text.words[__i1];
            let chars = &text.chars[word.slice.0..word.slice.1];
            let mut __it2 = TrigramIter::new(chars);
            let ghost gl = gram_list(chars@);
            let ghost mut done: int = 0;
            proof { assert(chars@ == word_chars(text.words@, text.chars@, __i1 as int)); }
            loop
                invariant __it2.wf(), 0 <= done <= gl.len(), __it2.remaining() == gl.skip(done), gl == gram_list(word_chars(text.words@, text.chars@, __i1 as int)), __i1 < text.words@.len(),
                    forall|g: [char; 3]| grams@.contains(g) <==> (has_gram_upto(text.words@, text.chars@, __i1 as int, g@) || exists|j: int| 0 <= j < done && #[trigger] gl[j] == g@),
                ensures done == gl.len(),
                decreases __it2.remaining().len(),
            {
                match __it2.next() {
                    Some(gram) => {
                        let ghost g0 = grams@;
                        grams.push(gram);
                        proof {
                            assert(gram@ == gl[done]);
                            assert forall|g: [char; 3]| grams@.contains(g) <==> (has_gram_upto(text.words@, text.chars@, __i1 as int, g@) || exists|j: int| 0 <= j < done + 1 && #[trigger] gl[j] == g@) by {
                                if grams@.contains(g) {
                                    let i = choose|i: int| 0 <= i < grams@.len() && grams@[i] == g;
                                    if i < g0.len() { assert(g0[i] == g); assert(g0.contains(g)); } else { assert(gl[done] == g@); }
                                }
                                if g0.contains(g) { let i = choose|i: int| 0 <= i < g0.len() && g0[i] == g; assert(grams@[i] == g); }
                                if exists|j: int| 0 <= j < done + 1 && #[trigger] gl[j] == g@ {
                                    let j = choose|j: int| 0 <= j < done + 1 && #[trigger] gl[j] == g@;
                                    if j == done { assert(gram@ == g@); assert(gram == g); assert(grams@[g0.len() as int] == g); } else { assert(g0.contains(g)); }
                                }
                            }
                            done = done + 1;
                        }
                    }
                    None => {
                        break;
                    }
                }
            }
            proof {
                assert forall|g: [char; 3]| grams@.contains(g) <==> has_gram_upto(text.words@, text.chars@, __i1 as int + 1, g@) by {
                    let w = text.words@; let c = text.chars@;
                    if has_gram_upto(w, c, __i1 as int + 1, g@) {
                        let (k, j) = choose|k: int, j: int| 0 <= k < __i1 + 1 && 0 <= j < gram_list(word_chars(w, c, k)).len() && #[trigger] gram_list(word_chars(w, c, k))[j] == g@;
                        if k < __i1 { assert(has_gram_upto(w, c, __i1 as int, g@)); } else { assert(gl[j] == g@); }
                    }
                    if has_gram_upto(w, c, __i1 as int, g@) {
                        let (k, j) = choose|k: int, j: int| 0 <= k < __i1 && 0 <= j < gram_list(word_chars(w, c, k)).len() && #[trigger] gram_list(word_chars(w, c, k))[j] == g@;
                        assert(has_gram_upto(w, c, __i1 as int + 1, g@));
                    }
                    if exists|j: int| 0 <= j < done && #[trigger] gl[j] == g@ {
                        let j = choose|j: int| 0 <= j < done && #[trigger] gl[j] == g@;
                        assert(gram_list(word_chars(w, c, __i1 as int))[j] == g@);
                        assert(has_gram_upto(w, c, __i1 as int + 1, g@));
                    }
                }
            }
        }
        let ghost collected = grams@;
        grams.sort_unstable();
        let ghost sorted = grams@;
        proof { lemma_gdedup::<[char; 3]>(sorted); }
        grams.dedup();
        proof {
            assert forall|g: [char; 3]| grams@.contains(g) <==> has_gram(text.words@, text.chars@, g@) by {
                assert(gdedup(sorted).contains(g) <==> sorted.contains(g));
                assert(sorted.contains(g) <==> collected.contains(g));
                assert(collected.contains(g) <==> has_gram_upto(text.words@, text.chars@, text.words@.len() as int, g@));
            }
        }
        grams
    }
}
// @item rust/core/src/store/trigram_index.rs :: impl TrigramIndex::{new,add,prepare,collect_grams} (lifted)
pub fn cmp_counts(__a: &(usize, &usize), __b: &(usize, &usize)) -> (ret: Ordering)
    // C18 / C06: the comparator of the candidate cut orders by shared-gram counter, larger first
    ensures *__a.1 > *__b.1 ==> ret == Ordering::Less, *__a.1 < *__b.1 ==> ret == Ordering::Greater, *__a.1 == *__b.1 ==> ret == Ordering::Equal, // [C18 C06]
{
    let (_, count1) = __a;
    let (_, count2) = __b;
    count2.cmp(count1)
}
