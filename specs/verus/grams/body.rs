// ======================================================================= U3: trigrams and the trigram index (C18, C19)
// @item rust/core/src/tokenization/word_shape.rs :: impl Word for WordShape
impl WordShape {
    fn offset(&self) -> (ret: usize)
        ensures ret == self.offset,
    {
        self.offset
    }
    fn slice(&self) -> (ret: (usize, usize))
        ensures ret == self.slice,
    {
        self.slice
    }
    fn stem(&self) -> (ret: usize)
        ensures ret == self.stem,
    {
        self.stem
    }
    fn pos(&self) -> (ret: Option<PartOfSpeech>)
        ensures ret == self.pos,
    {
        self.pos
    }
    fn fin(&self) -> (ret: bool)
        ensures ret == self.fin,
    {
        self.fin
    }
}
// @item rust/core/src/tokenization/word.rs :: defaults Word as WordShape::{len}
impl WordShape {
    fn len(&self) -> (ret: usize)
        requires self.slice.0 <= self.slice.1,
        ensures ret == self.slice.1 - self.slice.0,
    {
        let (left, right) = self.slice();
        right - left
    }
}
// @item rust/core/src/tokenization/text.rs :: impl TextOwn::{to_ref}
impl TextOwn {
    pub fn to_ref<'a>(&'a self) -> (ret: TextRef<'a>)
        ensures ret.words@ == self.words@, ret.source@ == self.source@, ret.chars@ == self.chars@, ret.classes@ == self.classes@,
    {
        TextRef { words: &self.words, source: &self.source, chars: &self.chars, classes: &self.classes }
    }
}
// C18: gram generation: [w0,0,0], [w0,w1,0], then every window of three
pub open spec fn windows(w: Seq<char>) -> Seq<Seq<char>> {
    Seq::new(if w.len() >= 3 { (w.len() - 2) as nat } else { 0nat }, |i: int| seq![w[i], w[i + 1], w[i + 2]])
}
pub open spec fn heads(w: Seq<char>) -> Seq<Seq<char>> {
    if w.len() == 0 { seq![] } else if w.len() == 1 { seq![seq![w[0], '\0', '\0']] } else { seq![seq![w[0], '\0', '\0'], seq![w[0], w[1], '\0']] }
}
pub open spec fn gram_list(w: Seq<char>) -> Seq<Seq<char>> { heads(w) + windows(w) }
// @item rust/core/src/utils/trigrams.rs :: struct TrigramIter
pub struct TrigramIter<'a> {
    pub word: &'a [char],
    pub size: usize,
}
impl<'a> TrigramIter<'a> {
    pub open spec fn wf(&self) -> bool { 1 <= self.size <= 3 && self.word@.len() + 1 >= self.size }
    // the grams still to be produced: a function of (word, size) only
    pub open spec fn remaining(&self) -> Seq<Seq<char>> {
        if self.size == 3 { windows(self.word@) } else { gram_list(self.word@).skip(self.size - 1) }
    }
}
// @item rust/core/src/utils/trigrams.rs :: impl TrigramIter::{new}
impl<'a> TrigramIter<'a> {
    pub fn new(word: &'a [char]) -> (ret: Self)
        ensures ret.wf(), ret.remaining() == gram_list(word@),
    {
        Self { word, size: 1 }
    }
}
// @item rust/core/src/utils/trigrams.rs :: impl Iterator for TrigramIter::{next}
impl<'a> TrigramIter<'a> {
    fn next(&mut self) -> (ret: Option<[char; 3]>)
        requires old(self).wf(),
        ensures final(self).wf(),
            old(self).remaining().len() == 0 ==> ret is None && final(self).remaining().len() == 0,
            old(self).remaining().len() > 0 ==> (ret matches Some(g) && g@ == old(self).remaining()[0]) && final(self).remaining() == old(self).remaining().skip(1),
    {
        if self.word.len() < self.size {
            return None;
        }
        let mut gram = ['\0', '\0', '\0'];
        gram[..self.size].copy_from_slice(&self.word[..self.size]);
        if self.size < 3 {
            self.size += 1;
        } else {
            self.word = &self.word[1..];
        }
        Some(gram)
    }
}
// @item rust/core/src/store/record.rs :: struct Record
pub struct Record {
    pub ix: usize,
    pub id: usize,
    pub title: TextOwn,
    pub rating: usize,
}
// posting lists: strictly increasing positions, all below `len` (C19: the counter vector has `len` slots; C18: no duplicates)
pub open spec fn postings_wf(dict: Map<[char; 3], Vec<usize>>, len: int) -> bool {
    forall|g: [char; 3]| dict.contains_key(g) ==> {
        let l = (#[trigger] dict[g])@;
        (forall|k: int| 0 <= k < l.len() ==> l[k] < len) && (forall|a: int, b: int| 0 <= a < b < l.len() ==> l[a] < l[b])
    }
}
// the words of a text lie inside its character array; the total length fits (implied by Text::wf: words are disjoint)
pub open spec fn sum_len(words: Seq<WordShape>, n: int) -> int decreases n { if n <= 0 { 0 } else { sum_len(words, n - 1) + (words[n - 1].slice.1 - words[n - 1].slice.0) } }
pub open spec fn text_ok_s(words: Seq<WordShape>, nchars: int) -> bool {
    (forall|k: int| 0 <= k < words.len() ==> (#[trigger] words[k]).slice.0 <= words[k].slice.1 && words[k].slice.1 <= nchars)
    && sum_len(words, words.len() as int) <= usize::MAX
}
pub open spec fn text_ok(t: &TextRef) -> bool { text_ok_s(t.words@, t.chars@.len() as int) }
proof fn lemma_sum_len_mono(words: Seq<WordShape>, a: int, b: int)
    requires 0 <= a <= b <= words.len(), forall|k: int| 0 <= k < words.len() ==> (#[trigger] words[k]).slice.0 <= words[k].slice.1
    ensures 0 <= sum_len(words, a) <= sum_len(words, b)
    decreases b
{ if a < b { lemma_sum_len_mono(words, a, b - 1); } else if a > 0 { lemma_sum_len_mono(words, a - 1, a - 1); } }
proof fn lemma_gdedup<T>(s: Seq<T>)
    requires grouped(s)
    ensures gdedup(s).no_duplicates(), forall|x: T| gdedup(s).contains(x) <==> s.contains(x), gdedup(s).len() <= s.len(),
        s.len() > 0 ==> gdedup(s).len() > 0 && gdedup(s).last() == s.last(),
    decreases s.len()
{
    if s.len() <= 1 {
    } else {
        let p = s.drop_last();
        assert(grouped(p)) by { assert forall|i: int, j: int, k: int| 0 <= i <= k <= j < p.len() && p[i] == p[j] implies p[k] == p[i] by { assert(s[i] == s[j]); assert(s[k] == s[i]); } }
        lemma_gdedup(p);
        let d = gdedup(p);
        let x = s.last();
        assert(p.last() == s[s.len() - 2]);
        if s[s.len() - 2] == x {
            assert forall|y: T| d.contains(y) <==> s.contains(y) by {
                if s.contains(y) { let i = choose|i: int| 0 <= i < s.len() && s[i] == y; if i < p.len() { assert(p[i] == y); assert(p.contains(y)); } else { assert(p[p.len() - 1] == y); assert(p.contains(y)); } }
                if d.contains(y) { assert(p.contains(y)); let i = choose|i: int| 0 <= i < p.len() && p[i] == y; assert(s[i] == y); }
            }
        } else {
            let r = d.push(x);
            assert(r.last() == x);
            assert(!p.contains(x)) by {
                if p.contains(x) { let i = choose|i: int| 0 <= i < p.len() && p[i] == x; assert(s[i] == s[s.len() - 1]); assert(s[s.len() - 2] == s[i]); }
            }
            assert(!d.contains(x));
            assert forall|i: int, j: int| 0 <= i < r.len() && 0 <= j < r.len() && i != j implies r[i] != r[j] by {
                if i < d.len() && j < d.len() { assert(d[i] != d[j]); }
                else if i < d.len() { assert(d.contains(r[i])); }
                else { assert(d.contains(r[j])); }
            }
            assert forall|y: T| r.contains(y) <==> s.contains(y) by {
                if s.contains(y) { let i = choose|i: int| 0 <= i < s.len() && s[i] == y; if i < p.len() { assert(p[i] == y); assert(p.contains(y)); assert(d.contains(y)); let k = choose|k: int| 0 <= k < d.len() && d[k] == y; assert(r[k] == y); } else { assert(r[r.len() - 1] == y); } }
                if r.contains(y) { let i = choose|i: int| 0 <= i < r.len() && r[i] == y; if i < d.len() { assert(d[i] == y); assert(d.contains(y)); assert(p.contains(y)); let k = choose|k: int| 0 <= k < p.len() && p[k] == y; assert(s[k] == y); } else { assert(s[s.len() - 1] == y); } }
            }
        }
    }
}
impl TrigramIndex {
    pub open spec fn wf(&self) -> bool { self.len <= 0x4000_0000 && postings_wf(self.dict@, self.len as int) }
}
// R12: the tail of `prepare` (enumerate / filter / limit_sort_unstable / map / collect) is outlined; its contract is
// the bounded-selection contract LS checked in lane K on the real LimitSortIter
#[verifier::external_body]
fn prepare_tail(counts: &mut Vec<usize>, size: usize) -> (r: Vec<usize>)
    ensures final(counts)@ == old(counts)@,
{ unimplemented!() }
// @item rust/core/src/store/trigram_index.rs :: struct TrigramIndex
pub struct TrigramIndex {
    pub len: usize,
    pub dict: HashMap<[char; 3], Vec<usize>>,
    pub counts: Vec<usize>,
}
// @item rust/core/src/store/trigram_index.rs :: impl TrigramIndex::{new,add,prepare,collect_grams}
impl TrigramIndex {
    pub fn new() -> (ret: Self)
        ensures ret.wf(), ret.len == 0, ret.dict@ == Map::<[char; 3], Vec<usize>>::empty(),
    {
        Self { len: 0, dict: HashMap::new(), counts: Vec::new() }
    }
    pub fn add(&mut self, record: &Record)
        // C19/C18/C10: the record is appended at position `len`; posting lists stay strictly increasing (this is the debug_assert!)
        requires old(self).wf(), record.ix == old(self).len, old(self).len < 0x4000_0000, text_ok_s(record.title.words@, record.title.chars@.len() as int),
        ensures final(self).wf(), final(self).len == old(self).len + 1, final(self).counts@ == old(self).counts@,
    {
        let Self { dict, len, .. } = self;
        let Record { ix, title, .. } = record;
        let grams = Self::collect_grams(&title.to_ref());
        let ghost dict0 = dict@;
        let ghost n0 = *len as int;
        *len += 1;
        let __end0 = grams.len();
        for __i0 in 0..__end0
            invariant __end0 == grams@.len(), grams@.no_duplicates(), *len == n0 + 1, *ix == n0, n0 < 0x4000_0000,
                postings_wf(dict@, n0 + 1),
                forall|g: [char; 3]| dict@.contains_key(g) && !grams@.take(__i0 as int).contains(g) ==> (forall|k: int| 0 <= k < (#[trigger] dict@[g])@.len() ==> dict@[g]@[k] < n0),
        {
            let gram = grams[__i0];
            proof {
                assert(!grams@.take(__i0 as int).contains(gram)) by {
                    if grams@.take(__i0 as int).contains(gram) { let t = choose|t: int| 0 <= t < __i0 && grams@.take(__i0 as int)[t] == gram; assert(grams@[t] == grams@[__i0 as int]); }
                }
                assert forall|g: [char; 3]| !grams@.take(__i0 as int + 1).contains(g) implies !grams@.take(__i0 as int).contains(g) by {
                    if grams@.take(__i0 as int).contains(g) { let t = choose|t: int| 0 <= t < __i0 && grams@.take(__i0 as int)[t] == g; assert(grams@.take(__i0 as int + 1)[t] == g); }
                }
                assert(grams@.take(__i0 as int + 1).contains(gram)) by { assert(grams@.take(__i0 as int + 1)[__i0 as int] == gram); }
            }
            if dict.contains_key(&gram) {
                let ixs = dict.get_mut(&gram).unwrap();
                {
                    vassert(ixs.len() == 0 || ixs.last().unwrap() < ix);
                    ixs.push(*ix);
                }
            } else {
                dict.insert(gram, vec![*ix]);
            }
        }
    }
    pub fn prepare(&mut self, query: &TextRef, size: usize) -> (ret: Vec<usize>)
        requires old(self).wf(), text_ok(query),
        ensures final(self).wf(), final(self).len == old(self).len, final(self).dict@ == old(self).dict@,
    {
        let Self { counts, dict, .. } = self;
        let ghost len0 = self.len as int;
        let ghost dict0 = dict@;
        if query.words.len() == 0 {
            return Vec::new();
        }
        counts.clear();
        counts.resize(self.len, 0);
        let grams = Self::collect_grams(&query);
        let __end0 = grams.len();
        for __i0 in 0..__end0
            invariant __end0 == grams@.len(), counts@.len() == len0, dict@ == dict0, postings_wf(dict0, len0),
                forall|j: int| 0 <= j < counts@.len() ==> #[trigger] counts@[j] <= __i0, // [C01 C10 C18]
        {
            let gram = &grams[__i0];
            if let Some(ixs) = dict.get(gram) {
                let __end1 = ixs.len();
                for __i1 in 0..__end1
                    invariant __end1 == ixs@.len(), __end0 == grams@.len(), __i0 < __end0, counts@.len() == len0, dict@ == dict0, postings_wf(dict0, len0),
                        dict0.contains_key(*gram), ixs@ == dict0[*gram]@,
                        forall|j: int| 0 <= j < counts@.len() ==> #[trigger] counts@[j] <= __i0 + 1, // [C01 C10 C18]
                        forall|j: int| 0 <= j < counts@.len() && (forall|t: int| 0 <= t < __i1 ==> ixs@[t] != j) ==> #[trigger] counts@[j] <= __i0, // [C01 C10 C18]
                {
                    let ix = ixs[__i1];
                    unsafe {
                        *counts.get_unchecked_mut(ix) += 1;
                    }
                }
            }
        }
        prepare_tail(counts, size)
    }
    fn collect_grams(text: &TextRef) -> (ret: Vec<[char; 3]>)
        requires text_ok(text),
        // sorted and de-duplicated: no gram occurs twice
        ensures ret@.no_duplicates(),
    {
        let mut __acc0: usize = 0;
        let __end0 = text.words.len();
        for __i0 in 0..__end0
            invariant __end0 == text.words@.len(), text_ok(text), __acc0 == sum_len(text.words@, __i0 as int),
        {
            let w = &text.words[__i0];
            proof { lemma_sum_len_mono(text.words@, __i0 as int + 1, text.words@.len() as int); }
            __acc0 += w.len();
        }
        let cap = __acc0;
        let mut grams = Vec::with_capacity(cap);
        let __end1 = text.words.len();
        for __i1 in 0..__end1
            invariant __end1 == text.words@.len(), text_ok(text),
        {
            let word = &text.words[__i1];
            let chars = &text.chars[word.slice.0..word.slice.1];
            let mut __it2 = TrigramIter::new(chars);
            loop
                invariant __it2.wf(),
                decreases __it2.remaining().len(),
            {
                match __it2.next() {
                    Some(gram) => {
                        grams.push(gram);
                    }
                    None => {
                        break;
                    }
                }
            }
        }
        grams.sort_unstable();
        let ghost sorted = grams@;
        proof { lemma_gdedup::<[char; 3]>(sorted); }
        grams.dedup();
        grams
    }
}
