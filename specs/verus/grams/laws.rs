// ======================================================================= gram laws (C03 C04): which words share a gram
// two words share a gram
pub open spec fn shares_gram(a: Seq<char>, b: Seq<char>) -> bool {
    exists|i: int, j: int| 0 <= i < gram_list(a).len() && 0 <= j < gram_list(b).len() && #[trigger] gram_list(a)[i] == #[trigger] gram_list(b)[j]
}
proof fn lemma_gram_list_shape(w: Seq<char>)
    ensures gram_list(w).len() == heads(w).len() + windows(w).len(),
        w.len() >= 1 ==> gram_list(w)[0] == seq![w[0], '\0', '\0'],
        forall|t: int| 0 <= t && t + 2 < w.len() ==> #[trigger] gram_list(w)[heads(w).len() + t] == seq![w[t], w[t + 1], w[t + 2]],
        w.len() >= 2 ==> heads(w).len() == 2, w.len() >= 3 ==> windows(w).len() == w.len() - 2,
{
}
// G-prefix (C03): words that start with the same character share the one-letter word-start gram; in particular a non-empty
// prefix of a word shares a gram with it
pub proof fn lemma_gram_prefix(q: Seq<char>, r: Seq<char>)
    requires q.len() >= 1, r.len() >= 1, q[0] == r[0],
    ensures shares_gram(q, r),
{
    lemma_gram_list_shape(q); lemma_gram_list_shape(r);
    assert(gram_list(q)[0] == gram_list(r)[0]);
}
// window t of a and window u of b are the same three characters
proof fn lemma_gram_window(a: Seq<char>, t: int, b: Seq<char>, u: int)
    requires 0 <= t, t + 2 < a.len(), 0 <= u, u + 2 < b.len(), a[t] == b[u], a[t + 1] == b[u + 1], a[t + 2] == b[u + 2],
    ensures shares_gram(a, b),
{
    lemma_gram_list_shape(a); lemma_gram_list_shape(b);
    assert(gram_list(a)[heads(a).len() + t] == gram_list(b)[heads(b).len() + u]);
}
// G-edit1 (C04): a word of at least five characters and any one-edit neighbour of it share a gram
// substitution at position p
pub proof fn lemma_gram_sub(w1: Seq<char>, w2: Seq<char>, p: int)
    requires 0 <= p < w1.len(), w1.len() == w2.len(), forall|t: int| 0 <= t < w1.len() && t != p ==> w1[t] == w2[t], w1.len() >= 4,
    ensures shares_gram(w1, w2),
{
    if p == 0 { lemma_gram_window(w1, 1, w2, 1); } else { lemma_gram_prefix(w1, w2); }
}
// insertion: w2 is w1 with one character inserted before position p
pub proof fn lemma_gram_ins(w1: Seq<char>, w2: Seq<char>, p: int)
    requires 0 <= p <= w1.len(), w2.len() == w1.len() + 1, forall|t: int| 0 <= t < p ==> w1[t] == w2[t], forall|t: int| p <= t < w1.len() ==> w1[t] == w2[t + 1], w1.len() >= 3,
    ensures shares_gram(w1, w2),
{
    if p == 0 { lemma_gram_window(w1, 0, w2, 1); } else { lemma_gram_prefix(w1, w2); }
}
// deletion: w2 is w1 with the character at position p removed
pub proof fn lemma_gram_del(w1: Seq<char>, w2: Seq<char>, p: int)
    requires 0 <= p <= w2.len(), w1.len() == w2.len() + 1, forall|t: int| 0 <= t < p ==> w2[t] == w1[t], forall|t: int| p <= t < w2.len() ==> w2[t] == w1[t + 1], w2.len() >= 3,
    ensures shares_gram(w1, w2),
{
    if p == 0 { lemma_gram_window(w1, 1, w2, 0); } else { lemma_gram_prefix(w1, w2); }
}
// transposition of the characters at positions p and p+1
pub proof fn lemma_gram_trans(w1: Seq<char>, w2: Seq<char>, p: int)
    requires 0 <= p, p + 1 < w1.len(), w1.len() == w2.len(), w1[p] == w2[p + 1], w1[p + 1] == w2[p], forall|t: int| 0 <= t < w1.len() && t != p && t != p + 1 ==> w1[t] == w2[t], w1.len() >= 5,
    ensures shares_gram(w1, w2),
{
    if p == 0 { lemma_gram_window(w1, 2, w2, 2); } else { lemma_gram_prefix(w1, w2); }
}
// from words to texts: when word kq of the query and word kr of a record's title share a gram, some [char; 3] is a gram of both
// texts -- which is what makes the record a candidate (prepare_post / Store::indexed)
pub proof fn lemma_common_gram(qw: Seq<WordShape>, qc: Seq<char>, kq: int, rw: Seq<WordShape>, rc: Seq<char>, kr: int)
    requires 0 <= kq < qw.len(), 0 <= kr < rw.len(), shares_gram(word_chars(qw, qc, kq), word_chars(rw, rc, kr)),
    ensures exists|g: [char; 3]| #[trigger] has_gram(rw, rc, g@) && has_gram(qw, qc, g@),
{
    let a = word_chars(qw, qc, kq); let b = word_chars(rw, rc, kr);
    let (i, j) = choose|i: int, j: int| 0 <= i < gram_list(a).len() && 0 <= j < gram_list(b).len() && #[trigger] gram_list(a)[i] == #[trigger] gram_list(b)[j];
    let s = gram_list(a)[i];
    lemma_gram_list_shape(a);
    assert(s.len() == 3) by {
        if i < heads(a).len() { } else { assert(gram_list(a)[i] == windows(a)[i - heads(a).len()]); }
    }
    let g: [char; 3] = [s[0], s[1], s[2]];
    assert(g@ =~= s);
    assert(has_gram(qw, qc, g@));
    assert(gram_list(word_chars(rw, rc, kr))[j] == g@);
    assert(has_gram(rw, rc, g@));
}
