//@include ../common/head.rs
use core::cmp::Ordering::{Less, Equal, Greater};
//@include ../common/float.rs
//@include ../common/slices.rs
//@include ../common/uses.rs
//@include ../common/charord.rs
//@include ../common/hashmap.rs
broadcast use {fax::g, sax::ix_ok_usize, sax::ix_val_usize, sax::ix_upd_usize, vstd::std_specs::hash::group_hash_axioms, kax::char_key_model, cax::sort_post_char, cax::dedup_of_char, hax::gram_key_model, hax::gm_some_gram, hax::gm_none_gram, hax::sort_post_gram, hax::dedup_of_gram};
//@include ../common/helpers.rs
//@include ../dl/body.rs
//@include ../shapes/body.rs
//@include ../textref/body.rs
//@include ../textown/body.rs
//@include body.rs
//@include laws.rs
//@include ../common/tail.rs
