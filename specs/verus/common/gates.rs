// ===== float facts FF3 / FF4 (DESIGN.md §6.0.2): one-sided integer characterisations of the threshold gates, stated
// over the unit's extracted constants LENGTH_THRESHOLD / JACCARD_THRESHOLD / DAMLEV_THRESHOLD.  Each axiom is
// discharged on the machine operators and the repository's own constants by the Kani harness named in its comment.
pub const F64_EPSILON: f64 = 2.220446049250313e-16; // == std::f64::EPSILON (checked by harness ff3_dl_gate)
pub open spec fn f_lt(a: f64, b: f64) -> bool { a.partial_cmp_spec(&b) == Some(Ordering::Less) }
pub open spec fn f_gt(a: f64, b: f64) -> bool { a.partial_cmp_spec(&b) == Some(Ordering::Greater) }
pub open spec fn f_le(a: f64, b: f64) -> bool { a.partial_cmp_spec(&b) == Some(Ordering::Less) || a.partial_cmp_spec(&b) == Some(Ordering::Equal) }
// the exact expressions of length_check / jaccard_check / word_match
pub open spec fn len_gate(s: int, l: int) -> bool { f_lt((1.0f64).sub_spec(to_f64(s).div_spec(to_f64(l))), LENGTH_THRESHOLD) }
pub open spec fn jac_gate(d: f64) -> bool { f_lt(d, JACCARD_THRESHOLD) }
pub open spec fn jac_dist_of(i: int, u: int) -> f64 { (1.0f64).sub_spec(to_f64(i).div_spec(to_f64(u))) }
pub open spec fn dl_exceeds(d: f64, n: int) -> bool { f_gt(d.div_spec(to_f64(n)), DAMLEV_THRESHOLD) }
mod gax {
    use vstd::prelude::*;
    use super::*;
    // harness ff3_len_gate
    pub axiom fn ax_len_gate_pass(s: int, l: int) requires 2 <= s <= l < 0x10_0000, 4 * s >= 3 * l ensures len_gate(s, l);
    pub axiom fn ax_len_gate_sound(s: int, l: int) requires 2 <= s <= l < 0x10_0000, len_gate(s, l) ensures 100 * s > 73 * l;
    // harness ff3_jac_gate
    pub axiom fn ax_jac_gate_pass(i: int, u: int) requires 0 <= i <= u, 1 <= u < 0x40_0000, 2 * i >= u ensures jac_gate(jac_dist_of(i, u));
    pub axiom fn ax_jac_gate_sound(i: int, u: int) requires 0 <= i <= u, 1 <= u < 0x40_0000, jac_gate(jac_dist_of(i, u)) ensures 100 * i > 48 * u;
    // harness ff3_dl_gate
    pub axiom fn ax_dl_gate_pass(d: f64, n: int) requires is_h(d), 0 <= hv(d) < 0x20_0000, 1 <= n < 0x10_0000, 5 * hv(d) <= 2 * n ensures !dl_exceeds(d, n);
    pub axiom fn ax_dl_gate_sound(d: f64, n: int) requires is_h(d), 0 <= hv(d) < 0x20_0000, 1 <= n < 0x10_0000, !dl_exceeds(d, n) ensures 100 * hv(d) <= 43 * n;
    pub axiom fn ax_eps(d: f64) requires is_h(d), 0 <= hv(d) < 0x20_0000 ensures f_le(d, F64_EPSILON) == (hv(d) == 0);
    // harness ff4_ceil_half
    pub axiom fn ax_ceil_half(d: f64) requires is_h(d), 0 <= hv(d) < 0x100_0000_0000 ensures ceil_of(d) == (hv(d) + 1) / 2;
}
// R3 helpers for the remaining casts
#[verifier::external_body]
fn f64_ceil_as_usize(x: f64) -> (r: usize) requires 0 <= ceil_of(x) < 0x1_0000_0000 ensures r == ceil_of(x) { x.ceil() as usize }
fn usize_absdiff(a: usize, b: usize) -> (r: usize) ensures r == if a >= b { a - b } else { b - a } { if a >= b { a - b } else { b - a } }
pub assume_specification<T, P: FnOnce(&T) -> bool>[ Option::<T>::filter::<P> ](o: Option<T>, p: P) -> (r: Option<T>)
    requires o matches Some(v) ==> p.requires((&v,)),
    ensures match o { None => r is None, Some(v) => (r == Some(v) && p.ensures((&v,), true)) || (r is None && p.ensures((&v,), false)) };
pub assume_specification<T, F: FnOnce() -> Option<T>>[ Option::<T>::or_else::<F> ](o: Option<T>, f: F) -> (r: Option<T>)
    requires o is None ==> f.requires(()),
    ensures match o { Some(v) => r == Some(v), None => f.ensures((), r) };
