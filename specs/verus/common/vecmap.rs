// ===== trusted: HashMap<Vec<char>, V> looked up with a `&[char]` key (Borrow<[char]> for Vec<char>): the documented
// behaviour of `get` — Some(v) exactly when a key with the same characters is present, and then v is its value
pub open spec fn map_has<V>(m: &HashMap<Vec<char>, V>, key: Seq<char>, val: Seq<char>) -> bool where V: View<V = Seq<char>> {
    exists|k: Vec<char>| m@.contains_key(k) && k@ == key && (#[trigger] m@[k])@ == val
}
// lookup by characters as a function: the value under the key with these characters, if there is one
pub open spec fn has_key_chars<V>(m: &HashMap<Vec<char>, V>, key: Seq<char>) -> bool { exists|k: Vec<char>| #[trigger] m@.contains_key(k) && k@ == key }
pub open spec fn mlook(m: &HashMap<Vec<char>, Vec<char>>, key: Seq<char>) -> Option<Seq<char>> {
    if has_key_chars(m, key) { let k = choose|k: Vec<char>| #[trigger] m@.contains_key(k) && k@ == key; Some(m@[k]@) } else { None }
}
// ===== normalisation as a function (C02 C11): longest pattern first over a two-character window; an unmatched character stands
// for itself.  norm_step gives the number of characters consumed and what they are replaced by
pub open spec fn norm_step(m: &HashMap<Vec<char>, Vec<char>>, w: Seq<char>) -> (int, Seq<char>) {
    if w.len() >= 2 && mlook(m, w.take(2)) is Some { (2, mlook(m, w.take(2))->0) }
    else if mlook(m, w.take(1)) is Some { (1, mlook(m, w.take(1))->0) }
    else { (1, w.take(1)) }
}
pub open spec fn norm_seq(m: &HashMap<Vec<char>, Vec<char>>, w: Seq<char>) -> Seq<char>
    decreases w.len()
{
    if w.len() == 0 { Seq::empty() } else { norm_step(m, w).1 + norm_seq(m, w.skip(norm_step(m, w).0)) }
}
// the function agrees with the relation that `get` is specified by
pub proof fn lemma_mlook(m: &HashMap<Vec<char>, Vec<char>>, key: Seq<char>, val: Seq<char>)
    requires map_has(m, key, val)
    ensures mlook(m, key) == Some(val)
{
    let k1 = choose|k: Vec<char>| m@.contains_key(k) && k@ == key && (#[trigger] m@[k])@ == val;
    assert(m@.contains_key(k1) && k1@ == key);
    assert(has_key_chars(m, key));
    assert forall|k: Vec<char>| #[trigger] m@.contains_key(k) && k@ == key implies k == k1 by { vax::vec_char_ext(k, k1); }
}
mod vax {
    use vstd::prelude::*;
    use vstd::std_specs::hash::*;
    use std::collections::HashMap;
    pub broadcast axiom fn vec_key_model() ensures #[trigger] obeys_key_model::<Vec<char>>();
    pub broadcast axiom fn borrowed_vec_key<V>(m: Map<Vec<char>, V>, q: &[char], v: V)
        ensures #[trigger] maps_borrowed_key_to_value::<Vec<char>, V, [char]>(m, q, v) == (exists|k: Vec<char>| #[trigger] m.contains_key(k) && k@ == q@ && m[k] == v);
    // two vectors with the same characters are the same key (Vec<char>: Eq is element-wise equality)
    pub axiom fn vec_char_ext(a: Vec<char>, b: Vec<char>) ensures a@ == b@ ==> a == b;
    pub broadcast axiom fn borrowed_vec_key_present<V>(m: Map<Vec<char>, V>, q: &[char])
        ensures #[trigger] contains_borrowed_key::<Vec<char>, V, [char]>(m, q) == (exists|k: Vec<char>| #[trigger] m.contains_key(k) && k@ == q@);
}
// ===== trusted: Vec<char>::extend(&[char]) appends the characters of the slice (documented behaviour)
mod vex {
    use vstd::prelude::*;
    pub uninterp spec fn ext_items<T, I>(i: I) -> Seq<T>;
    pub broadcast axiom fn ext_items_slice(s: &[char]) ensures #[trigger] ext_items::<char, &[char]>(s) == s@;
    pub assume_specification<'a, T: Copy + 'a, A: std::alloc::Allocator, I: IntoIterator<Item = &'a T>> [<Vec<T, A> as Extend<&'a T>>::extend] (v: &mut Vec<T, A>, it: I)
        ensures final(v)@ == old(v)@ + ext_items::<T, I>(it);
}
