// ===== trusted: HashMap<Vec<char>, V> looked up with a `&[char]` key (Borrow<[char]> for Vec<char>): the documented
// behaviour of `get` — Some(v) exactly when a key with the same characters is present, and then v is its value
pub open spec fn map_has<V>(m: &HashMap<Vec<char>, V>, key: Seq<char>, val: Seq<char>) -> bool where V: View<V = Seq<char>> {
    exists|k: Vec<char>| m@.contains_key(k) && k@ == key && (#[trigger] m@[k])@ == val
}
mod vax {
    use vstd::prelude::*;
    use vstd::std_specs::hash::*;
    use std::collections::HashMap;
    pub broadcast axiom fn vec_key_model() ensures #[trigger] obeys_key_model::<Vec<char>>();
    pub broadcast axiom fn borrowed_vec_key<V>(m: Map<Vec<char>, V>, q: &[char], v: V)
        ensures #[trigger] maps_borrowed_key_to_value::<Vec<char>, V, [char]>(m, q, v) == (exists|k: Vec<char>| #[trigger] m.contains_key(k) && k@ == q@ && m[k] == v);
    pub broadcast axiom fn borrowed_vec_key_present<V>(m: Map<Vec<char>, V>, q: &[char])
        ensures #[trigger] contains_borrowed_key::<Vec<char>, V, [char]>(m, q) == (exists|k: Vec<char>| #[trigger] m.contains_key(k) && k@ == q@);
}
// ===== trusted: Vec<char>::extend(&[char]) appends the characters of the slice (documented behaviour)
mod vex {
    use vstd::prelude::*;
    pub uninterp spec fn ext_items<T, I>(i: I) -> Seq<T>;
    pub broadcast axiom fn ext_items_slice(s: &[char]) ensures #[trigger] ext_items::<char, &[char]>(s) == s@;
    pub assume_specification<'a, T: Copy + 'a, A: std::alloc::Allocator, I: IntoIterator<Item = &'a T>> [<Vec<T, A> as Extend<&'a T>>::extend] (v: &mut Vec<T, A>, it: I)
        ensures final(v)@ == old(v)@ + ext_items::<T, I>(it);
}
