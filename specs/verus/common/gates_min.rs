// R3 helpers for `x.ceil() as usize` and `b as isize`
#[verifier::external_body]
fn f64_ceil_as_usize(x: f64) -> (r: usize) requires 0 <= ceil_of(x) < 0x1_0000_0000 ensures r == ceil_of(x) { x.ceil() as usize }
fn bool_as_isize(b: bool) -> (r: isize) ensures r == (if b { 1int } else { 0int }) { if b { 1 } else { 0 } }
#[verifier::external_body]
fn f64_ceil_as_isize(x: f64) -> (r: isize) requires -0x1_0000_0000 < ceil_of(x) < 0x1_0000_0000 ensures r == ceil_of(x) { x.ceil() as isize }
