// ===== helpers introduced by the rewrite rules (not repository code)
// R3: `E as f64`
#[verifier::external_body]
fn usize_as_f64(x: usize) -> (r: f64) ensures r == to_f64(x as int) { x as f64 }
// R5: the repository's max!/min! macros expand to std::cmp::max/min
fn vmax(a: usize, b: usize) -> (r: usize) ensures r == if a >= b { a } else { b } { if a >= b { a } else { b } }
fn vmin(a: usize, b: usize) -> (r: usize) ensures r == if a <= b { a } else { b } { if a <= b { a } else { b } }
// R23: debug_assert!/assert! become an obligation that the condition holds; panic! that it is unreachable
fn vassert(c: bool) requires c {}
fn vpanic<T>() -> T requires false { vstd::pervasive::unreached() }
// a word has at most 2^30 characters (DESIGN.md §4.3)
pub open spec fn fits(len: nat) -> bool { len <= 0x4000_0000 }
