//@include limitsort_sel.rs
pub uninterp spec fn ls_spec<T, C>(items: Seq<T>, limit: usize, cmp: C) -> Seq<T>;
#[verifier::external_body]
pub fn limit_sort_all<T, C>(items: Vec<T>, limit: usize, cmp: C) -> (r: Vec<T>)
    requires limit <= 0x7fff_ffff_ffff_ffff,   // `limit * 2` in the adapter (same precondition as the proved driver in unit limitsort)
    ensures r@ == ls_spec(items@, limit, cmp),
        r@.len() == (if items@.len() < limit { items@.len() } else { limit as nat }),
        forall|k: int| 0 <= k < r@.len() ==> items@.contains(#[trigger] r@[k]),
        exists|idx: Seq<int>| selection(r@, items@, idx),
{ unimplemented!() }
