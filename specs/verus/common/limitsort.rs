//@include limitsort_sel.rs
pub uninterp spec fn ls_spec<T, C>(items: Seq<T>, limit: usize, cmp: C) -> Seq<T>;
// the comparator as a relation ("x is not after y"); which relation a comparator value stands for is stated per comparator where it
// is defined (the lifted closure's contract for the tags CmpRecords / CmpCounts, the Kani-checked lexicographic order for compare_hits)
pub uninterp spec fn ls_le<T, C>(cmp: C, x: T, y: T) -> bool;
#[verifier::opaque]
pub open spec fn ls_ok<T, C>(cmp: C) -> bool {
    (forall|x: T, y: T| #[trigger] ls_le(cmp, x, y) || ls_le(cmp, y, x))
    && (forall|x: T, y: T, z: T| #[trigger] ls_le(cmp, x, y) && #[trigger] ls_le(cmp, y, z) ==> ls_le(cmp, x, z))
}
pub open spec fn ls_sorted<T, C>(s: Seq<T>, cmp: C) -> bool { forall|i: int, j: int| 0 <= i <= j < s.len() ==> ls_le(cmp, #[trigger] s[i], #[trigger] s[j]) }
// nothing left out is before the last listed item
pub open spec fn ls_best<T, C>(r: Seq<T>, items: Seq<T>, idx: Seq<int>, cmp: C) -> bool {
    forall|i: int| 0 <= i < items.len() && !#[trigger] idx.contains(i) && r.len() > 0 ==> ls_le(cmp, r.last(), items[i])
}
#[verifier::external_body]
pub fn limit_sort_all<T, C>(items: Vec<T>, limit: usize, cmp: C) -> (r: Vec<T>)
    requires limit <= 0x7fff_ffff_ffff_ffff,   // `limit * 2` in the adapter (same precondition as the proved driver in unit limitsort)
    ensures r@ == ls_spec(items@, limit, cmp),
        r@.len() == (if items@.len() < limit { items@.len() } else { limit as nat }),
        forall|k: int| 0 <= k < r@.len() ==> items@.contains(#[trigger] r@[k]),
        // LS-sel and LS-ord (both proved in unit limitsort on the real adapter): a selection by distinct positions; for a comparator that
        // is a total preorder, in its order, and nothing left out is before the last listed item
        exists|idx: Seq<int>| selection(r@, items@, idx) && (ls_ok::<T, C>(cmp) ==> ls_best(r@, items@, idx, cmp)),
        ls_ok::<T, C>(cmp) ==> ls_sorted(r@, cmp),
{ unimplemented!() }
