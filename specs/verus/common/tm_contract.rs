// ---- contract of matching::text::text_match as its callers see it (C01 C06 C08 C09).  Proved on the real body in unit `text`;
// in units that only CALL text_match it is an assumed contract (listed as such in the evidence).
pub open spec fn text_wf(t: &TextRef) -> bool {
    t.words@.len() <= 0x10_0000 && t.chars@.len() <= 0x4000_0000 && t.source@.len() == t.chars@.len() && t.classes@.len() == t.chars@.len()
    && (forall|k: int| 0 <= k < t.words@.len() ==> (#[trigger] t.words@[k]).offset == k && t.words@[k].slice.0 < t.words@[k].slice.1 && t.words@[k].slice.1 <= t.chars@.len()
            && 1 <= t.words@[k].stem <= t.words@[k].slice.1 - t.words@[k].slice.0)
    && (forall|k: int, m: int| 0 <= k < m < t.words@.len() ==> (#[trigger] t.words@[k]).slice.1 <= (#[trigger] t.words@[m]).slice.0)
}
// words are short enough for the gate facts even when two of them are joined
pub open spec fn text_small(t: &TextRef) -> bool { forall|k: int| 0 <= k < t.words@.len() ==> (#[trigger] t.words@[k]).slice.1 - t.words@[k].slice.0 < 0x8_0000 }
// every returned match is for a word of the text: same slice, a non-empty prefix of it
pub open spec fn match_for_text(m: WordMatch, t: &TextRef) -> bool {
    m.offset < t.words@.len() && m.slice == t.words@[m.offset as int].slice && m.subslice.0 == 0 && 1 <= m.subslice.1 <= m.slice.1 - m.slice.0
}
pub open spec fn matches_for_text(ms: Seq<WordMatch>, t: &TextRef) -> bool {
    (forall|k: int| 0 <= k < ms.len() ==> match_for_text(#[trigger] ms[k], t))
    // at most one match per word, in word order
    && (forall|a: int, b: int| 0 <= a < b < ms.len() ==> (#[trigger] ms[a]).offset < (#[trigger] ms[b]).offset)
}
// a match as the scoring functions need it: inside its word, small non-negative rounded-up typo count
pub open spec fn match_ok(m: WordMatch) -> bool {
    m.slice.0 <= m.slice.1 <= 0x4000_0000 && m.subslice.0 <= m.subslice.1 && m.subslice.1 - m.subslice.0 <= m.slice.1 - m.slice.0
    && 0 <= ceil_of(m.typos) <= 0x4000_0000 && m.offset <= 0x4000_0000
}
pub open spec fn matches_ok(ms: Seq<WordMatch>) -> bool { ms.len() <= 0x10_0000 && forall|k: int| 0 <= k < ms.len() ==> match_ok(#[trigger] ms[k]) }
// what text_match guarantees about its result (both lists)
pub open spec fn tm_post(rtext: &TextRef, qtext: &TextRef, ret: (Vec<WordMatch>, Vec<WordMatch>)) -> bool {
    matches_for_text(ret.0@, rtext) && matches_for_text(ret.1@, qtext) && matches_ok(ret.0@) && matches_ok(ret.1@)
    // matches come in pairs: a record-side match is never without a query-side one
    && (ret.0@.len() >= 1 ==> ret.1@.len() >= 1)
}
//@include edit_forms.rs
// C09 / C12: a query without words matches nothing
pub open spec fn tm_empty(qtext: &TextRef, ret: (Vec<WordMatch>, Vec<WordMatch>)) -> bool { qtext.words@.len() == 0 ==> ret.0@.len() == 0 && ret.1@.len() == 0 }
// ---- recall side of text_match (C03 C04 C13): TM-some.  The first query word is an exact prefix of (while still being typed), or
// the same characters as, word j of the record text ==> the record gets at least one match
pub open spec fn tchars(t: &TextRef, k: int) -> Seq<char> { t.chars@.subrange(t.words@[k].slice.0 as int, t.words@[k].slice.1 as int) }
pub open spec fn starts_with(w: Seq<char>, p: Seq<char>) -> bool { p.len() <= w.len() && forall|t: int| 0 <= t < p.len() ==> w[t] == p[t] }
pub open spec fn pair_prefix(rtext: &TextRef, qtext: &TextRef, j: int) -> bool {
    0 <= j < rtext.words@.len() && qtext.words@.len() >= 1 && !qtext.words@[0].fin && starts_with(tchars(rtext, j), tchars(qtext, 0))
}
pub open spec fn pair_equal(rtext: &TextRef, qtext: &TextRef, j: int) -> bool {
    0 <= j < rtext.words@.len() && qtext.words@.len() >= 1 && tchars(rtext, j).len() == tchars(qtext, 0).len() && starts_with(tchars(rtext, j), tchars(qtext, 0))
}
// C04: the first query word (still being typed) is one explicit edit away from word j of the record text, which has at least five
// characters, three of them different
pub open spec fn pair_edit1(rtext: &TextRef, qtext: &TextRef, j: int, p: int) -> bool {
    0 <= j < rtext.words@.len() && qtext.words@.len() >= 1 && !qtext.words@[0].fin && tchars(rtext, j).len() >= 5 && three_letters(tchars(rtext, j))
    && (is_sub(tchars(rtext, j), tchars(qtext, 0), p) || is_ins(tchars(rtext, j), tchars(qtext, 0), p) || is_del(tchars(rtext, j), tchars(qtext, 0), p) || is_trans(tchars(rtext, j), tchars(qtext, 0), p))
}
pub open spec fn tm_some(rtext: &TextRef, qtext: &TextRef, ret: (Vec<WordMatch>, Vec<WordMatch>)) -> bool {
    ((exists|j: int| #![trigger pair_prefix(rtext, qtext, j)] #![trigger pair_equal(rtext, qtext, j)] pair_prefix(rtext, qtext, j) || pair_equal(rtext, qtext, j)) ==> ret.0@.len() >= 1)
    && ((exists|j: int, p: int| #[trigger] pair_edit1(rtext, qtext, j, p)) ==> ret.0@.len() >= 1)
}
// ---- TM-first / TM-fin (C13, queries of several words).  TM-first: under the TM-some conditions the first query word itself is
// matched.  TM-fin: a record-side match that is not marked finished comes with a query-side match of a query word that is not finished.
pub open spec fn first_matched(qms: Seq<WordMatch>) -> bool { exists|b: int| 0 <= b < qms.len() && (#[trigger] qms[b]).offset == 0 }
pub open spec fn tm_first(rtext: &TextRef, qtext: &TextRef, ret: (Vec<WordMatch>, Vec<WordMatch>)) -> bool {
    ((exists|j: int| #![trigger pair_prefix(rtext, qtext, j)] #![trigger pair_equal(rtext, qtext, j)] pair_prefix(rtext, qtext, j) || pair_equal(rtext, qtext, j)) ==> first_matched(ret.1@))
    && ((exists|j: int, p: int| #[trigger] pair_edit1(rtext, qtext, j, p)) ==> first_matched(ret.1@))
}
pub open spec fn unfin_match(qtext: &TextRef, qms: Seq<WordMatch>) -> bool {
    exists|b: int| 0 <= b < qms.len() && (#[trigger] qms[b]).offset < qtext.words@.len() && !qtext.words@[qms[b].offset as int].fin
}
pub open spec fn tm_fin(qtext: &TextRef, ret: (Vec<WordMatch>, Vec<WordMatch>)) -> bool {
    forall|a: int| 0 <= a < ret.0@.len() && !(#[trigger] ret.0@[a]).fin ==> unfin_match(qtext, ret.1@)
}
// ---- C14: split and joined spellings.  pair_split: word j of the record text is spelled by the first two query words (one separator
// between them, the second one still being typed); the word has at least five characters, three of them different.
pub open spec fn pair_split(rtext: &TextRef, qtext: &TextRef, j: int) -> bool {
    0 <= j < rtext.words@.len() && qtext.words@.len() >= 2 && !qtext.words@[1].fin && qtext.words@[1].slice.0 == qtext.words@[0].slice.1 + 1
    && tchars(rtext, j) == tchars(qtext, 0) + tchars(qtext, 1) && tchars(rtext, j).len() >= 5 && three_letters(tchars(rtext, j))
}
// pair_join: words j and j+1 of the record text (one separator between them) are run together in the first query word, which is still being
// typed and which stemming leaves unchanged; the second word has at least three characters, the run-together word three different ones
pub open spec fn pair_join(rtext: &TextRef, qtext: &TextRef, j: int) -> bool {
    0 <= j && j + 1 < rtext.words@.len() && qtext.words@.len() >= 1 && !qtext.words@[0].fin && rtext.words@[j + 1].slice.0 == rtext.words@[j].slice.1 + 1
    && tchars(qtext, 0) == tchars(rtext, j) + tchars(rtext, j + 1) && qtext.words@[0].stem == tchars(qtext, 0).len()
    && tchars(rtext, j + 1).len() >= 3 && three_letters(tchars(qtext, 0))
}
pub open spec fn tm_c14(rtext: &TextRef, qtext: &TextRef, ret: (Vec<WordMatch>, Vec<WordMatch>)) -> bool {
    ((exists|j: int| #[trigger] pair_split(rtext, qtext, j)) ==> ret.0@.len() >= 1 && first_matched(ret.1@))
    && ((exists|j: int| #[trigger] pair_join(rtext, qtext, j)) ==> ret.0@.len() >= 1 && first_matched(ret.1@))
}
