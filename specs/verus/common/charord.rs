mod cax {
    use vstd::prelude::*;
    use vstd::std_specs::cmp::*;
    use core::cmp::Ordering;
    use vstd::std_specs::vec::*;
    // trusted: `char`'s Ord is code-point order (vstd has no such axiom for char)
    pub axiom fn char_ord()
        ensures <char as OrdSpec>::obeys_cmp_spec(),
            forall|a: char, b: char| #[trigger] a.cmp_spec(&b) == (if (a as u32) < (b as u32) { Ordering::Less } else if a == b { Ordering::Equal } else { Ordering::Greater });
pub open spec fn lt(a: char, b: char) -> bool { (a as u32) < (b as u32) }
pub open spec fn le(a: char, b: char) -> bool { (a as u32) <= (b as u32) }
pub open spec fn sorted_strict(s: Seq<char>) -> bool { forall|i: int, j: int| 0 <= i < j < s.len() ==> lt(s[i], s[j]) }
pub open spec fn sorted_le(s: Seq<char>) -> bool { forall|i: int, j: int| 0 <= i < j < s.len() ==> le(s[i], s[j]) }
// documented behaviour of Vec::dedup: consecutive equal elements are removed, the first of each run is kept
pub open spec fn dedup_spec(s: Seq<char>) -> Seq<char> decreases s.len() {
    if s.len() <= 1 { s } else if s[s.len() - 2] == s[s.len() - 1] { dedup_spec(s.drop_last()) } else { dedup_spec(s.drop_last()).push(s[s.len() - 1]) }
}
// trusted std specs (documented behaviour): sort_unstable yields an ordered sequence of the same length with the
// same members (a consequence of "sorted permutation"); dedup removes consecutive duplicates
pub uninterp spec fn sort_post<T>(pre: Seq<T>, post: Seq<T>) -> bool;
pub broadcast axiom fn sort_post_char(pre: Seq<char>, post: Seq<char>)
    ensures #[trigger] sort_post::<char>(pre, post) == (sorted_le(post) && post.len() == pre.len() && forall|x: char| post.contains(x) <==> pre.contains(x));
pub assume_specification<T: Ord>[ <[T]>::sort_unstable ](s: &mut [T])
    ensures sort_post::<T>(old(s)@, final(s)@);
pub uninterp spec fn dedup_of<T>(s: Seq<T>) -> Seq<T>;
pub broadcast axiom fn dedup_of_char(s: Seq<char>) ensures #[trigger] dedup_of::<char>(s) == dedup_spec(s);
pub assume_specification<T: PartialEq, A: core::alloc::Allocator>[ Vec::<T, A>::dedup ](v: &mut Vec<T, A>)
    ensures final(v)@ == dedup_of::<T>(old(v)@);
}
use cax::*;
