// ---- vocabulary of the trigram index (C18 C05 C03 C04), shared by the units that prove it (grams, store) and the unit that
// only uses the candidate producer's contract (search)
// C18: gram generation: [w0,0,0], [w0,w1,0], then every window of three
pub open spec fn windows(w: Seq<char>) -> Seq<Seq<char>> {
    Seq::new(if w.len() >= 3 { (w.len() - 2) as nat } else { 0nat }, |i: int| seq![w[i], w[i + 1], w[i + 2]])
}
pub open spec fn heads(w: Seq<char>) -> Seq<Seq<char>> {
    if w.len() == 0 { seq![] } else if w.len() == 1 { seq![seq![w[0], '\0', '\0']] } else { seq![seq![w[0], '\0', '\0'], seq![w[0], w[1], '\0']] }
}
pub open spec fn gram_list(w: Seq<char>) -> Seq<Seq<char>> { heads(w) + windows(w) }
// the normalised characters of word k of a text
pub open spec fn word_chars(words: Seq<WordShape>, chars: Seq<char>, k: int) -> Seq<char> { chars.subrange(words[k].slice.0 as int, words[k].slice.1 as int) }
// g is a gram (one- or two-letter word start, or trigram) of one of the first `n` words of the text
pub open spec fn has_gram_upto(words: Seq<WordShape>, chars: Seq<char>, n: int, g: Seq<char>) -> bool {
    exists|k: int, j: int| 0 <= k < n && 0 <= j < gram_list(word_chars(words, chars, k)).len() && #[trigger] gram_list(word_chars(words, chars, k))[j] == g
}
pub open spec fn has_gram(words: Seq<WordShape>, chars: Seq<char>, g: Seq<char>) -> bool { has_gram_upto(words, chars, words.len() as int, g) }
// position j is on the posting list of gram g
pub open spec fn posted(dict: Map<[char; 3], Vec<usize>>, g: [char; 3], j: int) -> bool { dict.contains_key(g) && exists|t: int| 0 <= t < dict[g]@.len() && #[trigger] dict[g]@[t] == j }
// C05(a): position j shares a gram with the query text
pub open spec fn shares(dict: Map<[char; 3], Vec<usize>>, words: Seq<WordShape>, chars: Seq<char>, j: int) -> bool {
    exists|g: [char; 3]| has_gram(words, chars, g@) && #[trigger] posted(dict, g, j)
}
// posting lists: strictly increasing positions, all below `len` (C19: the counter vector has `len` slots; C18: no duplicates)
pub open spec fn postings_wf(dict: Map<[char; 3], Vec<usize>>, len: int) -> bool {
    forall|g: [char; 3]| dict.contains_key(g) ==> {
        let l = (#[trigger] dict[g])@;
        (forall|k: int| 0 <= k < l.len() ==> l[k] < len) && (forall|a: int, b: int| 0 <= a < b < l.len() ==> l[a] < l[b])
    }
}
// the words of a text lie inside its character array; the total length fits (implied by Text::wf: words are disjoint)
pub open spec fn sum_len(words: Seq<WordShape>, n: int) -> int decreases n { if n <= 0 { 0 } else { sum_len(words, n - 1) + (words[n - 1].slice.1 - words[n - 1].slice.0) } }
pub open spec fn text_ok_s(words: Seq<WordShape>, nchars: int) -> bool {
    (forall|k: int| 0 <= k < words.len() ==> (#[trigger] words[k]).slice.0 <= words[k].slice.1 && words[k].slice.1 <= nchars)
    && sum_len(words, words.len() as int) <= usize::MAX
}
pub open spec fn text_ok(t: &TextRef) -> bool { text_ok_s(t.words@, t.chars@.len() as int) }
impl TrigramIndex {
    pub open spec fn wf(&self) -> bool { self.len <= 0x4000_0000 && postings_wf(self.dict@, self.len as int) }
}
// C18: how many of the grams gs[0..n) list position j
pub open spec fn shared_cnt(dict: Map<[char; 3], Vec<usize>>, gs: Seq<[char; 3]>, j: int, n: int) -> int
    decreases n
{ if n <= 0 { 0 } else { shared_cnt(dict, gs, j, n - 1) + if posted(dict, gs[n - 1], j) { 1int } else { 0int } } }
// gs enumerates the grams of the text, each once
pub open spec fn gram_enum(gs: Seq<[char; 3]>, words: Seq<WordShape>, chars: Seq<char>) -> bool {
    gs.no_duplicates() && forall|g: [char; 3]| gs.contains(g) <==> has_gram(words, chars, g@)
}
// C18: the candidates are listed by non-increasing number of shared grams, and no position left out shares more grams than a listed one
pub open spec fn cnt_ranked(dict: Map<[char; 3], Vec<usize>>, gs: Seq<[char; 3]>, len: int, r: Seq<usize>) -> bool {
    (forall|a: int, b: int| 0 <= a <= b < r.len() ==> shared_cnt(dict, gs, #[trigger] r[a] as int, gs.len() as int) >= shared_cnt(dict, gs, #[trigger] r[b] as int, gs.len() as int))
    && (forall|j: int| 0 <= j < len && !#[trigger] r.contains(j as usize) && r.len() > 0 ==> shared_cnt(dict, gs, r.last() as int, gs.len() as int) >= shared_cnt(dict, gs, j, gs.len() as int))
}
// the positions that share a gram with the query text
pub open spec fn share_set(dict: Map<[char; 3], Vec<usize>>, len: int, words: Seq<WordShape>, chars: Seq<char>) -> Set<int> {
    vstd::set_lib::set_int_range(0, len).filter(|j: int| shares(dict, words, chars, j))
}
// contract of TrigramIndex::prepare as Store::search sees it: candidate positions are positions of existing records, none twice,
// at most 10*size of them; each shares a gram with the query; when the index holds at most 10*size records, every record that
// shares a gram with the query is a candidate
pub open spec fn prepare_post(dict: Map<[char; 3], Vec<usize>>, len: int, words: Seq<WordShape>, chars: Seq<char>, size: int, r: Seq<usize>) -> bool {
    (forall|k: int| 0 <= k < r.len() ==> #[trigger] r[k] < len) && r.no_duplicates() && r.len() <= size * 10
    && (forall|k: int| 0 <= k < r.len() ==> shares(dict, words, chars, #[trigger] r[k] as int)) // [C05]
    && (len <= size * 10 ==> forall|j: int| 0 <= j < len && #[trigger] shares(dict, words, chars, j) ==> r.contains(j as usize)) // [C03 C04]
    // C18: exactly min(number of sharing positions, 10*size) candidates; all of them when at most 10*size positions share a gram
    && r.len() == (if share_set(dict, len, words, chars).len() < size * 10 { share_set(dict, len, words, chars).len() as int } else { size * 10 }) // [C18]
    && (share_set(dict, len, words, chars).len() <= size * 10 ==> forall|j: int| 0 <= j < len && #[trigger] shares(dict, words, chars, j) ==> r.contains(j as usize)) // [C18 C03 C04]
    // C18: ordered by the number of shared grams (counted over a duplicate-free enumeration of the query's grams), best first
    && (exists|gs: Seq<[char; 3]>| #[trigger] gram_enum(gs, words, chars) && cnt_ranked(dict, gs, len, r)) // [C18]
}
