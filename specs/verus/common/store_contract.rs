// ---- vocabulary of the store (C10 C12 C06), shared by the unit that proves it (store) and the unit that uses it (search)
// the comparator closure of top_ixs' selection (rating descending, then normalised title ascending), replaced by name (R30)
pub struct CmpRecords;
// C12: the ranking an empty query must return: the selection LS of the *given* records under the *given* limit by that
// comparator, as record positions.  What matters for C10/C12 is *which* records and *which* limit it is applied to.
pub open spec fn rec_refs<'a>(records: Seq<Record>) -> Seq<&'a Record> { Seq::new(records.len(), |i: int| &records[i]) }
pub open spec fn spec_top(records: Seq<Record>, limit: usize) -> Seq<usize> {
    ls_spec(rec_refs(records), limit, CmpRecords).map_values(|r: &Record| r.ix)
}
// ---- C12: the order of the empty-query ranking: higher rating first; at equal rating the normalised titles in Vec's (lexicographic,
// code-point) order.  lex_cmp is uninterpreted; that it is a total preorder is the documented behaviour of Ord for Vec<char>.
pub uninterp spec fn lex_cmp<T>(a: Seq<T>, b: Seq<T>) -> Ordering;
pub open spec fn rec_order(a: &Record, b: &Record) -> Ordering {
    if a.rating > b.rating { Ordering::Less } else if a.rating < b.rating { Ordering::Greater } else { lex_cmp(a.title.chars@, b.title.chars@) }
}
pub open spec fn rec_le(a: &Record, b: &Record) -> bool { rec_order(a, b) != Ordering::Greater }
mod lax {
    use vstd::prelude::*;
    use core::cmp::Ordering;
    use super::{lex_cmp, ls_le, rec_le, CmpRecords, Record};
    pub axiom fn lex_total(a: Seq<char>, b: Seq<char>) ensures lex_cmp(a, b) != Ordering::Greater || lex_cmp(b, a) != Ordering::Greater;
    pub axiom fn lex_trans(a: Seq<char>, b: Seq<char>, c: Seq<char>) ensures lex_cmp(a, b) != Ordering::Greater && lex_cmp(b, c) != Ordering::Greater ==> lex_cmp(a, c) != Ordering::Greater;
    // link (rule R12b): the tag CmpRecords stands for the comparator closure of top_ixs, which is lifted into `cmp_records` and proved
    // there to return rec_order
    pub axiom fn ls_le_records(a: &Record, b: &Record) ensures ls_le::<&Record, CmpRecords>(CmpRecords, a, b) == rec_le(a, b);
}
pub proof fn lemma_rec_le_total(a: &Record, b: &Record) ensures rec_le(a, b) || rec_le(b, a) { lax::lex_total(a.title.chars@, b.title.chars@); }
pub proof fn lemma_rec_le_trans(a: &Record, b: &Record, c: &Record) requires rec_le(a, b), rec_le(b, c) ensures rec_le(a, c) { lax::lex_trans(a.title.chars@, b.title.chars@, c.title.chars@); }
pub proof fn lemma_ls_ok_records() ensures ls_ok::<&Record, CmpRecords>(CmpRecords)
{
    reveal(ls_ok);
    assert forall|x: &Record, y: &Record| #[trigger] ls_le::<&Record, CmpRecords>(CmpRecords, x, y) || ls_le::<&Record, CmpRecords>(CmpRecords, y, x) by {
        lax::ls_le_records(x, y); lax::ls_le_records(y, x); lemma_rec_le_total(x, y);
    }
    assert forall|x: &Record, y: &Record, z: &Record| #[trigger] ls_le::<&Record, CmpRecords>(CmpRecords, x, y) && #[trigger] ls_le::<&Record, CmpRecords>(CmpRecords, y, z) implies ls_le::<&Record, CmpRecords>(CmpRecords, x, z) by {
        lax::ls_le_records(x, y); lax::ls_le_records(y, z); lax::ls_le_records(x, z); lemma_rec_le_trans(x, y, z);
    }
}
// C12: the ranking is in that order, and no record left out is before the last listed one
pub open spec fn top_ordered(records: Seq<Record>, r: Seq<usize>) -> bool {
    (forall|a: int, b: int| 0 <= a <= b < r.len() ==> rec_le(&records[#[trigger] r[a] as int], &records[#[trigger] r[b] as int]))
    && (forall|j: int| 0 <= j < records.len() && !#[trigger] r.contains(j as usize) && r.len() > 0 ==> rec_le(&records[r.last() as int], &records[j]))
}
// contract of Store::top_ixs as Store::search sees it (C12 C06): min(limit, number of records) positions of existing records, none twice
pub open spec fn top_post(len: int, limit: int, r: Seq<usize>) -> bool {
    r.len() == (if len < limit { len } else { limit }) && r.no_duplicates() && forall|k: int| 0 <= k < r.len() ==> #[trigger] r[k] < len
}
impl Store {
    // C10: the store is observably a freshly built one: positions are consecutive, the index has one slot per record,
    // and the cached empty-query ranking, when present, is the ranking of the CURRENT records under the CURRENT limit
    pub open spec fn coherent(&self) -> bool {
        &&& self.next_ix == self.records@.len() && self.index.len == self.records@.len() && self.records@.len() < 0x4000_0000
        &&& self.index.wf()
        &&& (forall|k: int| 0 <= k < self.records@.len() ==> (#[trigger] self.records@[k]).ix == k)
        // the cache is keyed by the limit it was computed for, so a direct write of `store.limit` (lib.rs::set_limit)
        // cannot make it stale
        &&& (self.top_ixs matches Some(p) ==> p.1@ == spec_top(self.records@, p.0) && top_post(self.records@.len() as int, p.0 as int, p.1@) && top_ordered(self.records@, p.1@))
        // C18 / C05 / C03: the posting lists list position j under gram g exactly when g is a gram of record j's title
        &&& self.indexed()
    }
    pub open spec fn indexed(&self) -> bool {
        forall|g: [char; 3], j: int| #[trigger] posted(self.index.dict@, g, j) <==> (0 <= j < self.records@.len() && has_gram(self.records@[j].title.words@, self.records@[j].title.chars@, g@))
    }
    pub open spec fn fresh(&self) -> bool {
        self.next_ix == 0 && self.records@.len() == 0 && self.index.len == 0 && self.index.dict@ == Map::<[char; 3], Vec<usize>>::empty() && self.top_ixs is None
    }
}
