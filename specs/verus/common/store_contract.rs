// ---- vocabulary of the store (C10 C12 C06), shared by the unit that proves it (store) and the unit that uses it (search)
// the comparator closure of top_ixs' selection (rating descending, then normalised title ascending), replaced by name (R30)
pub struct CmpRecords;
// C12: the ranking an empty query must return: the selection LS of the *given* records under the *given* limit by that
// comparator, as record positions.  What matters for C10/C12 is *which* records and *which* limit it is applied to.
pub open spec fn rec_refs<'a>(records: Seq<Record>) -> Seq<&'a Record> { Seq::new(records.len(), |i: int| &records[i]) }
pub open spec fn spec_top(records: Seq<Record>, limit: usize) -> Seq<usize> {
    ls_spec(rec_refs(records), limit, CmpRecords).map_values(|r: &Record| r.ix)
}
// contract of Store::top_ixs as Store::search sees it (C12 C06): min(limit, number of records) positions of existing records, none twice
pub open spec fn top_post(len: int, limit: int, r: Seq<usize>) -> bool {
    r.len() == (if len < limit { len } else { limit }) && r.no_duplicates() && forall|k: int| 0 <= k < r.len() ==> #[trigger] r[k] < len
}
impl Store {
    // C10: the store is observably a freshly built one: positions are consecutive, the index has one slot per record,
    // and the cached empty-query ranking, when present, is the ranking of the CURRENT records under the CURRENT limit
    pub open spec fn coherent(&self) -> bool {
        &&& self.next_ix == self.records@.len() && self.index.len == self.records@.len() && self.records@.len() < 0x4000_0000
        &&& self.index.wf()
        &&& (forall|k: int| 0 <= k < self.records@.len() ==> (#[trigger] self.records@[k]).ix == k)
        // the cache is keyed by the limit it was computed for, so a direct write of `store.limit` (lib.rs::set_limit)
        // cannot make it stale
        &&& (self.top_ixs matches Some(p) ==> p.1@ == spec_top(self.records@, p.0) && top_post(self.records@.len() as int, p.0 as int, p.1@))
        // C18 / C05 / C03: the posting lists list position j under gram g exactly when g is a gram of record j's title
        &&& self.indexed()
    }
    pub open spec fn indexed(&self) -> bool {
        forall|g: [char; 3], j: int| #[trigger] posted(self.index.dict@, g, j) <==> (0 <= j < self.records@.len() && has_gram(self.records@[j].title.words@, self.records@[j].title.chars@, g@))
    }
    pub open spec fn fresh(&self) -> bool {
        self.next_ix == 0 && self.records@.len() == 0 && self.index.len == 0 && self.index.dict@ == Map::<[char; 3], Vec<usize>>::empty() && self.top_ixs is None
    }
}
