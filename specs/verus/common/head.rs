#![feature(allocator_api)]
#![allow(unused_imports, unused_variables, unused_mut, dead_code, unused_assignments, non_snake_case, unused_parens, unused_unsafe)]
use vstd::prelude::*;
use std::collections::HashMap;
use vstd::std_specs::ops::*;
use vstd::std_specs::cmp::*;
use core::cmp::Ordering;
verus! {
