#![feature(allocator_api)]
#![allow(unused_imports, unused_variables, unused_mut, dead_code, unused_assignments, non_snake_case, unused_parens, unused_unsafe)]
use vstd::prelude::*;
use std::collections::HashMap;
use vstd::std_specs::ops::*;
use vstd::std_specs::cmp::*;
use core::cmp::Ordering;
verus! {
// trusted: documented behaviour of Ordering::reverse (so that `a.cmp(b).reverse()` stays inside the verifiable subset)
pub open spec fn ord_rev(o: Ordering) -> Ordering { match o { Ordering::Less => Ordering::Greater, Ordering::Equal => Ordering::Equal, Ordering::Greater => Ordering::Less } }
// trusted: documented behaviour of Option::<&T>::copied (the by-value twin of `cloned` for Copy types)
pub assume_specification<T: Copy>[ Option::<&T>::copied ](o: Option<&T>) -> (r: Option<T>)
    ensures r == (match o { Some(x) => Some(*x), None => None::<T> });
pub assume_specification[ Ordering::reverse ](o: Ordering) -> (r: Ordering) ensures r == ord_rev(o);
