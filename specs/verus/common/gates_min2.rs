// R3 helper for `x.ceil() as isize` (text.rs candidate comparison)
#[verifier::external_body]
fn f64_ceil_as_isize(x: f64) -> (r: isize) requires -0x1_0000_0000 < ceil_of(x) < 0x1_0000_0000 ensures r == ceil_of(x) { x.ceil() as isize }
