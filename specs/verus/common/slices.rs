// ===== trusted: std's documented contract of get_unchecked / get_unchecked_mut (safety precondition idx < len)
mod sax {
    use vstd::prelude::*;
    pub uninterp spec fn ix_ok<T, I>(s: &[T], i: I) -> bool;
    pub broadcast axiom fn ix_ok_usize<T>(s: &[T], i: usize) ensures #[trigger] ix_ok::<T, usize>(s, i) == (i < s@.len());
    pub uninterp spec fn ix_val<T, I: core::slice::SliceIndex<[T]>>(s: &[T], i: I) -> &<I as core::slice::SliceIndex<[T]>>::Output;
    pub broadcast axiom fn ix_val_usize<T>(s: &[T], i: usize) ensures *(#[trigger] ix_val::<T, usize>(s, i)) == s@[i as int];
    pub assume_specification<T, I: core::slice::SliceIndex<[T]>>[ <[T]>::get_unchecked::<I> ](s: &[T], i: I) -> (r: &<I as core::slice::SliceIndex<[T]>>::Output)
        requires ix_ok::<T, I>(s, i),
        ensures r == ix_val::<T, I>(s, i);
    pub uninterp spec fn ix_upd<T, I: core::slice::SliceIndex<[T]>>(pre: &[T], post: &[T], i: I, cur: &<I as core::slice::SliceIndex<[T]>>::Output, fin: &<I as core::slice::SliceIndex<[T]>>::Output) -> bool;
    pub broadcast axiom fn ix_upd_usize<T>(pre: &[T], post: &[T], i: usize, cur: &T, fin: &T)
        ensures #[trigger] ix_upd::<T, usize>(pre, post, i, cur, fin) == (*cur == pre@[i as int] && post@ == pre@.update(i as int, *fin));
    pub assume_specification<T, I: core::slice::SliceIndex<[T]>>[ <[T]>::get_unchecked_mut::<I> ](s: &mut [T], i: I) -> (r: &mut <I as core::slice::SliceIndex<[T]>>::Output)
        requires ix_ok::<T, I>(old(s), i),
        ensures ix_upd::<T, I>(old(s), final(s), i, r, final(r));
    // <[T]>::to_vec: a vector with the same elements (Clone of the element types used here -- usize, char -- is the identity)
    pub assume_specification<T: Clone>[ <[T]>::to_vec ](s: &[T]) -> (r: Vec<T>)
        ensures r@ == s@;
}
