} // verus!
fn main() {}
