// ===== trusted: [char; 3] obeys the HashMap key model; documented behaviour of HashMap::get_mut; sort/dedup for gram vectors
mod hax {
    use vstd::prelude::*;
    use vstd::std_specs::hash::*;
    use std::collections::HashMap;
    pub broadcast axiom fn gram_key_model() ensures #[trigger] obeys_key_model::<[char; 3]>();
    // HashMap::get_mut (documented behaviour): Some(slot) iff the key is present; the slot holds the current value; the map
    // afterwards differs only at that key, where it holds whatever the caller left in the slot
    pub uninterp spec fn gm_some<K, V, S, A: std::alloc::Allocator, Q: ?Sized>(pre: &HashMap<K, V, S, A>, post: &HashMap<K, V, S, A>, k: &Q, cur: V, fin: V) -> bool;
    pub uninterp spec fn gm_none<K, V, S, A: std::alloc::Allocator, Q: ?Sized>(pre: &HashMap<K, V, S, A>, post: &HashMap<K, V, S, A>, k: &Q) -> bool;
    pub assume_specification<'a, K: std::cmp::Eq + std::hash::Hash + std::borrow::Borrow<Q>, V, S: std::hash::BuildHasher, A: std::alloc::Allocator, Q: std::marker::MetaSized + std::hash::Hash + std::cmp::Eq + ?Sized> [HashMap::<K, V, S, A>::get_mut] (m: &'a mut HashMap<K, V, S, A>, k: &Q) -> (r: Option<&'a mut V>)
        ensures match r { Some(v) => gm_some::<K, V, S, A, Q>(old(m), final(m), k, *v, *final(v)), None => gm_none::<K, V, S, A, Q>(old(m), final(m), k) };
    pub broadcast axiom fn gm_some_gram(pre: &HashMap<[char; 3], Vec<usize>>, post: &HashMap<[char; 3], Vec<usize>>, k: &[char; 3], cur: Vec<usize>, fin: Vec<usize>)
        ensures #[trigger] gm_some::<[char; 3], Vec<usize>, std::hash::RandomState, std::alloc::Global, [char; 3]>(pre, post, k, cur, fin) == (pre@.contains_key(*k) && cur == pre@[*k] && post@ == pre@.insert(*k, fin));
    pub broadcast axiom fn gm_none_gram(pre: &HashMap<[char; 3], Vec<usize>>, post: &HashMap<[char; 3], Vec<usize>>, k: &[char; 3])
        ensures #[trigger] gm_none::<[char; 3], Vec<usize>, std::hash::RandomState, std::alloc::Global, [char; 3]>(pre, post, k) == (!pre@.contains_key(*k) && post@ == pre@);
    // equal elements are adjacent (what any sort establishes)
    pub open spec fn grouped<T>(s: Seq<T>) -> bool { forall|i: int, j: int, k: int| 0 <= i <= k <= j < s.len() && s[i] == s[j] ==> s[k] == s[i] }
    pub open spec fn gdedup<T>(s: Seq<T>) -> Seq<T> decreases s.len() {
        if s.len() <= 1 { s } else if s[s.len() - 2] == s[s.len() - 1] { gdedup(s.drop_last()) } else { gdedup(s.drop_last()).push(s[s.len() - 1]) }
    }
    pub broadcast axiom fn sort_post_gram(pre: Seq<[char; 3]>, post: Seq<[char; 3]>)
        ensures #[trigger] super::sort_post::<[char; 3]>(pre, post) == (grouped(post) && post.len() == pre.len() && forall|x: [char; 3]| post.contains(x) <==> pre.contains(x));
    pub broadcast axiom fn dedup_of_gram(s: Seq<[char; 3]>) ensures #[trigger] super::dedup_of::<[char; 3]>(s) == gdedup(s);
}
use hax::*;
// get_mut for maps keyed by usize (the top-level registry), any value type
mod hux {
    use vstd::prelude::*;
    use std::collections::HashMap;
    use super::hax::*;
    pub broadcast axiom fn gm_some_usize<V>(pre: &HashMap<usize, V>, post: &HashMap<usize, V>, k: &usize, cur: V, fin: V)
        ensures #[trigger] gm_some::<usize, V, std::hash::RandomState, std::alloc::Global, usize>(pre, post, k, cur, fin) == (pre@.contains_key(*k) && cur == pre@[*k] && post@ == pre@.insert(*k, fin));
    pub broadcast axiom fn gm_none_usize<V>(pre: &HashMap<usize, V>, post: &HashMap<usize, V>, k: &usize)
        ensures #[trigger] gm_none::<usize, V, std::hash::RandomState, std::alloc::Global, usize>(pre, post, k) == (!pre@.contains_key(*k) && post@ == pre@);
    // Vec::capacity / reserve_exact (documented behaviour): capacity >= len; reserving does not change the contents
    pub uninterp spec fn vec_cap<T, A: std::alloc::Allocator>(v: &Vec<T, A>) -> nat;
    pub assume_specification<T, A: std::alloc::Allocator>[ Vec::<T, A>::capacity ](v: &Vec<T, A>) -> (r: usize)
        ensures r == vec_cap(v), r >= v@.len();
    pub assume_specification<T, A: std::alloc::Allocator>[ Vec::<T, A>::reserve_exact ](v: &mut Vec<T, A>, additional: usize)
        ensures final(v)@ == old(v)@;
}
