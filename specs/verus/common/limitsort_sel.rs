// ---- vocabulary of the selection stage `.limit_sort_unstable(limit, cmp)` of an iterator pipeline (rule R30 turns the pipeline into staged
// loops around this call).  ASSUMED contract LS-sel: the result is a function of (items, limit, cmp); it has min(n, limit)
// entries, which are entries of `items` at pairwise different positions.  (Lane K checks LS on the real LimitSortIter, bounded:
// length, no position twice, sorted, nothing omitted that is better than a listed one.)  The comparator argument is either the
// repository's comparator function or, for a closure comparator, a unit struct standing for the closure (its text is pinned by hash).
pub open spec fn selection<T>(r: Seq<T>, items: Seq<T>, idx: Seq<int>) -> bool {
    idx.len() == r.len() && idx.no_duplicates() && forall|k: int| 0 <= k < r.len() ==> 0 <= #[trigger] idx[k] < items.len() && r[k] == items[idx[k]]
}
// a selection that keeps as many entries as there are takes every position (pigeonhole)
pub proof fn lemma_selection_full<T>(r: Seq<T>, items: Seq<T>, idx: Seq<int>)
    requires selection(r, items, idx), r.len() == items.len(),
    ensures forall|j: int| 0 <= j < items.len() ==> idx.contains(j) && r.contains(#[trigger] items[j]),
{
    lemma_injection_onto(idx, items.len() as int);
    assert forall|j: int| 0 <= j < items.len() implies idx.contains(j) && r.contains(#[trigger] items[j]) by {
        assert(idx.contains(j));
        let k = choose|k: int| 0 <= k < idx.len() && idx[k] == j;
        assert(r[k] == items[idx[k]]);
    }
}
// n pairwise different numbers below n are all the numbers below n
pub proof fn lemma_injection_onto(idx: Seq<int>, n: int)
    requires idx.len() == n, idx.no_duplicates(), forall|k: int| 0 <= k < n ==> 0 <= #[trigger] idx[k] < n,
    ensures forall|j: int| 0 <= j < n ==> idx.contains(j),
    decreases n
{
    if n > 0 {
        if !idx.contains(n - 1) {
            // all n values lie below n-1: drop the last, still injective into [0, n-1) ... with n-1 slots for n-1 values; the last
            // value then collides
            let p = idx.drop_last();
            assert forall|k: int| 0 <= k < n - 1 implies 0 <= #[trigger] p[k] < n - 1 by { assert(idx[k] != n - 1) by { if idx[k] == n - 1 { assert(idx.contains(n - 1)); } } }
            assert(p.no_duplicates()) by { assert forall|a: int, b: int| 0 <= a < p.len() && 0 <= b < p.len() && a != b implies p[a] != p[b] by { assert(idx[a] != idx[b]); } }
            lemma_injection_onto(p, n - 1);
            let v = idx[n - 1];
            assert(v != n - 1) by { if v == n - 1 { assert(idx.contains(n - 1)); } }
            assert(p.contains(v));
            let k = choose|k: int| 0 <= k < p.len() && p[k] == v;
            assert(idx[k] == idx[n - 1]);
            assert(false);
        } else {
            let m = choose|m: int| 0 <= m < n && idx[m] == n - 1;
            // remove position m: the others are pairwise different numbers below n-1
            let p = idx.remove(m);
            assert forall|k: int| 0 <= k < n - 1 implies 0 <= #[trigger] p[k] < n - 1 by {
                let kk = if k < m { k } else { k + 1 };
                assert(p[k] == idx[kk]);
                assert(idx[kk] != idx[m]);
            }
            assert(p.no_duplicates()) by {
                assert forall|a: int, b: int| 0 <= a < p.len() && 0 <= b < p.len() && a != b implies p[a] != p[b] by {
                    let aa = if a < m { a } else { a + 1 }; let bb = if b < m { b } else { b + 1 };
                    assert(p[a] == idx[aa] && p[b] == idx[bb]); assert(idx[aa] != idx[bb]);
                }
            }
            lemma_injection_onto(p, n - 1);
            assert forall|j: int| 0 <= j < n implies idx.contains(j) by {
                if j < n - 1 { assert(p.contains(j)); let k = choose|k: int| 0 <= k < p.len() && p[k] == j; let kk = if k < m { k } else { k + 1 }; assert(idx[kk] == j); }
            }
        }
    }
}
