// ===== trusted std specs (documented behaviour) for the String building calls of `highlight`
mod sx {
    use vstd::prelude::*;
    pub uninterp spec fn iter_chars<I>(i: I) -> Seq<char>;
    pub broadcast axiom fn iter_chars_slice(s: &[char]) ensures #[trigger] iter_chars::<&[char]>(s) == s@;
    pub assume_specification[ String::with_capacity ](n: usize) -> (s: String)
        ensures s@ == Seq::<char>::empty();
    pub assume_specification<'a, I: IntoIterator<Item = &'a char>>[ <String as Extend<&'a char>>::extend::<I> ](s: &mut String, it: I)
        ensures final(s)@ == old(s)@ + iter_chars::<I>(it);
    pub assume_specification<F: FnMut(char) -> bool>[ String::retain::<F> ](s: &mut String, f: F)
        requires forall|c: char| f.requires((c,)),
        // std calls `f` once per character, in order, and keeps the characters for which it returned true
        ensures exists|keep: spec_fn(char) -> bool| (forall|c: char| #[trigger] f.ensures((c,), keep(c))) && final(s)@ == old(s)@.filter(keep);
    pub proof fn lemma_filter_ext(s: Seq<char>, p: spec_fn(char) -> bool, q: spec_fn(char) -> bool)
        requires forall|c: char| #[trigger] p(c) == q(c)
        ensures s.filter(p) == s.filter(q)
        decreases s.len()
    {
        reveal(Seq::filter);
        if s.len() > 0 { lemma_filter_ext(s.drop_last(), p, q); }
    }
}
use sx::*;
