// ---- the explicit one-edit relations between two words (C04), as plain sequence predicates
pub open spec fn three_letters(w: Seq<char>) -> bool {
    exists|i: int, j: int, k: int| 0 <= i < w.len() && 0 <= j < w.len() && 0 <= k < w.len() && #[trigger] w[i] != #[trigger] w[j] && w[i] != #[trigger] w[k] && w[j] != w[k]
}
// the four kinds of edit, r = record word characters, q = query word characters
pub open spec fn is_sub(r: Seq<char>, q: Seq<char>, p: int) -> bool { 0 <= p < r.len() && r.len() == q.len() && forall|t: int| 0 <= t < r.len() && t != p ==> r[t] == q[t] }
pub open spec fn is_ins(r: Seq<char>, q: Seq<char>, p: int) -> bool { 0 <= p <= r.len() && q.len() == r.len() + 1 && (forall|t: int| 0 <= t < p ==> r[t] == q[t]) && (forall|t: int| p <= t < r.len() ==> r[t] == q[t + 1]) }
pub open spec fn is_del(r: Seq<char>, q: Seq<char>, p: int) -> bool { is_ins(q, r, p) }
pub open spec fn is_trans(r: Seq<char>, q: Seq<char>, p: int) -> bool {
    0 <= p && p + 1 < r.len() && r.len() == q.len() && r[p] == q[p + 1] && r[p + 1] == q[p] && r[p] != r[p + 1] && forall|t: int| 0 <= t < r.len() && t != p && t != p + 1 ==> r[t] == q[t]
}
