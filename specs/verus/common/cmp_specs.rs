// ===== trusted: documented behaviour of Ordering::then_with and of Vec's lexicographic Ord (C12: the comparator of top_ixs)
pub uninterp spec fn lex_cmp<T>(a: Seq<T>, b: Seq<T>) -> Ordering;
#[verifier::allow(undeclared_external_trait)]
pub assume_specification<F: FnOnce() -> Ordering + core::marker::Destruct>[ Ordering::then_with ](o: Ordering, f: F) -> (r: Ordering)
    requires o == Ordering::Equal ==> f.requires(()),
    ensures o != Ordering::Equal ==> r == o, o == Ordering::Equal ==> f.ensures((), r);
pub assume_specification<T: Ord, A: core::alloc::Allocator>[ <Vec<T, A> as Ord>::cmp ](a: &Vec<T, A>, b: &Vec<T, A>) -> (r: Ordering)
    ensures r == lex_cmp(a@, b@);
// C12: the order of the empty-query ranking: higher rating first; at equal rating the normalised titles in lexicographic order
pub open spec fn rec_order(a: &Record, b: &Record) -> Ordering {
    if a.rating > b.rating { Ordering::Less } else if a.rating < b.rating { Ordering::Greater } else { lex_cmp(a.title.chars@, b.title.chars@) }
}
