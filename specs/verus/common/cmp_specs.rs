// ===== trusted: documented behaviour of Ordering::then_with and of Vec's lexicographic Ord (C12: the comparator of top_ixs);
// lex_cmp and rec_order are in store_contract.rs
#[verifier::allow(undeclared_external_trait)]
pub assume_specification<F: FnOnce() -> Ordering + core::marker::Destruct>[ Ordering::then_with ](o: Ordering, f: F) -> (r: Ordering)
    requires o == Ordering::Equal ==> f.requires(()),
    ensures o != Ordering::Equal ==> r == o, o == Ordering::Equal ==> f.ensures((), r);
pub assume_specification<T: Ord, A: core::alloc::Allocator>[ <Vec<T, A> as Ord>::cmp ](a: &Vec<T, A>, b: &Vec<T, A>) -> (r: Ordering)
    ensures r == lex_cmp(a@, b@);
