// ===== trusted: the std character predicates are uninterpreted functions of the character; C15 is stated relative to them
pub uninterp spec fn sp_alnum(c: char) -> bool;
pub uninterp spec fn sp_ws(c: char) -> bool;
pub uninterp spec fn sp_ctrl(c: char) -> bool;
pub uninterp spec fn sp_alpha(c: char) -> bool;
pub uninterp spec fn sp_upper(c: char) -> bool;
pub uninterp spec fn sp_lower(c: char) -> char;
pub open spec fn sp_punct(ch: char) -> bool {
    ch == '&' || ch == '(' || ch == ')' || ch == ',' || ch == ':' || ch == ';' || ch == '.' || ch == '!' || ch == '?'
    || ch == '-' || ch == '‑' || ch == '‒' || ch == '–' || ch == '—' || ch == '…' || ch == '‼' || ch == '⁇' || ch == '⁈' || ch == '⁉'
}
pub open spec fn is_sep(c: char) -> bool { sp_ws(c) || sp_ctrl(c) || sp_punct(c) }
// ===== assumptions about std's character tables, each CHECKED BY EXHAUSTIVE ENUMERATION of all Unicode scalar values with the
// real std functions (bin/charfacts; an enumeration, not a verifier): lower-casing (first char of to_lowercase) preserves
// is_alphanumeric / is_whitespace / is_control / punctuation membership; separators are never alphanumeric.
// NOT assumed (it is false for 549 code points such as U+2102): that a lower-cased character is not upper-case.
mod chx {
    use vstd::prelude::*;
    use super::*;
    pub broadcast axiom fn ax_lower_class(c: char)
        ensures sp_alnum(#[trigger] sp_lower(c)) == sp_alnum(c), sp_ws(sp_lower(c)) == sp_ws(c), sp_ctrl(sp_lower(c)) == sp_ctrl(c), sp_punct(sp_lower(c)) == sp_punct(c);
    pub broadcast axiom fn ax_sep_not_alnum(c: char) ensures is_sep(c) ==> !#[trigger] sp_alnum(c);
}
pub assume_specification[ char::is_alphanumeric ](c: char) -> (r: bool) ensures r == sp_alnum(c);
pub assume_specification[ char::is_control ](c: char) -> (r: bool) ensures r == sp_ctrl(c);
pub assume_specification[ char::is_alphabetic ](c: char) -> (r: bool) ensures r == sp_alpha(c);
pub assume_specification[ char::is_uppercase ](c: char) -> (r: bool) ensures r == sp_upper(c);
#[verifier::external_body]
fn char_is_ws(c: char) -> (r: bool) ensures r == sp_ws(c) { c.is_whitespace() }
// R18: `c.to_lowercase().next().unwrap_or(d)`; flagged assumption: one character per character
#[verifier::external_body]
fn char_to_lower(c: char, d: char) -> (r: char) ensures r == sp_lower(c) { c.to_lowercase().next().unwrap_or(d) }
// R18: `to_vec(s)` = s.chars().collect()
#[verifier::external_body]
fn to_vec(s: &str) -> (r: Vec<char>) ensures r@ == s@ { s.chars().collect() }
// ===== trusted: Vec::retain keeps, in order, exactly the elements for which the closure returned true
mod rex {
    use vstd::prelude::*;
    pub assume_specification<T, A: std::alloc::Allocator, F: FnMut(&T) -> bool>[ Vec::<T, A>::retain::<F> ](v: &mut Vec<T, A>, f: F)
        requires forall|i: int| 0 <= i < old(v)@.len() ==> f.requires((&#[trigger] old(v)@[i],)),
        ensures exists|keep: spec_fn(T) -> bool| (forall|i: int| 0 <= i < old(v)@.len() ==> f.ensures((&#[trigger] old(v)@[i],), keep(old(v)@[i]))) && final(v)@ == old(v)@.filter(keep);
}
