// ===== trusted: the std character predicates are uninterpreted functions of the character; C15 is stated relative to them
pub uninterp spec fn sp_alnum(c: char) -> bool;
pub uninterp spec fn sp_ws(c: char) -> bool;
pub uninterp spec fn sp_ctrl(c: char) -> bool;
pub uninterp spec fn sp_alpha(c: char) -> bool;
pub uninterp spec fn sp_upper(c: char) -> bool;
pub uninterp spec fn sp_lower(c: char) -> char;
pub open spec fn sp_punct(ch: char) -> bool {
    ch == '&' || ch == '(' || ch == ')' || ch == ',' || ch == ':' || ch == ';' || ch == '.' || ch == '!' || ch == '?'
    || ch == '-' || ch == '‑' || ch == '‒' || ch == '–' || ch == '—' || ch == '…' || ch == '‼' || ch == '⁇' || ch == '⁈' || ch == '⁉'
}
pub open spec fn is_sep(c: char) -> bool { sp_ws(c) || sp_ctrl(c) || sp_punct(c) }
// ===== assumptions about std's character tables, each CHECKED BY EXHAUSTIVE ENUMERATION of all Unicode scalar values with the
// real std functions (bin/charfacts; an enumeration, not a verifier): lower-casing (first char of to_lowercase) preserves
// is_alphanumeric / is_whitespace / is_control / punctuation membership; separators are never alphanumeric.
// NOT assumed (it is false for 549 code points such as U+2102): that a lower-cased character is not upper-case.
mod chx {
    use vstd::prelude::*;
    use super::*;
    pub broadcast axiom fn ax_lower_class(c: char)
        ensures sp_alnum(#[trigger] sp_lower(c)) == sp_alnum(c), sp_ws(sp_lower(c)) == sp_ws(c), sp_ctrl(sp_lower(c)) == sp_ctrl(c), sp_punct(sp_lower(c)) == sp_punct(c);
    pub broadcast axiom fn ax_sep_not_alnum(c: char) ensures is_sep(c) ==> !#[trigger] sp_alnum(c);
}
// ===== the ASCII-only predicates of std are DEFINED by code point (their documentation is the definition); their relation to the
// Unicode predicates above is one-way (ASCII white space is white space, not conversely), checked by bin/charfacts
pub open spec fn ascii_ws(c: char) -> bool { c == ' ' || c == '\t' || c == '\n' || c == '\x0C' || c == '\r' }
pub open spec fn ascii_upper(c: char) -> bool { 'A' as u32 <= c as u32 <= 'Z' as u32 }
pub open spec fn ascii_lower(c: char) -> bool { 'a' as u32 <= c as u32 <= 'z' as u32 }
pub open spec fn ascii_digit(c: char) -> bool { '0' as u32 <= c as u32 <= '9' as u32 }
pub open spec fn ascii_alpha(c: char) -> bool { ascii_upper(c) || ascii_lower(c) }
pub open spec fn ascii_alnum(c: char) -> bool { ascii_alpha(c) || ascii_digit(c) }
pub open spec fn ascii_ctrl(c: char) -> bool { c as u32 <= 0x1f || c as u32 == 0x7f }
pub open spec fn ascii_punct(c: char) -> bool { 33 <= c as u32 <= 47 || 58 <= c as u32 <= 64 || 91 <= c as u32 <= 96 || 123 <= c as u32 <= 126 }
mod chy {
    use vstd::prelude::*;
    use super::{sp_ws, sp_upper, sp_alpha, sp_alnum, sp_ctrl, ascii_ws, ascii_upper, ascii_alpha, ascii_alnum, ascii_ctrl};
    pub broadcast axiom fn ax_ascii_sub(c: char)
        ensures #![trigger sp_ws(c)] #![trigger sp_upper(c)] #![trigger sp_alpha(c)] #![trigger sp_alnum(c)] #![trigger sp_ctrl(c)]
            ascii_ws(c) ==> sp_ws(c), ascii_upper(c) ==> sp_upper(c), ascii_alpha(c) ==> sp_alpha(c), ascii_alnum(c) ==> sp_alnum(c), ascii_ctrl(c) ==> sp_ctrl(c);
}
pub assume_specification[ char::is_ascii_whitespace ](c: &char) -> (r: bool) ensures r == ascii_ws(*c);
pub assume_specification[ char::is_ascii_uppercase ](c: &char) -> (r: bool) ensures r == ascii_upper(*c);
pub assume_specification[ char::is_ascii_lowercase ](c: &char) -> (r: bool) ensures r == ascii_lower(*c);
pub assume_specification[ char::is_ascii_digit ](c: &char) -> (r: bool) ensures r == ascii_digit(*c);
pub assume_specification[ char::is_ascii_alphabetic ](c: &char) -> (r: bool) ensures r == ascii_alpha(*c);
pub assume_specification[ char::is_ascii_alphanumeric ](c: &char) -> (r: bool) ensures r == ascii_alnum(*c);
pub assume_specification[ char::is_ascii_control ](c: &char) -> (r: bool) ensures r == ascii_ctrl(*c);
pub assume_specification[ char::is_ascii_punctuation ](c: &char) -> (r: bool) ensures r == ascii_punct(*c);
// ASCII case mapping: a function of the character (no relation to the Unicode mapping sp_lower is assumed)
pub uninterp spec fn sp_ascii_lower(c: char) -> char;
pub uninterp spec fn sp_ascii_upper(c: char) -> char;
pub assume_specification[ char::to_ascii_lowercase ](c: &char) -> (r: char) ensures r == sp_ascii_lower(*c);
pub assume_specification[ char::to_ascii_uppercase ](c: &char) -> (r: char) ensures r == sp_ascii_upper(*c);
pub assume_specification[ char::is_alphanumeric ](c: char) -> (r: bool) ensures r == sp_alnum(c);
pub assume_specification[ char::is_control ](c: char) -> (r: bool) ensures r == sp_ctrl(c);
pub assume_specification[ char::is_alphabetic ](c: char) -> (r: bool) ensures r == sp_alpha(c);
pub assume_specification[ char::is_uppercase ](c: char) -> (r: bool) ensures r == sp_upper(c);
#[verifier::external_body]
fn char_is_ws(c: char) -> (r: bool) ensures r == sp_ws(c) { c.is_whitespace() }
// R18: `c.to_lowercase().next().unwrap_or(d)`; flagged assumption: one character per character
#[verifier::external_body]
fn char_to_lower(c: char, d: char) -> (r: char) ensures r == sp_lower(c) { c.to_lowercase().next().unwrap_or(d) }
// R18: `to_vec(s)` = s.chars().collect()
#[verifier::external_body]
fn to_vec(s: &str) -> (r: Vec<char>) ensures r@ == s@ { s.chars().collect() }
// ===== trusted: Vec::retain keeps, in order, exactly the elements for which the closure returned true
mod rex {
    use vstd::prelude::*;
    pub assume_specification<T, A: std::alloc::Allocator, F: FnMut(&T) -> bool>[ Vec::<T, A>::retain::<F> ](v: &mut Vec<T, A>, f: F)
        requires forall|i: int| 0 <= i < old(v)@.len() ==> f.requires((&#[trigger] old(v)@[i],)),
        ensures exists|keep: spec_fn(T) -> bool| (forall|i: int| 0 <= i < old(v)@.len() ==> f.ensures((&#[trigger] old(v)@[i],), keep(old(v)@[i]))) && final(v)@ == old(v)@.filter(keep);
}
