// ---- contracts of the two candidate producers as Store::search sees them (proved on the real bodies in units grams / store;
// the parts that come from the outlined iterator tails rest on the LS contract of lane K)
// candidates: positions of existing records, no position twice, at most `cap` of them
pub open spec fn cands_ok(r: Seq<usize>, len: int, cap: int) -> bool {
    (forall|k: int| 0 <= k < r.len() ==> #[trigger] r[k] < len) && r.no_duplicates() && r.len() <= cap
}
