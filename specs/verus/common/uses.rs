mod kax {
    use vstd::prelude::*;
    use vstd::std_specs::hash::*;
    // trusted: `char` obeys the hash-table key model (vstd ships this axiom for integer types and bool only)
    pub broadcast axiom fn char_key_model() ensures #[trigger] obeys_key_model::<char>();
}
use sax::*;
use fax::*;
// trusted: 64-bit target
global size_of usize == 8;
