// ===== trusted: f64 operators are total, deterministic functions of their operands; half-integer model.
// Every `h_*` axiom below is float fact FF1 of DESIGN.md §6.0.2 and is discharged bit-precisely by the
// Kani harness of the same name in specs/kani/float_facts.rs (lane K, obligation K.ff1.*).
mod fax {
    use vstd::prelude::*;
    use vstd::std_specs::ops::*;
    use vstd::std_specs::cmp::*;
    use core::cmp::Ordering;
    pub broadcast axiom fn f64_add_total(a: f64, b: f64) ensures #[trigger] a.add_req(b);
    pub broadcast axiom fn f64_sub_total(a: f64, b: f64) ensures #[trigger] a.sub_req(b);
    pub broadcast axiom fn f64_mul_total(a: f64, b: f64) ensures #[trigger] a.mul_req(b);
    pub broadcast axiom fn f64_div_total(a: f64, b: f64) ensures #[trigger] a.div_req(b);
    pub axiom fn f64_obeys() ensures <f64 as AddSpec>::obeys_add_spec(), <f64 as SubSpec>::obeys_sub_spec(), <f64 as MulSpec>::obeys_mul_spec(), <f64 as DivSpec>::obeys_div_spec(), <f64 as PartialEqSpec>::obeys_eq_spec(), <f64 as PartialOrdSpec>::obeys_partial_cmp_spec();
    // x is the half-integer hv(x)/2, exactly
    pub uninterp spec fn is_h(x: f64) -> bool;
    pub uninterp spec fn hv(x: f64) -> int;
    pub open spec fn hb(x: f64) -> bool { is_h(x) && 0 <= hv(x) < 0x100_0000_0000 }
    // FF1.add
    pub broadcast axiom fn h_add(a: f64, b: f64)
        requires hb(a), hb(b)
        ensures is_h(#[trigger] a.add_spec(b)), hv(a.add_spec(b)) == hv(a) + hv(b);
    // FF1.cmp
    pub broadcast axiom fn h_cmp(a: f64, b: f64)
        requires hb(a), hb(b)
        ensures (#[trigger] a.partial_cmp_spec(&b)) == Some(if hv(a) < hv(b) { Ordering::Less } else if hv(a) == hv(b) { Ordering::Equal } else { Ordering::Greater });
    // FF1.eq
    pub broadcast axiom fn h_eq(a: f64, b: f64)
        requires hb(a), hb(b)
        ensures (#[trigger] a.eq_spec(&b)) == (hv(a) == hv(b));
    // FF1.lit
    pub broadcast axiom fn h_lit_zero() ensures #[trigger] is_h(0.0f64), hv(0.0f64) == 0;
    pub broadcast axiom fn h_lit_half() ensures #[trigger] is_h(0.5f64), hv(0.5f64) == 1;
    pub broadcast axiom fn h_lit_one() ensures #[trigger] is_h(1.0f64), hv(1.0f64) == 2;
    // FF1.conv: `n as f64` is exact
    pub uninterp spec fn to_f64(x: int) -> f64;
    pub broadcast axiom fn h_conv(n: int) requires 0 <= n < 0x80_0000_0000 ensures is_h(#[trigger] to_f64(n)), hv(to_f64(n)) == 2 * n;
    // FF1.halfmul: 0.5 * (n as f64)
    pub broadcast axiom fn h_half_mul(n: int) requires 0 <= n < 0x80_0000_0000 ensures is_h(#[trigger] (0.5f64).mul_spec(to_f64(n))), hv((0.5f64).mul_spec(to_f64(n))) == n;
    pub broadcast group g { f64_add_total, f64_sub_total, f64_mul_total, f64_div_total, h_add, h_cmp, h_eq, h_lit_zero, h_lit_half, h_lit_one, h_conv, h_half_mul }
}
