// ======================================================================= U4: word shapes and matches
pub open spec fn spec_is_function(pos: Option<PartOfSpeech>) -> bool {
    pos == Some(PartOfSpeech::Article) || pos == Some(PartOfSpeech::Preposition) || pos == Some(PartOfSpeech::Conjunction) || pos == Some(PartOfSpeech::Particle)
}
impl<'a> WordView<'a> {
    // the per-word part of Text::wf (C15): slice in range and 1 <= stem <= len
    pub open spec fn wfs(&self) -> bool { self.wf() && 1 <= self.stem <= self.slice.1 - self.slice.0 }
    // two views of the same text
    pub open spec fn same_text(&self, other: &WordView) -> bool {
        self.source@ == other.source@ && self.chars@ == other.chars@ && self.classes@ == other.classes@
    }
    // `self` lies entirely before `other`
    pub open spec fn before(&self, other: &WordView) -> bool { self.slice.1 <= other.slice.0 }
}
// @item rust/core/src/tokenization/word.rs :: defaults Word as WordView<'a>::{is_function,dist}
impl<'a> WordView<'a> {
    fn is_function(&self) -> (ret: bool)
        ensures ret == spec_is_function(self.pos),
    {
        match self.pos() {
            Some(PartOfSpeech::Article) => true,
            Some(PartOfSpeech::Preposition) => true,
            Some(PartOfSpeech::Conjunction) => true,
            Some(PartOfSpeech::Particle) => true,
            _ => false,
        }
    }
    fn dist(&self, other: &Self) -> (ret: usize)
        // C01: the `panic!("Malformed words")` is unreachable when the words do not overlap (Text::wf: ordered, disjoint)
        requires self.slice.0 <= self.slice.1, other.slice.0 <= other.slice.1, self.slice.1 <= other.slice.0 || other.slice.1 <= self.slice.0,
        ensures ret == (if self.slice.0 >= other.slice.1 { self.slice.0 - other.slice.1 } else { other.slice.0 - self.slice.1 }),
    {
        let (left1, right1) = self.slice();
        let (left2, right2) = other.slice();
        if left1 >= right2 {
            return left1 - right2;
        }
        if left2 >= right1 {
            return left2 - right1;
        }
        return vpanic();
    }
}
// @item rust/core/src/tokenization/word_view.rs :: impl WordView::{to_shape,join}
impl<'a> WordView<'a> {
    pub fn to_shape(&'a self) -> (ret: WordShape)
        ensures ret.offset == self.offset, ret.slice == self.slice, ret.stem == self.stem, ret.pos == self.pos, ret.fin == self.fin,
    {
        WordShape { offset: self.offset, slice: self.slice, stem: self.stem, pos: self.pos, fin: self.fin }
    }
    pub fn join(&self, other: &Self) -> (ret: Self)
        // C14: the joined word spans both words and the gap; its stem is the offset of the second word plus that word's stem
        requires self.wfs(), other.wfs(), self.same_text(other), self.slice.0 < other.slice.0, self.slice.1 <= other.slice.0, fits((other.slice.1 - self.slice.0) as nat),
        ensures ret.offset == self.offset, ret.slice == (self.slice.0, other.slice.1), ret.stem == other.slice.0 - self.slice.0 + other.stem,
            ret.pos == None::<PartOfSpeech>, ret.fin == other.fin, ret.same_text(self), ret.wfs(),
    {
        Self { offset: self.offset, slice: (self.slice.0, other.slice.1), stem: other.slice.0 - self.slice.0 + other.stem, pos: None, fin: other.fin, source: &self.source, chars: &self.chars, classes: &self.classes }
    }
}
// @item rust/core/src/tokenization/word_shape.rs :: struct WordShape
pub struct WordShape {
    pub offset: usize,
    pub slice: (usize, usize),
    pub stem: usize,
    pub pos: Option<PartOfSpeech>,
    pub fin: bool,
}
impl WordMatch {
    // a match produced for word `w`: same offset and slice, non-empty prefix of the word
    pub open spec fn wf_for(&self, w: &WordView) -> bool {
        self.offset == w.offset && self.slice == w.slice && self.subslice.0 == 0 && 1 <= self.subslice.1 <= w.slice.1 - w.slice.0
            && self.func == spec_is_function(w.pos)
    }
}
impl Clone for WordMatch {
    fn clone(&self) -> (r: Self) ensures r == *self {
        WordMatch { offset: self.offset, slice: self.slice, subslice: self.subslice, typos: self.typos, func: self.func, fin: self.fin }
    }
}
// @item rust/core/src/matching/word_match.rs :: struct WordMatch
pub struct WordMatch {
    pub offset: usize,
    pub slice: (usize, usize),
    pub subslice: (usize, usize),
    pub typos: f64,
    pub func: bool,
    pub fin: bool,
}
// ---- typo values: `typos_ok(t)`: a non-negative half-integer below 2^21 halves (what new_pair receives from the
// distance matrix); `part_typos_ok(s, t)`: what split_typos makes of it (a non-negative multiple of 0.1 whose ceiling
// does not exceed ceil(t)).  `ceil_of` is the integer that `x.ceil() as usize` yields.
pub uninterp spec fn ceil_of(x: f64) -> int;
pub open spec fn typos_ok(t: f64) -> bool { is_h(t) && 0 <= hv(t) < 0x20_0000 }
pub open spec fn part_typos_ok(s: f64, t: f64) -> bool { 0 <= ceil_of(s) <= ceil_of(t) }
// @item rust/core/src/matching/word_match.rs :: impl WordMatch::{new_pair,word_len,match_len,split,split_typos}
impl WordMatch {
    pub fn new_pair(rword: &WordView, qword: &WordView, rslice: usize, qslice: usize, typos: f64) -> (ret: (Self, Self))
        // the two debug_assert!s are obligations: callers must pass prefix lengths inside the words
        requires rword.slice.0 <= rword.slice.1, qword.slice.0 <= qword.slice.1, rslice <= rword.slice.1 - rword.slice.0, qslice <= qword.slice.1 - qword.slice.0,
        ensures ret.0.offset == rword.offset, ret.0.slice == rword.slice, ret.0.subslice == (0usize, rslice), ret.0.typos == typos,
                ret.0.func == spec_is_function(rword.pos), ret.0.fin == (qword.fin || rword.slice.1 - rword.slice.0 == rslice),
                ret.1.offset == qword.offset, ret.1.slice == qword.slice, ret.1.subslice == (0usize, qslice), ret.1.typos == typos,
                ret.1.func == spec_is_function(qword.pos), ret.1.fin == ret.0.fin,
    {
        vassert(rword.slice.0 + rslice <= rword.slice.1);
        vassert(qword.slice.0 + qslice <= qword.slice.1);
        let fin = qword.fin || rword.len() == rslice;
        let rmatch = WordMatch { offset: rword.offset, slice: rword.slice, subslice: (0, rslice), func: rword.is_function(), typos, fin };
        let qmatch = WordMatch { offset: qword.offset, slice: qword.slice, subslice: (0, qslice), func: qword.is_function(), typos, fin };
        (rmatch, qmatch)
    }
    pub fn word_len(&self) -> (ret: usize)
        requires self.slice.0 <= self.slice.1,
        ensures ret == self.slice.1 - self.slice.0,
    {
        let (left, right) = self.slice;
        return right - left;
    }
    pub fn match_len(&self) -> (ret: usize)
        requires self.subslice.0 <= self.subslice.1,
        ensures ret == self.subslice.1 - self.subslice.0,
    {
        let (left, right) = self.subslice;
        return right - left;
    }
    pub fn split(&self, w1: &WordView, w2: &WordView) -> (ret: Option<(Self, Self)>)
        // C14 / C09: a joined match is split at the word boundary; both debug_assert!s are obligations
        requires w1.wfs(), w2.wfs(), w1.slice.1 <= w2.slice.0, w1.offset == self.offset || w2.offset == self.offset,
            self.subslice.0 == 0, self.subslice.1 <= w2.slice.1 - w1.slice.0, typos_ok(self.typos),
        ensures
            ret is Some <==> w1.slice.0 + self.subslice.1 > w2.slice.0, // [C14]
            ret matches Some(p) ==> p.0.wf_for(w1) && p.1.wf_for(w2), // [C09 C02 C05 C01]
            ret matches Some(p) ==> p.0.subslice.1 == w1.slice.1 - w1.slice.0 && p.0.fin && p.1.subslice.1 == self.subslice.1 - (w2.slice.0 - w1.slice.0) && p.1.fin == self.fin, // [C14 C09 C05 C08]
            ret matches Some(p) ==> part_typos_ok(p.0.typos, self.typos) && part_typos_ok(p.1.typos, self.typos), // [C01 C08]
    {
        vassert(w2.slice.0 > w1.slice.0);
        vassert(w1.offset == self.offset || w2.offset == self.offset);
        if w1.slice.0 + self.subslice.1 <= w2.slice.0 {
            return None;
        }
        let (typos1, typos2) = Self::split_typos(self.typos, w1.len(), w2.len());
        let part1 = Self { offset: w1.offset, slice: w1.slice, subslice: (0, w1.len()), func: w1.is_function(), typos: typos1, fin: true };
        let part2 = Self { offset: w2.offset, slice: w2.slice, subslice: (0, self.subslice.1 - (w2.slice.0 - w1.slice.0)), func: w2.is_function(), typos: typos2, fin: self.fin };
        Some((part1, part2))
    }
    // opaque (f64 ceil/round/division by 10): contract = float fact FF4, discharged on the real function by the Kani
    // harness ff4_split_typos (specs/kani/split_typos.rs)
    #[verifier::external_body]
    fn split_typos(typos: f64, len1: usize, len2: usize) -> (ret: (f64, f64))
        requires typos_ok(typos),
        ensures part_typos_ok(ret.0, typos), part_typos_ok(ret.1, typos),
    {
        if len1 == 0 {
            return (0.0, typos);
        }
        if len2 == 0 {
            return (typos, 0.0);
        }
        let len1 = usize_as_f64(len1);
        let len2 = usize_as_f64(len2);
        let split1 = (typos * len1 * 10.0 / (len1 + len2)).ceil() / 10.0;
        let split2 = ((typos - split1) * 10.0).round() / 10.0;
        (split1, split2)
    }
}
