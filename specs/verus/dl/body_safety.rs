// ======================================================================= U1 (safety variant): C19 / C01
// Only what memory safety, arithmetic safety and termination need: no functional specification.
proof fn lemma_ix(i: usize, j: usize, n: usize)
    requires i < n, j < n
    ensures i * n + j < n * n, i * n <= n * n
{
    assert(i * n + j < n * n) by (nonlinear_arith) requires i < n, j < n;
    assert(i * n <= n * n) by (nonlinear_arith) requires i < n;
}
// @item rust/core/src/matching/damlev/matrix.rs :: struct DistMatrix
pub struct DistMatrix {
    pub size: usize,
    pub raw: Vec<f64>,
}
impl DistMatrix {
    // C19: the flat buffer is exactly size x size
    pub open spec fn wf(&self) -> bool {
        self.raw@.len() == self.size * self.size && self.size * self.size <= usize::MAX && self.size <= 0x6000_0003
    }
}
// @item rust/core/src/matching/damlev/matrix.rs :: impl DistMatrix
impl DistMatrix {
    pub fn new(size: usize) -> (ret: Self)
        requires size <= 0x6000_0003,
        ensures ret.wf(), ret.size == size,
    {
        proof { assert(size * size <= 0x6000_0003 * 0x6000_0003) by (nonlinear_arith) requires size <= 0x6000_0003; }
        let raw = vec![0.0; size * size];
        let mut matrix = Self { size, raw };
        matrix.init();
        matrix
    }
    pub fn prepare(&mut self, coefs1: &[f64], coefs2: &[f64])
        requires old(self).wf(), fits(coefs1@.len()), fits(coefs2@.len()),
        ensures final(self).wf(), final(self).size >= coefs1@.len() + 2, final(self).size >= coefs2@.len() + 2,
    {
        let size = vmax(coefs1.len() + 2, coefs2.len() + 2);
        if size > self.size {
            let size = size + size / 2;
            proof { assert(size * size <= 0x6000_0003 * 0x6000_0003) by (nonlinear_arith) requires size <= 0x6000_0003; }
            self.raw.resize(size * size, 0.0);
            self.size = size;
            self.init();
        }
        unsafe {
            let __end0 = coefs1.len();
            for i1 in 0..__end0
                invariant self.wf(), self.size >= coefs1@.len() + 2, self.size >= coefs2@.len() + 2, __end0 == coefs1@.len(),
            {
                let coef = coefs1[i1];
                let prev = self.get_unchecked(i1 + 1, 1);
                self.set_unchecked(i1 + 2, 1, prev + coef);
            }
            let __end1 = coefs2.len();
            for i2 in 0..__end1
                invariant self.wf(), self.size >= coefs1@.len() + 2, self.size >= coefs2@.len() + 2, __end1 == coefs2@.len(),
            {
                let coef = coefs2[i2];
                let prev = self.get_unchecked(1, i2 + 1);
                self.set_unchecked(1, i2 + 2, prev + coef);
            }
        }
    }
    pub fn init(&mut self)
        requires old(self).wf(),
        ensures final(self).wf(), final(self).size == old(self).size,
    {
        if self.size == 0 {
            return;
        }
        unsafe {
            let __end0 = self.size;
            for i in 0..__end0
                invariant self.wf(), self.size == old(self).size, __end0 == self.size,
            {
                self.set_unchecked(i, 0, usize_as_f64(self.size));
                self.set_unchecked(0, i, usize_as_f64(self.size));
            }
            let __end1 = self.size;
            for i in 1..__end1
                invariant self.wf(), self.size == old(self).size, __end1 == self.size, 1 <= i,
            {
                self.set_unchecked(i, 1, usize_as_f64(i - 1));
                self.set_unchecked(1, i, usize_as_f64(i - 1));
            }
        }
    }
    pub unsafe fn get_unchecked(&self, i: usize, j: usize) -> (ret: f64)
        // C19: row and column each below the matrix dimension (taken from the property, not from the code)
        requires self.wf(), i < self.size, j < self.size,
    {
        proof { lemma_ix(i, j, self.size); }
        *self.raw.get_unchecked(i * self.size + j)
    }
    pub unsafe fn set_unchecked(&mut self, i: usize, j: usize, val: f64)
        requires old(self).wf(), i < old(self).size, j < old(self).size,
        ensures final(self).wf(), final(self).size == old(self).size,
    {
        proof { lemma_ix(i, j, self.size); }
        *self.raw.get_unchecked_mut(i * self.size + j) = val;
    }
    pub fn get(&self, i: usize, j: usize) -> (ret: f64)
        requires self.wf(), i < self.size, j < self.size,
    {
        proof { lemma_ix(i, j, self.size); }
        self.raw[i * self.size + j]
    }
}
// @item rust/core/src/lang/char_class.rs :: enum CharClass
#[derive(Clone, Copy, PartialEq, Eq, Structural)]
pub enum CharClass {
    Any,
    Control,
    Whitespace,
    Punctuation,
    NotAlpha,
    NotAlphaNum,
    Consonant,
    Vowel,
}
// @item rust/core/src/lang/pos.rs :: enum PartOfSpeech
#[derive(Clone, Copy, PartialEq, Eq, Structural)]
pub enum PartOfSpeech {
    Noun,
    Pronoun,
    Verb,
    Adjective,
    Adverb,
    Preposition,
    Conjunction,
    Particle,
    Intejection,
    Article,
}
// @item rust/core/src/tokenization/word_view.rs :: struct WordView
pub struct WordView<'a> {
    pub offset: usize,
    pub slice: (usize, usize),
    pub stem: usize,
    pub pos: Option<PartOfSpeech>,
    pub fin: bool,
    pub source: &'a [char],
    pub chars: &'a [char],
    pub classes: &'a [CharClass],
}
impl<'a> WordView<'a> {
    // the part of Text::wf a word view carries: slice inside the three equally long arrays
    pub open spec fn wf(&self) -> bool {
        self.slice.0 <= self.slice.1 && self.slice.1 <= self.chars@.len()
        && self.classes@.len() == self.chars@.len() && self.source@.len() == self.chars@.len()
        && fits((self.slice.1 - self.slice.0) as nat)
    }
    pub open spec fn vchars(&self) -> Seq<char> { self.chars@.subrange(self.slice.0 as int, self.slice.1 as int) }
    pub open spec fn vclasses(&self) -> Seq<CharClass> { self.classes@.subrange(self.slice.0 as int, self.slice.1 as int) }
}
// @item rust/core/src/tokenization/word_view.rs :: impl Word for WordView
impl<'a> WordView<'a> {
    fn offset(&self) -> (ret: usize)
        ensures ret == self.offset,
    {
        self.offset
    }
    fn slice(&self) -> (ret: (usize, usize))
        ensures ret == self.slice,
    {
        self.slice
    }
    fn stem(&self) -> (ret: usize)
        ensures ret == self.stem,
    {
        self.stem
    }
    fn pos(&self) -> (ret: Option<PartOfSpeech>)
        ensures ret == self.pos,
    {
        self.pos
    }
    fn fin(&self) -> (ret: bool)
        ensures ret == self.fin,
    {
        self.fin
    }
}
// @item rust/core/src/tokenization/word_view.rs :: impl WordView::{source,chars,classes}
impl<'a> WordView<'a> {
    pub fn source(&'a self) -> (ret: &'a [char])
        requires self.wf(),
        ensures ret@ == self.source@.subrange(self.slice.0 as int, self.slice.1 as int),
    {
        &self.source[self.slice.0..self.slice.1]
    }
    pub fn chars(&'a self) -> (ret: &'a [char])
        requires self.wf(),
        ensures ret@ == self.vchars(),
    {
        &self.chars[self.slice.0..self.slice.1]
    }
    pub fn classes(&'a self) -> (ret: &'a [CharClass])
        requires self.wf(),
        ensures ret@ == self.vclasses(),
    {
        &self.classes[self.slice.0..self.slice.1]
    }
}
// @item rust/core/src/tokenization/word.rs :: defaults Word as WordView<'a>::{len,is_empty}
impl<'a> WordView<'a> {
    fn len(&self) -> (ret: usize)
        requires self.slice.0 <= self.slice.1,
        ensures ret == self.slice.1 - self.slice.0,
    {
        let (left, right) = self.slice();
        right - left
    }
    fn is_empty(&self) -> (ret: bool)
        ensures ret == (self.slice.1 == self.slice.0),
    {
        let (left, right) = self.slice();
        right == left
    }
}
// @item rust/core/src/matching/damlev/mod.rs :: const DEFAULT_CAPACITY
pub const DEFAULT_CAPACITY: usize = 20;
// @item rust/core/src/matching/damlev/mod.rs :: const COST_TRANS
pub const COST_TRANS: f64 = 0.5;
// @item rust/core/src/matching/damlev/mod.rs :: const COST_DOUBLE
pub const COST_DOUBLE: f64 = 0.5;
// @item rust/core/src/matching/damlev/mod.rs :: const COST_VOWEL
pub const COST_VOWEL: f64 = 0.5;
// @item rust/core/src/matching/damlev/mod.rs :: const COST_NOTALPHA
pub const COST_NOTALPHA: f64 = 0.5;
// @item rust/core/src/matching/damlev/mod.rs :: const COST_CONSONANT
pub const COST_CONSONANT: f64 = 1.0;
// @item rust/core/src/matching/damlev/mod.rs :: const COST_DEFAULT
pub const COST_DEFAULT: f64 = 1.0;
// @item rust/core/src/matching/damlev/mod.rs :: struct DamerauLevenshtein
pub struct DamerauLevenshtein {
    pub dists: DistMatrix,
    pub last_i1: HashMap<char, usize>,
    pub costs1: Vec<f64>,
    pub costs2: Vec<f64>,
}
impl DamerauLevenshtein {
    pub open spec fn wf(&self) -> bool { self.dists.wf() }
}
// @item rust/core/src/matching/damlev/mod.rs :: impl DamerauLevenshtein
impl DamerauLevenshtein {
    pub fn new() -> (ret: Self)
        ensures ret.wf(),
    {
        let dists = DistMatrix::new(DEFAULT_CAPACITY + 2);
        let last_i1 = HashMap::with_capacity(DEFAULT_CAPACITY);
        let costs1 = Vec::with_capacity(DEFAULT_CAPACITY);
        let costs2 = Vec::with_capacity(DEFAULT_CAPACITY);
        Self { dists, last_i1, costs1, costs2 }
    }
    fn get_cost(class: &CharClass) -> (ret: f64)
    {
        match class {
            CharClass::Consonant => COST_CONSONANT,
            CharClass::Vowel => COST_VOWEL,
            CharClass::NotAlpha => COST_NOTALPHA,
            _ => COST_DEFAULT,
        }
    }
    pub fn distance(&mut self, word1: &WordView, word2: &WordView) -> (ret: f64)
        // requires only wf of the pre-state: arbitrary leftovers of earlier calls (C19 "after any sequence of earlier calls")
        requires old(self).wf(), word1.wf(), word2.wf(),
        ensures final(self).wf(), // [C01 ALL]
            final(self).dists.size >= word1.vchars().len() + 2,
            final(self).dists.size >= word2.vchars().len() + 2,
    {
        let chars1 = word1.chars();
        let chars2 = word2.chars();
        let costs1 = &mut self.costs1;
        let costs2 = &mut self.costs2;
        costs1.clear();
        costs2.clear();
        let __src0 = word1.classes();
        let __end0 = __src0.len();
        for __i0 in 0..__end0
            invariant costs1@.len() == __i0, __end0 == __src0@.len(),
        {
            costs1.push(Self::get_cost(&__src0[__i0]));
        }
        let __src1 = word2.classes();
        let __end1 = __src1.len();
        for __i1 in 0..__end1
            invariant costs2@.len() == __i1, __end1 == __src1@.len(),
        {
            costs2.push(Self::get_cost(&__src1[__i1]));
        }
        let dists = &mut self.dists;
        dists.prepare(&costs1, &costs2);
        let last_i1 = &mut self.last_i1;
        last_i1.clear();
        let __end2 = chars1.len();
        for i1 in 0..__end2
            invariant
                dists.wf(), dists.size >= chars1@.len() + 2, dists.size >= chars2@.len() + 2,
                costs1@.len() == chars1@.len(), costs2@.len() == chars2@.len(),
                __end2 == chars1@.len(), fits(chars1@.len()), fits(chars2@.len()),
                forall|c: char| last_i1@.contains_key(c) ==> #[trigger] last_i1@[c] <= i1,
        {
            let ch1 = chars1[i1];
            let mut l2 = 0;
            let cost1 = unsafe { *costs1.get_unchecked(i1) };
            let double1 = i1 > 0 && ch1 == unsafe { *chars1.get_unchecked(i1 - 1) };
            let cost_double1 = if double1 { COST_DOUBLE } else { COST_DEFAULT };
            let cost_del = fmin(cost1, cost_double1);
            let __end3 = chars2.len();
            for i2 in 0..__end3
                invariant
                    dists.wf(), dists.size >= chars1@.len() + 2, dists.size >= chars2@.len() + 2,
                    costs1@.len() == chars1@.len(), costs2@.len() == chars2@.len(),
                    __end3 == chars2@.len(), i1 < chars1@.len(), fits(chars1@.len()), fits(chars2@.len()),
                    l2 <= i2,
                    forall|c: char| last_i1@.contains_key(c) ==> #[trigger] last_i1@[c] <= i1,
            {
                let ch2 = chars2[i2];
                let l1 = *last_i1.get(&ch2).unwrap_or(&0);
                let cost2 = unsafe { *costs2.get_unchecked(i2) };
                let double2 = i2 > 0 && ch2 == unsafe { *chars2.get_unchecked(i2 - 1) };
                let cost_double2 = if double2 { COST_DOUBLE } else { COST_DEFAULT };
                let cost_add = fmin(cost2, cost_double2);
                let cost_sub = if ch1 == ch2 { 0.0 } else { fmax(cost1, cost2) };
                let cost_trans = COST_TRANS * usize_as_f64((i1 - l1) + (i2 - l2) + 1);
                let dist_add = cost_add + unsafe { dists.get_unchecked(i1 + 2, i2 + 1) };
                let dist_del = cost_del + unsafe { dists.get_unchecked(i1 + 1, i2 + 2) };
                let dist_sub = cost_sub + unsafe { dists.get_unchecked(i1 + 1, i2 + 1) };
                let dist_trans = cost_trans + unsafe { dists.get_unchecked(l1, l2) };
                let dist = fmin4(dist_add, dist_del, dist_sub, dist_trans);
                unsafe {
                    dists.set_unchecked(i1 + 2, i2 + 2, dist);
                }
                if ch1 == ch2 {
                    l2 = i2 + 1;
                }
            }
            last_i1.insert(ch1, i1 + 1);
        }
        unsafe { dists.get_unchecked(word1.len() + 1, word2.len() + 1) }
    }
}
// @item rust/core/src/matching/damlev/mod.rs :: fn fmin4
fn fmin4(x1: f64, x2: f64, x3: f64, x4: f64) -> (ret: f64)
{
    let mut min = x1;
    if x2 < min {
        min = x2;
    }
    if x3 < min {
        min = x3;
    }
    if x4 < min {
        min = x4;
    }
    min
}
// @item rust/core/src/matching/damlev/mod.rs :: fn fmin
fn fmin(x1: f64, x2: f64) -> (ret: f64)
{
    if x1 < x2 {
        x1
    } else {
        x2
    }
}
// @item rust/core/src/matching/damlev/mod.rs :: fn fmax
fn fmax(x1: f64, x2: f64) -> (ret: f64)
{
    if x1 > x2 {
        x1
    } else {
        x2
    }
}
