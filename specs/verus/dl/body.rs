// ======================================================================= U1: Damerau-Levenshtein
proof fn lemma_ix(i: usize, j: usize, n: usize)
    requires i < n, j < n
    ensures i * n + j < n * n, i * n <= n * n
{
    assert(i * n + j < n * n) by (nonlinear_arith) requires i < n, j < n;
    assert(i * n <= n * n) by (nonlinear_arith) requires i < n;
}
proof fn lemma_ix_inj(i: int, j: int, a: int, b: int, n: int)
    requires 0 <= i, 0 <= a, 0 <= j < n, 0 <= b < n, i * n + j == a * n + b
    ensures i == a, j == b
{
    assert(i == a) by (nonlinear_arith) requires 0 <= i, 0 <= a, 0 <= j < n, 0 <= b < n, i * n + j == a * n + b;
}
// @item rust/core/src/matching/damlev/matrix.rs :: struct DistMatrix
pub struct DistMatrix {
    pub size: usize,
    pub raw: Vec<f64>,
}
impl DistMatrix {
    // C19: the flat buffer is exactly size x size
    pub open spec fn wf(&self) -> bool {
        self.raw@.len() == self.size * self.size && self.size * self.size <= usize::MAX && self.size <= 0x6000_0003
    }
    pub open spec fn cell(&self, i: int, j: int) -> f64 { self.raw@[i * self.size + j] }
    pub open spec fn sentinel_ok(&self) -> bool {
        (forall|t: int| 0 <= t < self.size ==> is_h(#[trigger] self.cell(t, 0)) && hv(self.cell(t, 0)) == 2 * self.size)
        && (forall|t: int| 0 <= t < self.size ==> is_h(#[trigger] self.cell(0, t)) && hv(self.cell(0, t)) == 2 * self.size)
    }
    pub open spec fn border_init(&self) -> bool {
        (forall|t: int| 1 <= t < self.size ==> is_h(#[trigger] self.cell(t, 1)) && hv(self.cell(t, 1)) == 2 * (t - 1))
        && (forall|t: int| 1 <= t < self.size ==> is_h(#[trigger] self.cell(1, t)) && hv(self.cell(1, t)) == 2 * (t - 1))
    }
    pub open spec fn full_wf(&self) -> bool {
        self.wf() && self.size >= 2 && self.sentinel_ok() && is_h(self.cell(1, 1)) && hv(self.cell(1, 1)) == 0
    }
    pub open spec fn border_ok(&self, c1: Seq<f64>, c2: Seq<f64>) -> bool {
        (forall|r: int| 1 <= r <= c1.len() + 1 ==> is_h(#[trigger] self.cell(r, 1)) && hv(self.cell(r, 1)) == bsum(c1, r - 1))
        && (forall|c: int| 1 <= c <= c2.len() + 1 ==> is_h(#[trigger] self.cell(1, c)) && hv(self.cell(1, c)) == bsum(c2, c - 1))
    }
    pub open spec fn rows_ok(&self, w1: Seq<char>, k1: Seq<CharClass>, w2: Seq<char>, k2: Seq<CharClass>, rows: int) -> bool {
        forall|r: int, c: int| 1 <= r <= rows + 1 && 1 <= c <= w2.len() + 1 ==> is_h(#[trigger] self.cell(r, c)) && hv(self.cell(r, c)) == dcell(w1, k1, w2, k2, r - 1, c - 1)
    }
    pub open spec fn row_ok(&self, w1: Seq<char>, k1: Seq<CharClass>, w2: Seq<char>, k2: Seq<CharClass>, a: int, cols: int) -> bool {
        forall|c: int| 1 <= c <= cols + 1 ==> is_h(#[trigger] self.cell(a, c)) && hv(self.cell(a, c)) == dcell(w1, k1, w2, k2, a - 1, c - 1)
    }
    pub open spec fn col0_ok(&self, w1: Seq<char>, k1: Seq<CharClass>, w2: Seq<char>, k2: Seq<CharClass>) -> bool {
        forall|r: int| 1 <= r <= w1.len() + 1 ==> is_h(#[trigger] self.cell(r, 1)) && hv(self.cell(r, 1)) == dcell(w1, k1, w2, k2, r - 1, 0)
    }
}
pub open spec fn cost_ok(c: Seq<f64>) -> bool { forall|t: int| 0 <= t < c.len() ==> is_h(#[trigger] c[t]) && 1 <= hv(c[t]) <= 2 }
pub open spec fn bsum(c: Seq<f64>, n: int) -> int decreases n { if n <= 0 { 0 } else { bsum(c, n - 1) + hv(c[n - 1]) } }
proof fn lemma_bsum_bound(c: Seq<f64>, n: int)
    requires cost_ok(c), 0 <= n <= c.len()
    ensures 0 <= bsum(c, n) <= 2 * n
    decreases n
{ if n > 0 { lemma_bsum_bound(c, n - 1); } }
// @item rust/core/src/matching/damlev/matrix.rs :: impl DistMatrix
impl DistMatrix {
    pub fn new(size: usize) -> (ret: Self)
        requires 2 <= size <= 0x6000_0003,
        ensures ret.full_wf(), ret.size == size,
    {
        proof { assert(size * size <= 0x6000_0003 * 0x6000_0003) by (nonlinear_arith) requires size <= 0x6000_0003; }
        let raw = vec![0.0; size * size];
        let mut matrix = Self { size, raw };
        matrix.init();
        matrix
    }
    pub fn prepare(&mut self, coefs1: &[f64], coefs2: &[f64])
        requires old(self).full_wf(), fits(coefs1@.len()), fits(coefs2@.len()), cost_ok(coefs1@), cost_ok(coefs2@),
        ensures final(self).full_wf(), final(self).size >= coefs1@.len() + 2, final(self).size >= coefs2@.len() + 2,
            final(self).border_ok(coefs1@, coefs2@),
    {
        let size = vmax(coefs1.len() + 2, coefs2.len() + 2);
        if size > self.size {
            let size = size + size / 2;
            proof { assert(size * size <= 0x6000_0003 * 0x6000_0003) by (nonlinear_arith) requires size <= 0x6000_0003; }
            self.raw.resize(size * size, 0.0);
            self.size = size;
            self.init();
        }
        unsafe {
            let __end0 = coefs1.len();
            for i1 in 0..__end0
                invariant self.full_wf(), self.size >= coefs1@.len() + 2, self.size >= coefs2@.len() + 2, __end0 == coefs1@.len(),
                    cost_ok(coefs1@), fits(coefs1@.len()),
                    forall|r: int| 1 <= r <= i1 + 1 ==> is_h(#[trigger] self.cell(r, 1)) && hv(self.cell(r, 1)) == bsum(coefs1@, r - 1),
            {
                let coef = coefs1[i1];
                let prev = self.get_unchecked(i1 + 1, 1);
                proof { lemma_bsum_bound(coefs1@, i1 as int); f64_obeys(); }
                self.set_unchecked(i1 + 2, 1, prev + coef);
            }
            let __end1 = coefs2.len();
            for i2 in 0..__end1
                invariant self.full_wf(), self.size >= coefs1@.len() + 2, self.size >= coefs2@.len() + 2, __end1 == coefs2@.len(),
                    cost_ok(coefs2@), fits(coefs2@.len()),
                    forall|r: int| 1 <= r <= coefs1@.len() + 1 ==> is_h(#[trigger] self.cell(r, 1)) && hv(self.cell(r, 1)) == bsum(coefs1@, r - 1),
                    forall|c: int| 1 <= c <= i2 + 1 ==> is_h(#[trigger] self.cell(1, c)) && hv(self.cell(1, c)) == bsum(coefs2@, c - 1),
            {
                let coef = coefs2[i2];
                let prev = self.get_unchecked(1, i2 + 1);
                proof { lemma_bsum_bound(coefs2@, i2 as int); f64_obeys(); }
                self.set_unchecked(1, i2 + 2, prev + coef);
            }
        }
    }
    pub fn init(&mut self)
        requires old(self).wf(),
        ensures final(self).wf(), final(self).size == old(self).size, final(self).sentinel_ok(), final(self).border_init(),
    {
        if self.size == 0 {
            return;
        }
        unsafe {
            let __end0 = self.size;
            for i in 0..__end0
                invariant self.wf(), self.size == old(self).size, __end0 == self.size,
                    forall|t: int| 0 <= t < i ==> is_h(#[trigger] self.cell(t, 0)) && hv(self.cell(t, 0)) == 2 * self.size,
                    forall|t: int| 0 <= t < i ==> is_h(#[trigger] self.cell(0, t)) && hv(self.cell(0, t)) == 2 * self.size,
            {
                self.set_unchecked(i, 0, usize_as_f64(self.size));
                self.set_unchecked(0, i, usize_as_f64(self.size));
            }
            let __end1 = self.size;
            for i in 1..__end1
                invariant self.wf(), self.size == old(self).size, __end1 == self.size, 1 <= i, self.sentinel_ok(),
                    forall|t: int| 1 <= t < i ==> is_h(#[trigger] self.cell(t, 1)) && hv(self.cell(t, 1)) == 2 * (t - 1),
                    forall|t: int| 1 <= t < i ==> is_h(#[trigger] self.cell(1, t)) && hv(self.cell(1, t)) == 2 * (t - 1),
            {
                self.set_unchecked(i, 1, usize_as_f64(i - 1));
                self.set_unchecked(1, i, usize_as_f64(i - 1));
            }
        }
    }
    // C19: row and column each below the matrix dimension (taken from the property, not from the code)
    pub unsafe fn get_unchecked(&self, i: usize, j: usize) -> (ret: f64)
        requires self.wf(), i < self.size, j < self.size,
        ensures ret == self.cell(i as int, j as int),
    {
        proof { lemma_ix(i, j, self.size); }
        *self.raw.get_unchecked(i * self.size + j)
    }
    pub unsafe fn set_unchecked(&mut self, i: usize, j: usize, val: f64)
        requires old(self).wf(), i < old(self).size, j < old(self).size,
        ensures final(self).wf(), final(self).size == old(self).size,
            final(self).cell(i as int, j as int) == val,
            forall|a: int, b: int| 0 <= a < old(self).size && 0 <= b < old(self).size && !(a == i && b == j) ==> #[trigger] final(self).cell(a, b) == old(self).cell(a, b),
    {
        proof { lemma_ix(i, j, self.size); }
        *self.raw.get_unchecked_mut(i * self.size + j) = val;
        proof {
            assert forall|a: int, b: int| 0 <= a < old(self).size && 0 <= b < old(self).size && !(a == i && b == j) implies #[trigger] self.cell(a, b) == old(self).cell(a, b) by {
                if a * self.size + b == i * self.size + j { lemma_ix_inj(a, b, i as int, j as int, self.size as int); }
                assert(0 <= a * self.size + b < self.size * self.size) by (nonlinear_arith) requires 0 <= a < self.size, 0 <= b < self.size;
            }
        }
    }
    pub fn get(&self, i: usize, j: usize) -> (ret: f64)
        requires self.wf(), i < self.size, j < self.size,
        ensures ret == self.cell(i as int, j as int),
    {
        proof { lemma_ix(i, j, self.size); }
        self.raw[i * self.size + j]
    }
}
// @item rust/core/src/lang/char_class.rs :: enum CharClass
#[derive(Clone, Copy, PartialEq, Eq, Structural)]
pub enum CharClass {
    Any,
    Control,
    Whitespace,
    Punctuation,
    NotAlpha,
    NotAlphaNum,
    Consonant,
    Vowel,
}
// @item rust/core/src/lang/pos.rs :: enum PartOfSpeech
#[derive(Clone, Copy, PartialEq, Eq, Structural)]
pub enum PartOfSpeech {
    Noun,
    Pronoun,
    Verb,
    Adjective,
    Adverb,
    Preposition,
    Conjunction,
    Particle,
    Intejection,
    Article,
}
// @item rust/core/src/tokenization/word_view.rs :: struct WordView
pub struct WordView<'a> {
    pub offset: usize,
    pub slice: (usize, usize),
    pub stem: usize,
    pub pos: Option<PartOfSpeech>,
    pub fin: bool,
    pub source: &'a [char],
    pub chars: &'a [char],
    pub classes: &'a [CharClass],
}
impl<'a> WordView<'a> {
    // the part of Text::wf a word view carries: slice inside the three equally long arrays
    pub open spec fn wf(&self) -> bool {
        self.slice.0 <= self.slice.1 && self.slice.1 <= self.chars@.len()
        && self.classes@.len() == self.chars@.len() && self.source@.len() == self.chars@.len()
        && fits((self.slice.1 - self.slice.0) as nat)
    }
    pub open spec fn vchars(&self) -> Seq<char> { self.chars@.subrange(self.slice.0 as int, self.slice.1 as int) }
    pub open spec fn vclasses(&self) -> Seq<CharClass> { self.classes@.subrange(self.slice.0 as int, self.slice.1 as int) }
    pub open spec fn vlen(&self) -> int { self.slice.1 - self.slice.0 }
}
// @item rust/core/src/tokenization/word_view.rs :: impl Word for WordView
impl<'a> WordView<'a> {
    fn offset(&self) -> (ret: usize)
        ensures ret == self.offset,
    {
        self.offset
    }
    fn slice(&self) -> (ret: (usize, usize))
        ensures ret == self.slice,
    {
        self.slice
    }
    fn stem(&self) -> (ret: usize)
        ensures ret == self.stem,
    {
        self.stem
    }
    fn pos(&self) -> (ret: Option<PartOfSpeech>)
        ensures ret == self.pos,
    {
        self.pos
    }
    fn fin(&self) -> (ret: bool)
        ensures ret == self.fin,
    {
        self.fin
    }
}
// @item rust/core/src/tokenization/word_view.rs :: impl WordView::{source,chars,classes}
impl<'a> WordView<'a> {
    pub fn source(&'a self) -> (ret: &'a [char])
        requires self.wf(),
        ensures ret@ == self.source@.subrange(self.slice.0 as int, self.slice.1 as int),
    {
        &self.source[self.slice.0..self.slice.1]
    }
    pub fn chars(&'a self) -> (ret: &'a [char])
        requires self.wf(),
        ensures ret@ == self.vchars(),
    {
        &self.chars[self.slice.0..self.slice.1]
    }
    pub fn classes(&'a self) -> (ret: &'a [CharClass])
        requires self.wf(),
        ensures ret@ == self.vclasses(),
    {
        &self.classes[self.slice.0..self.slice.1]
    }
}
// @item rust/core/src/tokenization/word.rs :: defaults Word as WordView<'a>::{len,is_empty}
impl<'a> WordView<'a> {
    fn len(&self) -> (ret: usize)
        requires self.slice.0 <= self.slice.1,
        ensures ret == self.slice.1 - self.slice.0,
    {
        let (left, right) = self.slice();
        right - left
    }
    fn is_empty(&self) -> (ret: bool)
        ensures ret == (self.slice.1 == self.slice.0),
    {
        let (left, right) = self.slice();
        right == left
    }
}
// ---------- spec of the weighted Damerau-Levenshtein recurrence, in half units (C16) ----------
pub open spec fn ch(c: CharClass) -> int { match c { CharClass::Consonant => 2, CharClass::Vowel => 1, CharClass::NotAlpha => 1, _ => 2 } }
pub open spec fn imin(a: int, b: int) -> int { if a < b { a } else { b } }
pub open spec fn imax(a: int, b: int) -> int { if a > b { a } else { b } }
pub open spec fn edit_cost(w: Seq<char>, k: Seq<CharClass>, i: int) -> int {
    imin(ch(k[i]), if i > 0 && w[i] == w[i - 1] { 1 } else { 2 })
}
pub open spec fn sub_cost(w1: Seq<char>, k1: Seq<CharClass>, i: int, w2: Seq<char>, k2: Seq<CharClass>, j: int) -> int {
    if w1[i] == w2[j] { 0 } else { imax(ch(k1[i]), ch(k2[j])) }
}
pub open spec fn last_occ(w: Seq<char>, c: char, n: int) -> int decreases n {
    if n <= 0 { 0 } else if w[n - 1] == c { n } else { last_occ(w, c, n - 1) }
}
pub open spec fn bs(k: Seq<CharClass>, n: int) -> int decreases n { if n <= 0 { 0 } else { bs(k, n - 1) + ch(k[n - 1]) } }
pub open spec fn dcell(w1: Seq<char>, k1: Seq<CharClass>, w2: Seq<char>, k2: Seq<CharClass>, i: int, j: int) -> int
    decreases imax(i, 0) + imax(j, 0)
{
    if i <= 0 { bs(k2, j) } else if j <= 0 { bs(k1, i) } else {
        let add = edit_cost(w2, k2, j - 1) + dcell(w1, k1, w2, k2, i, j - 1);
        let del = edit_cost(w1, k1, i - 1) + dcell(w1, k1, w2, k2, i - 1, j);
        let sub = sub_cost(w1, k1, i - 1, w2, k2, j - 1) + dcell(w1, k1, w2, k2, i - 1, j - 1);
        let l1 = last_occ(w1, w2[j - 1], i - 1);
        let l2 = last_occ(w2, w1[i - 1], j - 1);
        let m3 = imin(add, imin(del, sub));
        if 0 < l1 <= i - 1 && 0 < l2 <= j - 1 {
            imin(m3, (i - 1 - l1) + (j - 1 - l2) + 1 + dcell(w1, k1, w2, k2, l1 - 1, l2 - 1))
        } else { m3 }
    }
}
proof fn lemma_last_occ_le(w: Seq<char>, c: char, n: int)
    requires 0 <= n
    ensures 0 <= last_occ(w, c, n) <= n
    decreases n
{ if n > 0 { lemma_last_occ_le(w, c, n - 1); } }
proof fn lemma_bs_bound(k: Seq<CharClass>, n: int)
    requires 0 <= n
    ensures 0 <= bs(k, n) <= 2 * n
    decreases n
{ if n > 0 { lemma_bs_bound(k, n - 1); } }
proof fn lemma_dcell_range(w1: Seq<char>, k1: Seq<CharClass>, w2: Seq<char>, k2: Seq<CharClass>, i: int, j: int)
    requires 0 <= i, 0 <= j
    ensures 0 <= dcell(w1, k1, w2, k2, i, j) <= 2 * imax(i, j)
    decreases i + j
{
    if i <= 0 { lemma_bs_bound(k2, j); } else if j <= 0 { lemma_bs_bound(k1, i); } else {
        lemma_dcell_range(w1, k1, w2, k2, i, j - 1);
        lemma_dcell_range(w1, k1, w2, k2, i - 1, j);
        lemma_dcell_range(w1, k1, w2, k2, i - 1, j - 1);
        let l1 = last_occ(w1, w2[j - 1], i - 1);
        let l2 = last_occ(w2, w1[i - 1], j - 1);
        if 0 < l1 <= i - 1 && 0 < l2 <= j - 1 { lemma_dcell_range(w1, k1, w2, k2, l1 - 1, l2 - 1); }
    }
}
pub open spec fn costs_match(c: Seq<f64>, k: Seq<CharClass>) -> bool {
    c.len() == k.len() && forall|t: int| 0 <= t < c.len() ==> is_h(#[trigger] c[t]) && hv(c[t]) == ch(k[t])
}
proof fn lemma_bsum_bs(c: Seq<f64>, k: Seq<CharClass>, n: int)
    requires costs_match(c, k), 0 <= n <= c.len()
    ensures bsum(c, n) == bs(k, n)
    decreases n
{ if n > 0 { lemma_bsum_bs(c, k, n - 1); } }
pub open spec fn map_last(m: Map<char, usize>, w: Seq<char>, n: int) -> bool {
    forall|c: char| (if m.contains_key(c) { m[c] as int } else { 0 }) == #[trigger] last_occ(w, c, n)
}
// @item rust/core/src/matching/damlev/mod.rs :: const DEFAULT_CAPACITY
pub const DEFAULT_CAPACITY: usize = 20;
// @item rust/core/src/matching/damlev/mod.rs :: const COST_TRANS
pub const COST_TRANS: f64 = 0.5;
// @item rust/core/src/matching/damlev/mod.rs :: const COST_DOUBLE
pub const COST_DOUBLE: f64 = 0.5;
// @item rust/core/src/matching/damlev/mod.rs :: const COST_VOWEL
pub const COST_VOWEL: f64 = 0.5;
// @item rust/core/src/matching/damlev/mod.rs :: const COST_NOTALPHA
pub const COST_NOTALPHA: f64 = 0.5;
// @item rust/core/src/matching/damlev/mod.rs :: const COST_CONSONANT
pub const COST_CONSONANT: f64 = 1.0;
// @item rust/core/src/matching/damlev/mod.rs :: const COST_DEFAULT
pub const COST_DEFAULT: f64 = 1.0;
// @item rust/core/src/matching/damlev/mod.rs :: struct DamerauLevenshtein
pub struct DamerauLevenshtein {
    pub dists: DistMatrix,
    pub last_i1: HashMap<char, usize>,
    pub costs1: Vec<f64>,
    pub costs2: Vec<f64>,
}
impl DamerauLevenshtein {
    pub open spec fn wf(&self) -> bool { self.dists.full_wf() }
}
// @item rust/core/src/matching/damlev/mod.rs :: impl DamerauLevenshtein
impl DamerauLevenshtein {
    pub fn new() -> (ret: Self)
        ensures ret.wf(),
    {
        let dists = DistMatrix::new(DEFAULT_CAPACITY + 2);
        let last_i1 = HashMap::with_capacity(DEFAULT_CAPACITY);
        let costs1 = Vec::with_capacity(DEFAULT_CAPACITY);
        let costs2 = Vec::with_capacity(DEFAULT_CAPACITY);
        Self { dists, last_i1, costs1, costs2 }
    }
    fn get_cost(class: &CharClass) -> (ret: f64)
        ensures is_h(ret), hv(ret) == ch(*class),
    {
        match class {
            CharClass::Consonant => COST_CONSONANT,
            CharClass::Vowel => COST_VOWEL,
            CharClass::NotAlpha => COST_NOTALPHA,
            _ => COST_DEFAULT,
        }
    }
    // C16 / C19 / C10: requires only wf of the pre-state (arbitrary leftovers from earlier calls);
    // no `old(self)` on the right-hand side of any postcondition: history independence.
    #[verifier::rlimit(300)]
    pub fn distance(&mut self, word1: &WordView, word2: &WordView) -> (ret: f64)
        requires old(self).wf(), word1.wf(), word2.wf(),
        ensures final(self).wf(), // [C01 ALL]
            final(self).dists.size >= word1.vchars().len() + 2,
            final(self).dists.size >= word2.vchars().len() + 2,
            final(self).dists.rows_ok(word1.vchars(), word1.vclasses(), word2.vchars(), word2.vclasses(), word1.vchars().len() as int),
            is_h(ret), hv(ret) == dcell(word1.vchars(), word1.vclasses(), word2.vchars(), word2.vclasses(), word1.vchars().len() as int, word2.vchars().len() as int),
    {
        proof { f64_obeys(); }
        let ghost w1 = word1.vchars();
        let ghost k1 = word1.vclasses();
        let ghost w2 = word2.vchars();
        let ghost k2 = word2.vclasses();
        let chars1 = word1.chars();
        let chars2 = word2.chars();
        let costs1 = &mut self.costs1;
        let costs2 = &mut self.costs2;
        costs1.clear();
        costs2.clear();
        let __src0 = word1.classes();
        let __end0 = __src0.len();
        for __i0 in 0..__end0
            invariant costs1@.len() == __i0, __src0@ == k1, __end0 == k1.len(),
                forall|t: int| 0 <= t < costs1@.len() ==> is_h(#[trigger] costs1@[t]) && hv(costs1@[t]) == ch(k1[t]),
        {
            costs1.push(Self::get_cost(&__src0[__i0]));
        }
        let __src1 = word2.classes();
        let __end1 = __src1.len();
        for __i1 in 0..__end1
            invariant costs2@.len() == __i1, __src1@ == k2, __end1 == k2.len(),
                forall|t: int| 0 <= t < costs2@.len() ==> is_h(#[trigger] costs2@[t]) && hv(costs2@[t]) == ch(k2[t]),
        {
            costs2.push(Self::get_cost(&__src1[__i1]));
        }
        let dists = &mut self.dists;
        dists.prepare(&costs1, &costs2);
        let last_i1 = &mut self.last_i1;
        last_i1.clear();
        proof {
            assert(costs_match(costs1@, k1));
            assert(costs_match(costs2@, k2));
            assert forall|r: int| 1 <= r <= w1.len() + 1 implies is_h(#[trigger] dists.cell(r, 1)) && hv(dists.cell(r, 1)) == dcell(w1, k1, w2, k2, r - 1, 0) by {
                lemma_bsum_bs(costs1@, k1, r - 1);
            }
            assert forall|c: int| 1 <= c <= w2.len() + 1 implies is_h(#[trigger] dists.cell(1, c)) && hv(dists.cell(1, c)) == dcell(w1, k1, w2, k2, 0, c - 1) by {
                lemma_bsum_bs(costs2@, k2, c - 1);
            }
        }
        let __end2 = chars1.len();
        for i1 in 0..__end2
            invariant
                dists.full_wf(), dists.size >= w1.len() + 2, dists.size >= w2.len() + 2,
                chars1@ == w1, chars2@ == w2, k1.len() == w1.len(), k2.len() == w2.len(),
                costs_match(costs1@, k1), costs_match(costs2@, k2),
                __end2 == w1.len(), fits(w1.len()), fits(w2.len()),
                map_last(last_i1@, w1, i1 as int),
                dists.rows_ok(w1, k1, w2, k2, i1 as int),
                dists.col0_ok(w1, k1, w2, k2),
        {
            let ch1 = chars1[i1];
            let mut l2 = 0;
            let cost1 = unsafe { *costs1.get_unchecked(i1) };
            let double1 = i1 > 0 && ch1 == unsafe { *chars1.get_unchecked(i1 - 1) };
            let cost_double1 = if double1 { COST_DOUBLE } else { COST_DEFAULT };
            let cost_del = fmin(cost1, cost_double1);
            let __end3 = chars2.len();
            for i2 in 0..__end3
                invariant
                    dists.full_wf(), dists.size >= w1.len() + 2, dists.size >= w2.len() + 2,
                    chars1@ == w1, chars2@ == w2, k1.len() == w1.len(), k2.len() == w2.len(),
                    costs_match(costs1@, k1), costs_match(costs2@, k2),
                    __end3 == w2.len(), i1 < w1.len(), fits(w1.len()), fits(w2.len()),
                    ch1 == w1[i1 as int],
                    is_h(cost1), hv(cost1) == ch(k1[i1 as int]),
                    is_h(cost_del), hv(cost_del) == edit_cost(w1, k1, i1 as int),
                    l2 == last_occ(w2, ch1, i2 as int),
                    map_last(last_i1@, w1, i1 as int),
                    dists.rows_ok(w1, k1, w2, k2, i1 as int),
                    dists.col0_ok(w1, k1, w2, k2),
                    dists.row_ok(w1, k1, w2, k2, i1 as int + 2, i2 as int),
            {
                let ch2 = chars2[i2];
                let l1 = *last_i1.get(&ch2).unwrap_or(&0);
                let cost2 = unsafe { *costs2.get_unchecked(i2) };
                let double2 = i2 > 0 && ch2 == unsafe { *chars2.get_unchecked(i2 - 1) };
                let cost_double2 = if double2 { COST_DOUBLE } else { COST_DEFAULT };
                let cost_add = fmin(cost2, cost_double2);
                let cost_sub = if ch1 == ch2 { 0.0 } else { fmax(cost1, cost2) };
                proof {
                    f64_obeys();
                    lemma_last_occ_le(w1, ch2, i1 as int);
                    lemma_last_occ_le(w2, ch1, i2 as int);
                    assert(l1 == last_occ(w1, ch2, i1 as int));
                }
                let cost_trans = COST_TRANS * usize_as_f64((i1 - l1) + (i2 - l2) + 1);
                proof {
                    lemma_dcell_range(w1, k1, w2, k2, i1 as int + 1, i2 as int);
                    lemma_dcell_range(w1, k1, w2, k2, i1 as int, i2 as int + 1);
                    lemma_dcell_range(w1, k1, w2, k2, i1 as int, i2 as int);
                    if l1 > 0 && l2 > 0 { lemma_dcell_range(w1, k1, w2, k2, l1 as int - 1, l2 as int - 1); }
                    assert(is_h(dists.cell(i1 as int + 2, i2 as int + 1)) && hv(dists.cell(i1 as int + 2, i2 as int + 1)) == dcell(w1, k1, w2, k2, i1 as int + 1, i2 as int));
                    assert(is_h(dists.cell(i1 as int + 1, i2 as int + 2)) && hv(dists.cell(i1 as int + 1, i2 as int + 2)) == dcell(w1, k1, w2, k2, i1 as int, i2 as int + 1));
                    assert(is_h(dists.cell(i1 as int + 1, i2 as int + 1)) && hv(dists.cell(i1 as int + 1, i2 as int + 1)) == dcell(w1, k1, w2, k2, i1 as int, i2 as int));
                    if l1 > 0 && l2 > 0 {
                        assert(is_h(dists.cell(l1 as int, l2 as int)) && hv(dists.cell(l1 as int, l2 as int)) == dcell(w1, k1, w2, k2, l1 as int - 1, l2 as int - 1));
                    } else {
                        assert(is_h(dists.cell(l1 as int, l2 as int)) && hv(dists.cell(l1 as int, l2 as int)) == 2 * dists.size) by {
                            if l1 == 0 { assert(is_h(dists.cell(0, l2 as int))); } else { assert(is_h(dists.cell(l1 as int, 0))); }
                        }
                    }
                    assert(is_h(cost2) && hv(cost2) == ch(k2[i2 as int]));
                    assert(is_h(cost_double2) && 1 <= hv(cost_double2) <= 2);
                    assert(is_h(cost_add) && hv(cost_add) == edit_cost(w2, k2, i2 as int));
                    assert(is_h(cost_sub) && hv(cost_sub) == sub_cost(w1, k1, i1 as int, w2, k2, i2 as int));
                    assert(is_h(cost_trans) && hv(cost_trans) == (i1 - l1) + (i2 - l2) + 1);
                }
                let dist_add = cost_add + unsafe { dists.get_unchecked(i1 + 2, i2 + 1) };
                let dist_del = cost_del + unsafe { dists.get_unchecked(i1 + 1, i2 + 2) };
                let dist_sub = cost_sub + unsafe { dists.get_unchecked(i1 + 1, i2 + 1) };
                let dist_trans = cost_trans + unsafe { dists.get_unchecked(l1, l2) };
                let dist = fmin4(dist_add, dist_del, dist_sub, dist_trans);
                proof {
                    assert(hv(dist) == dcell(w1, k1, w2, k2, i1 as int + 1, i2 as int + 1));
                }
                unsafe {
                    dists.set_unchecked(i1 + 2, i2 + 2, dist);
                }
                if ch1 == ch2 {
                    l2 = i2 + 1;
                }
            }
            last_i1.insert(ch1, i1 + 1);
            proof {
                assert forall|c: char| (if last_i1@.contains_key(c) { last_i1@[c] as int } else { 0 }) == #[trigger] last_occ(w1, c, i1 as int + 1) by {
                    assert(last_occ(w1, c, i1 as int + 1) == if w1[i1 as int] == c { i1 as int + 1 } else { last_occ(w1, c, i1 as int) });
                }
            }
        }
        unsafe { dists.get_unchecked(word1.len() + 1, word2.len() + 1) }
    }
}
// @item rust/core/src/matching/damlev/mod.rs :: fn fmin4
fn fmin4(x1: f64, x2: f64, x3: f64, x4: f64) -> (ret: f64)
    requires hb(x1), hb(x2), hb(x3), hb(x4),
    ensures is_h(ret), hv(ret) == imin(imin(hv(x1), hv(x2)), imin(hv(x3), hv(x4))),
{
    proof { f64_obeys(); }
    let mut min = x1;
    if x2 < min {
        min = x2;
    }
    if x3 < min {
        min = x3;
    }
    if x4 < min {
        min = x4;
    }
    min
}
// @item rust/core/src/matching/damlev/mod.rs :: fn fmin
fn fmin(x1: f64, x2: f64) -> (ret: f64)
    requires hb(x1), hb(x2),
    ensures is_h(ret), hv(ret) == imin(hv(x1), hv(x2)),
{
    proof { f64_obeys(); }
    if x1 < x2 {
        x1
    } else {
        x2
    }
}
// @item rust/core/src/matching/damlev/mod.rs :: fn fmax
fn fmax(x1: f64, x2: f64) -> (ret: f64)
    requires hb(x1), hb(x2),
    ensures is_h(ret), hv(ret) == imax(hv(x1), hv(x2)),
{
    proof { f64_obeys(); }
    if x1 > x2 {
        x1
    } else {
        x2
    }
}
