// ======================================================================= C16: laws of the weighted Damerau-Levenshtein
// distance, as lemmas over the recursive specification `dcell` that the real `distance` is proved to compute.
// (all values in half units: 1 = 0.5)
pub open spec fn same_prefix(a: Seq<char>, b: Seq<char>, n: int) -> bool { n <= a.len() && n <= b.len() && forall|t: int| 0 <= t < n ==> a[t] == b[t] }

// DL-sym: symmetric
proof fn lemma_dcell_sym(w1: Seq<char>, k1: Seq<CharClass>, w2: Seq<char>, k2: Seq<CharClass>, i: int, j: int)
    requires 0 <= i, 0 <= j
    ensures dcell(w1, k1, w2, k2, i, j) == dcell(w2, k2, w1, k1, j, i)
    decreases i + j
{
    if i <= 0 || j <= 0 { } else {
        lemma_dcell_sym(w1, k1, w2, k2, i, j - 1);
        lemma_dcell_sym(w1, k1, w2, k2, i - 1, j);
        lemma_dcell_sym(w1, k1, w2, k2, i - 1, j - 1);
        let l1 = last_occ(w1, w2[j - 1], i - 1);
        let l2 = last_occ(w2, w1[i - 1], j - 1);
        if 0 < l1 <= i - 1 && 0 < l2 <= j - 1 { lemma_dcell_sym(w1, k1, w2, k2, l1 - 1, l2 - 1); }
    }
}

// DL-lev: never exceeds the plain Levenshtein distance (2 half units per edit)
pub open spec fn lev(w1: Seq<char>, w2: Seq<char>, i: int, j: int) -> int
    decreases imax(i, 0) + imax(j, 0)
{
    if i <= 0 { imax(j, 0) } else if j <= 0 { i } else {
        imin(1 + lev(w1, w2, i, j - 1), imin(1 + lev(w1, w2, i - 1, j), (if w1[i - 1] == w2[j - 1] { 0int } else { 1int }) + lev(w1, w2, i - 1, j - 1)))
    }
}
proof fn lemma_dcell_le_lev(w1: Seq<char>, k1: Seq<CharClass>, w2: Seq<char>, k2: Seq<CharClass>, i: int, j: int)
    requires 0 <= i, 0 <= j
    ensures dcell(w1, k1, w2, k2, i, j) <= 2 * lev(w1, w2, i, j)
    decreases i + j
{
    if i <= 0 { lemma_bs_bound(k2, j); } else if j <= 0 { lemma_bs_bound(k1, i); } else {
        lemma_dcell_le_lev(w1, k1, w2, k2, i, j - 1);
        lemma_dcell_le_lev(w1, k1, w2, k2, i - 1, j);
        lemma_dcell_le_lev(w1, k1, w2, k2, i - 1, j - 1);
    }
}

// DL-zero: equal prefixes are at distance 0
proof fn lemma_dl_zero(w1: Seq<char>, k1: Seq<CharClass>, w2: Seq<char>, k2: Seq<CharClass>, n: int)
    requires 0 <= n, same_prefix(w1, w2, n)
    ensures dcell(w1, k1, w2, k2, n, n) == 0
    decreases n
{
    if n > 0 {
        lemma_dl_zero(w1, k1, w2, k2, n - 1);
        lemma_dcell_range(w1, k1, w2, k2, n, n - 1);
        lemma_dcell_range(w1, k1, w2, k2, n - 1, n);
        let l1 = last_occ(w1, w2[n - 1], n - 1);
        let l2 = last_occ(w2, w1[n - 1], n - 1);
        if 0 < l1 <= n - 1 && 0 < l2 <= n - 1 { lemma_dcell_range(w1, k1, w2, k2, l1 - 1, l2 - 1); }
    }
}

proof fn lemma_bs_pos(k: Seq<CharClass>, n: int)
    requires 0 < n
    ensures bs(k, n) >= n
    decreases n
{ if n > 1 { lemma_bs_pos(k, n - 1); } assert(bs(k, n) == bs(k, n - 1) + ch(k[n - 1])); assert(ch(k[n - 1]) >= 1); }

// DL-pos: distance 0 only between equal prefixes ("zero exactly when they are equal", with DL-zero)
proof fn lemma_dl_pos(w1: Seq<char>, k1: Seq<CharClass>, w2: Seq<char>, k2: Seq<CharClass>, i: int, j: int)
    requires 0 <= i <= w1.len(), 0 <= j <= w2.len(), dcell(w1, k1, w2, k2, i, j) == 0
    ensures i == j, same_prefix(w1, w2, i)
    decreases i + j
{
    if i <= 0 {
        if j > 0 { lemma_bs_pos(k2, j); }
    } else if j <= 0 {
        lemma_bs_pos(k1, i);
    } else {
        lemma_dcell_range(w1, k1, w2, k2, i, j - 1);
        lemma_dcell_range(w1, k1, w2, k2, i - 1, j);
        lemma_dcell_range(w1, k1, w2, k2, i - 1, j - 1);
        let l1 = last_occ(w1, w2[j - 1], i - 1);
        let l2 = last_occ(w2, w1[i - 1], j - 1);
        if 0 < l1 <= i - 1 && 0 < l2 <= j - 1 { lemma_dcell_range(w1, k1, w2, k2, l1 - 1, l2 - 1); }
        // every candidate except "same character, diagonal 0" is >= 1
        assert(w1[i - 1] == w2[j - 1] && dcell(w1, k1, w2, k2, i - 1, j - 1) == 0);
        lemma_dl_pos(w1, k1, w2, k2, i - 1, j - 1);
        assert forall|t: int| 0 <= t < i implies w1[t] == w2[t] by { if t < i - 1 { } }
    }
}

// the recurrence value is at most each of its candidates
proof fn lemma_dcell_le_candidates(w1: Seq<char>, k1: Seq<CharClass>, w2: Seq<char>, k2: Seq<CharClass>, i: int, j: int)
    requires 0 < i, 0 < j
    ensures dcell(w1, k1, w2, k2, i, j) <= edit_cost(w2, k2, j - 1) + dcell(w1, k1, w2, k2, i, j - 1),
        dcell(w1, k1, w2, k2, i, j) <= edit_cost(w1, k1, i - 1) + dcell(w1, k1, w2, k2, i - 1, j),
        dcell(w1, k1, w2, k2, i, j) <= sub_cost(w1, k1, i - 1, w2, k2, j - 1) + dcell(w1, k1, w2, k2, i - 1, j - 1),
{ }

// ---- DL-edit1: one edit costs at most 1.0 (2 half units).  Four kinds, each an induction along the diagonal.
// (a) substitution at position p: w2 == w1 except at p
proof fn lemma_edit1_sub(w1: Seq<char>, k1: Seq<CharClass>, w2: Seq<char>, k2: Seq<CharClass>, p: int, n: int)
    requires 0 <= p < w1.len(), w1.len() == w2.len(), forall|t: int| 0 <= t < w1.len() && t != p ==> w1[t] == w2[t], p < n <= w1.len()
    ensures dcell(w1, k1, w2, k2, n, n) <= 2
    decreases n
{
    lemma_dcell_le_candidates(w1, k1, w2, k2, n, n);
    if n == p + 1 {
        assert(same_prefix(w1, w2, p));
        lemma_dl_zero(w1, k1, w2, k2, p);
    } else {
        lemma_edit1_sub(w1, k1, w2, k2, p, n - 1);
    }
}
// (b) w2 is w1 with one character inserted at position p (|w2| == |w1| + 1)
proof fn lemma_edit1_ins(w1: Seq<char>, k1: Seq<CharClass>, w2: Seq<char>, k2: Seq<CharClass>, p: int, n: int)
    requires 0 <= p <= w1.len(), w2.len() == w1.len() + 1, forall|t: int| 0 <= t < p ==> w1[t] == w2[t], forall|t: int| p <= t < w1.len() ==> w1[t] == w2[t + 1],
        p <= n <= w1.len()
    ensures dcell(w1, k1, w2, k2, n, n + 1) <= 2
    decreases n
{
    if n == p {
        assert(same_prefix(w1, w2, p));
        lemma_dl_zero(w1, k1, w2, k2, p);
        if p == 0 { assert(dcell(w1, k1, w2, k2, 0, 1) == bs(k2, 1)); assert(bs(k2, 1) == bs(k2, 0) + ch(k2[0])); }
        else { lemma_dcell_le_candidates(w1, k1, w2, k2, p, p + 1); }
    } else {
        lemma_edit1_ins(w1, k1, w2, k2, p, n - 1);
        lemma_dcell_le_candidates(w1, k1, w2, k2, n, n + 1);
    }
}
// (c) deletion is the mirror image of insertion (DL-sym)
proof fn lemma_edit1_del(w1: Seq<char>, k1: Seq<CharClass>, w2: Seq<char>, k2: Seq<CharClass>, p: int)
    requires 0 <= p <= w2.len(), w1.len() == w2.len() + 1, forall|t: int| 0 <= t < p ==> w2[t] == w1[t], forall|t: int| p <= t < w2.len() ==> w2[t] == w1[t + 1],
    ensures dcell(w1, k1, w2, k2, w1.len() as int, w2.len() as int) <= 2
{
    lemma_edit1_ins(w2, k2, w1, k1, p, w2.len() as int);
    lemma_dcell_sym(w2, k2, w1, k1, w2.len() as int, w1.len() as int);
}
// (d) transposition of the adjacent, different characters at p and p+1
proof fn lemma_edit1_trans(w1: Seq<char>, k1: Seq<CharClass>, w2: Seq<char>, k2: Seq<CharClass>, p: int, n: int)
    requires 0 <= p, p + 1 < w1.len(), w1.len() == w2.len(), w1[p] == w2[p + 1], w1[p + 1] == w2[p], w1[p] != w1[p + 1],
        forall|t: int| 0 <= t < w1.len() && t != p && t != p + 1 ==> w1[t] == w2[t], p + 2 <= n <= w1.len()
    ensures dcell(w1, k1, w2, k2, n, n) <= 2
    decreases n
{
    if n == p + 2 {
        assert(same_prefix(w1, w2, p));
        lemma_dl_zero(w1, k1, w2, k2, p);
        // last occurrences: w2[n-1] = w1[p] occurs in w1 at index p (position p+1), w1[n-1] = w2[p] occurs in w2 at index p
        let l1 = last_occ(w1, w2[n - 1], n - 1);
        let l2 = last_occ(w2, w1[n - 1], n - 1);
        assert(last_occ(w1, w2[n - 1], p + 1) == p + 1);
        assert(last_occ(w2, w1[n - 1], p + 1) == p + 1);
        assert(l1 == p + 1 && l2 == p + 1);
    } else {
        lemma_edit1_trans(w1, k1, w2, k2, p, n - 1);
        lemma_dcell_le_candidates(w1, k1, w2, k2, n, n);
    }
}

// DL-mono (class part): lower per-character costs can only lower the distance; in particular the vowel / non-letter
// discounts never raise it above the distance computed with every character at full cost
pub open spec fn costs_le(k: Seq<CharClass>, kk: Seq<CharClass>) -> bool { k.len() == kk.len() && forall|t: int| 0 <= t < k.len() ==> ch(#[trigger] k[t]) <= ch(kk[t]) }
proof fn lemma_bs_mono(k: Seq<CharClass>, kk: Seq<CharClass>, n: int)
    requires costs_le(k, kk), 0 <= n <= k.len()
    ensures bs(k, n) <= bs(kk, n)
    decreases n
{ if n > 0 { lemma_bs_mono(k, kk, n - 1); } }
proof fn lemma_dcell_mono(w1: Seq<char>, k1: Seq<CharClass>, kk1: Seq<CharClass>, w2: Seq<char>, k2: Seq<CharClass>, kk2: Seq<CharClass>, i: int, j: int)
    requires costs_le(k1, kk1), costs_le(k2, kk2), 0 <= i <= k1.len(), 0 <= j <= k2.len()
    ensures dcell(w1, k1, w2, k2, i, j) <= dcell(w1, kk1, w2, kk2, i, j)
    decreases i + j
{
    if i <= 0 { lemma_bs_mono(k2, kk2, j); } else if j <= 0 { lemma_bs_mono(k1, kk1, i); } else {
        lemma_dcell_mono(w1, k1, kk1, w2, k2, kk2, i, j - 1);
        lemma_dcell_mono(w1, k1, kk1, w2, k2, kk2, i - 1, j);
        lemma_dcell_mono(w1, k1, kk1, w2, k2, kk2, i - 1, j - 1);
        let l1 = last_occ(w1, w2[j - 1], i - 1);
        let l2 = last_occ(w2, w1[i - 1], j - 1);
        lemma_last_occ_le(w1, w2[j - 1], i - 1);
        lemma_last_occ_le(w2, w1[i - 1], j - 1);
        if 0 < l1 <= i - 1 && 0 < l2 <= j - 1 { lemma_dcell_mono(w1, k1, kk1, w2, k2, kk2, l1 - 1, l2 - 1); }
    }
}

// DL-prefix: the value for a pair of prefixes is the distance of those prefixes computed on their own
proof fn lemma_last_occ_take(w: Seq<char>, c: char, n: int, m: int)
    requires 0 <= n <= m <= w.len()
    ensures last_occ(w.take(m), c, n) == last_occ(w, c, n)
    decreases n
{ if n > 0 { lemma_last_occ_take(w, c, n - 1, m); } }
proof fn lemma_bs_take(k: Seq<CharClass>, n: int, m: int)
    requires 0 <= n <= m <= k.len()
    ensures bs(k.take(m), n) == bs(k, n)
    decreases n
{ if n > 0 { lemma_bs_take(k, n - 1, m); } }
proof fn lemma_dcell_prefix(w1: Seq<char>, k1: Seq<CharClass>, w2: Seq<char>, k2: Seq<CharClass>, i: int, j: int, a: int, b: int)
    requires 0 <= i <= a <= w1.len(), 0 <= j <= b <= w2.len(), k1.len() == w1.len(), k2.len() == w2.len()
    ensures dcell(w1.take(a), k1.take(a), w2.take(b), k2.take(b), i, j) == dcell(w1, k1, w2, k2, i, j)
    decreases i + j
{
    if i <= 0 { lemma_bs_take(k2, j, b); } else if j <= 0 { lemma_bs_take(k1, i, a); } else {
        lemma_dcell_prefix(w1, k1, w2, k2, i, j - 1, a, b);
        lemma_dcell_prefix(w1, k1, w2, k2, i - 1, j, a, b);
        lemma_dcell_prefix(w1, k1, w2, k2, i - 1, j - 1, a, b);
        lemma_last_occ_take(w1, w2[j - 1], i - 1, a);
        lemma_last_occ_take(w2, w1[i - 1], j - 1, b);
        let l1 = last_occ(w1, w2[j - 1], i - 1);
        let l2 = last_occ(w2, w1[i - 1], j - 1);
        lemma_last_occ_le(w1, w2[j - 1], i - 1);
        lemma_last_occ_le(w2, w1[i - 1], j - 1);
        if 0 < l1 <= i - 1 && 0 < l2 <= j - 1 { lemma_dcell_prefix(w1, k1, w2, k2, l1 - 1, l2 - 1, a, b); }
    }
}

// DL-udl: never less than half the unrestricted Damerau-Levenshtein distance.  `udl` is the unit-cost unrestricted
// Damerau-Levenshtein distance in its standard dynamic-programming form (Lowrance-Wagner: insertion, deletion, substitution
// at cost 1; a transposition of the two characters last seen at l1 / l2 costs the characters skipped in between plus 1).
// The weighted recurrence has the same shape with every cost, in half units, at least the unit cost.
pub open spec fn udl(w1: Seq<char>, w2: Seq<char>, i: int, j: int) -> int
    decreases imax(i, 0) + imax(j, 0)
{
    if i <= 0 { imax(j, 0) } else if j <= 0 { i } else {
        let add = 1 + udl(w1, w2, i, j - 1);
        let del = 1 + udl(w1, w2, i - 1, j);
        let sub = (if w1[i - 1] == w2[j - 1] { 0int } else { 1int }) + udl(w1, w2, i - 1, j - 1);
        let l1 = last_occ(w1, w2[j - 1], i - 1);
        let l2 = last_occ(w2, w1[i - 1], j - 1);
        let m3 = imin(add, imin(del, sub));
        if 0 < l1 <= i - 1 && 0 < l2 <= j - 1 {
            imin(m3, (i - 1 - l1) + (j - 1 - l2) + 1 + udl(w1, w2, l1 - 1, l2 - 1))
        } else { m3 }
    }
}
proof fn lemma_bs_ge(k: Seq<CharClass>, n: int)
    requires 0 <= n
    ensures bs(k, n) >= n
    decreases n
{ if n > 0 { lemma_bs_ge(k, n - 1); } }
proof fn lemma_dcell_ge_udl(w1: Seq<char>, k1: Seq<CharClass>, w2: Seq<char>, k2: Seq<CharClass>, i: int, j: int)
    requires 0 <= i, 0 <= j
    ensures dcell(w1, k1, w2, k2, i, j) >= udl(w1, w2, i, j)
    decreases i + j
{
    if i <= 0 { lemma_bs_ge(k2, j); } else if j <= 0 { lemma_bs_ge(k1, i); } else {
        lemma_dcell_ge_udl(w1, k1, w2, k2, i, j - 1);
        lemma_dcell_ge_udl(w1, k1, w2, k2, i - 1, j);
        lemma_dcell_ge_udl(w1, k1, w2, k2, i - 1, j - 1);
        let l1 = last_occ(w1, w2[j - 1], i - 1);
        let l2 = last_occ(w2, w1[i - 1], j - 1);
        if 0 < l1 <= i - 1 && 0 < l2 <= j - 1 { lemma_dcell_ge_udl(w1, k1, w2, k2, l1 - 1, l2 - 1); }
        assert(edit_cost(w2, k2, j - 1) >= 1 && edit_cost(w1, k1, i - 1) >= 1);
        assert(sub_cost(w1, k1, i - 1, w2, k2, j - 1) >= (if w1[i - 1] == w2[j - 1] { 0int } else { 1int }));
    }
}

// DL-mono (doubled-letter part): the doubled-letter discount can only lower the distance.  `dcell_nd` is the recurrence without
// that discount (insertion / deletion cost = the class cost alone).
pub open spec fn dcell_nd(w1: Seq<char>, k1: Seq<CharClass>, w2: Seq<char>, k2: Seq<CharClass>, i: int, j: int) -> int
    decreases imax(i, 0) + imax(j, 0)
{
    if i <= 0 { bs(k2, j) } else if j <= 0 { bs(k1, i) } else {
        let add = ch(k2[j - 1]) + dcell_nd(w1, k1, w2, k2, i, j - 1);
        let del = ch(k1[i - 1]) + dcell_nd(w1, k1, w2, k2, i - 1, j);
        let sub = sub_cost(w1, k1, i - 1, w2, k2, j - 1) + dcell_nd(w1, k1, w2, k2, i - 1, j - 1);
        let l1 = last_occ(w1, w2[j - 1], i - 1);
        let l2 = last_occ(w2, w1[i - 1], j - 1);
        let m3 = imin(add, imin(del, sub));
        if 0 < l1 <= i - 1 && 0 < l2 <= j - 1 {
            imin(m3, (i - 1 - l1) + (j - 1 - l2) + 1 + dcell_nd(w1, k1, w2, k2, l1 - 1, l2 - 1))
        } else { m3 }
    }
}
proof fn lemma_dcell_le_nd(w1: Seq<char>, k1: Seq<CharClass>, w2: Seq<char>, k2: Seq<CharClass>, i: int, j: int)
    requires 0 <= i, 0 <= j
    ensures dcell(w1, k1, w2, k2, i, j) <= dcell_nd(w1, k1, w2, k2, i, j)
    decreases i + j
{
    if i > 0 && j > 0 {
        lemma_dcell_le_nd(w1, k1, w2, k2, i, j - 1);
        lemma_dcell_le_nd(w1, k1, w2, k2, i - 1, j);
        lemma_dcell_le_nd(w1, k1, w2, k2, i - 1, j - 1);
        let l1 = last_occ(w1, w2[j - 1], i - 1);
        let l2 = last_occ(w2, w1[i - 1], j - 1);
        if 0 < l1 <= i - 1 && 0 < l2 <= j - 1 { lemma_dcell_le_nd(w1, k1, w2, k2, l1 - 1, l2 - 1); }
        assert(edit_cost(w2, k2, j - 1) <= ch(k2[j - 1]) && edit_cost(w1, k1, i - 1) <= ch(k1[i - 1]));
    }
}
