//@include ../common/head.rs
//@include ../common/float.rs
//@include ../common/slices.rs
//@include ../common/uses.rs
//@include ../common/helpers.rs
//@include body.rs
//@include ../common/tail.rs
