// ======================================================================= Store::search (C02 C05 C06 C09 C12 C01)
// @item rust/core/src/search/score.rs :: impl Default for Scores
impl Scores {
    fn default() -> (ret: Scores)
        ensures forall|k: int| 0 <= k < 9 ==> ret.0[k] == 0,
    {
        Scores([0; SCORES_SIZE])
    }
}
// @item rust/core/src/search/hit.rs :: impl Hit::{from_record}
impl<'a> Hit<'a> {
    pub fn from_record(record: &'a Record) -> (ret: Hit<'a>)
        ensures ret.id == record.id, ret.rating == record.rating, ret.rmatches@.len() == 0, ret.qmatches@.len() == 0,
            ret.title.words@ == record.title.words@, ret.title.source@ == record.title.source@, ret.title.chars@ == record.title.chars@, ret.title.classes@ == record.title.classes@,
    {
        Hit { id: record.id, title: record.title.to_ref(), rating: record.rating, scores: Scores::default(), rmatches: Vec::new(), qmatches: Vec::new() }
    }
}
// ---- callees that are not part of this unit.  `prepare` and `top_ixs` are proved in units grams / store (there with `&mut self`
// receivers after RefCell stripping; in the repository the RefCell makes `&self` possible); `limit_sort_all` stands for the
// `.limit_sort_unstable(limit, cmp)` stage (R30) with the selection contract LS that lane K checks on the real LimitSortIter
// (bounded); `compare_hits` is the comparator proved in lane K.
//@include ../common/limitsort.rs
//@include ../common/gram_contracts.rs
//@include ../common/store_contract.rs
//@include ../grams/laws.rs
impl TrigramIndex {
    // proved in unit grams (same pre- and postcondition predicates)
    #[verifier::external_body]
    pub fn prepare(&self, query: &TextRef, size: usize) -> (r: Vec<usize>)
        requires self.wf(), text_ok(query), size <= 0x1000_0000,
        ensures prepare_post(self.dict@, self.len as int, query.words@, query.chars@, size as int, r@),
    { unimplemented!() }
}
impl Store {
    // proved in unit store (same pre- and postcondition predicates)
    #[verifier::external_body]
    pub fn top_ixs(&self) -> (r: Vec<usize>)
        requires self.coherent(), self.limit <= 0x7fff_ffff_ffff_ffff,
        ensures r@ == spec_top(self.records@, self.limit), top_post(self.records@.len() as int, self.limit as int, r@), top_ordered(self.records@, r@),
    { unimplemented!() }
}
// the comparator of the final ranking, `sort::compare_hits`, is named in the call by this tag (rule R30/R12); lane K proves on the
// real function that it is the descending lexicographic order of the nine score slots, antisymmetric and transitive
pub struct CmpHits;
// (desc_le: the order itself is defined with the score unit, score/c08_scenarios.rs)
mod hitx {
    use vstd::prelude::*;
    use super::{ls_le, desc_le, CmpHits, Hit};
    // link to lane K (harness compare_hits_is_lex_desc): compare_hits(h1, h2) != Greater  <=>  desc_le(scores1, scores2)
    pub axiom fn ls_le_hits(h1: Hit, h2: Hit) ensures ls_le::<Hit, CmpHits>(CmpHits, h1, h2) == desc_le(h1.scores.0, h2.scores.0);
}
proof fn lemma_desc_total(a: [isize; 9], b: [isize; 9]) ensures desc_le(a, b) || desc_le(b, a)
{
    if !(forall|m: int| 0 <= m < 9 ==> a[m] == b[m]) {
        // the first differing slot decides
        let k = first_diff(a, b, 0);
        lemma_first_diff(a, b, 0);
        if a[k] > b[k] { assert(desc_le(a, b)); } else { assert(b[k] > a[k]); assert(forall|m: int| 0 <= m < k ==> b[m] == a[m]); assert(desc_le(b, a)); }
    }
}
pub open spec fn first_diff(a: [isize; 9], b: [isize; 9], from: int) -> int decreases 9 - from { if from >= 9 { 9 } else if a[from] != b[from] { from } else { first_diff(a, b, from + 1) } }
proof fn lemma_first_diff(a: [isize; 9], b: [isize; 9], from: int)
    requires 0 <= from <= 9,
    ensures from <= first_diff(a, b, from) <= 9, forall|m: int| from <= m < first_diff(a, b, from) ==> a[m] == b[m], first_diff(a, b, from) < 9 ==> a[first_diff(a, b, from)] != b[first_diff(a, b, from)],
    decreases 9 - from
{ if from < 9 && a[from] == b[from] { lemma_first_diff(a, b, from + 1); } }
proof fn lemma_desc_trans(a: [isize; 9], b: [isize; 9], c: [isize; 9]) requires desc_le(a, b), desc_le(b, c) ensures desc_le(a, c)
{
    let eq_ab = forall|m: int| 0 <= m < 9 ==> a[m] == b[m];
    let eq_bc = forall|m: int| 0 <= m < 9 ==> b[m] == c[m];
    if eq_ab && eq_bc { } else if eq_ab {
        let k = choose|k: int| 0 <= k < 9 && (forall|m: int| 0 <= m < k ==> b[m] == c[m]) && #[trigger] b[k] > c[k];
        assert(a[k] > c[k]); assert(forall|m: int| 0 <= m < k ==> a[m] == c[m]);
    } else if eq_bc {
        let k = choose|k: int| 0 <= k < 9 && (forall|m: int| 0 <= m < k ==> a[m] == b[m]) && #[trigger] a[k] > b[k];
        assert(a[k] > c[k]); assert(forall|m: int| 0 <= m < k ==> a[m] == c[m]);
    } else {
        let k1 = choose|k: int| 0 <= k < 9 && (forall|m: int| 0 <= m < k ==> a[m] == b[m]) && #[trigger] a[k] > b[k];
        let k2 = choose|k: int| 0 <= k < 9 && (forall|m: int| 0 <= m < k ==> b[m] == c[m]) && #[trigger] b[k] > c[k];
        let k = if k1 <= k2 { k1 } else { k2 };
        assert(forall|m: int| 0 <= m < k ==> a[m] == c[m]);
        assert(a[k] > c[k]);
    }
}
proof fn lemma_ls_ok_hits() ensures ls_ok::<Hit, CmpHits>(CmpHits)
{
    reveal(ls_ok);
    assert forall|x: Hit, y: Hit| #[trigger] ls_le::<Hit, CmpHits>(CmpHits, x, y) || ls_le::<Hit, CmpHits>(CmpHits, y, x) by {
        hitx::ls_le_hits(x, y); hitx::ls_le_hits(y, x); lemma_desc_total(x.scores.0, y.scores.0);
    }
    assert forall|x: Hit, y: Hit, z: Hit| #[trigger] ls_le::<Hit, CmpHits>(CmpHits, x, y) && #[trigger] ls_le::<Hit, CmpHits>(CmpHits, y, z) implies ls_le::<Hit, CmpHits>(CmpHits, x, z) by {
        hitx::ls_le_hits(x, y); hitx::ls_le_hits(y, z); hitx::ls_le_hits(x, z); lemma_desc_trans(x.scores.0, y.scores.0, z.scores.0);
    }
}
// positions of the elements that a filter keeps
pub open spec fn fmap<T>(s: Seq<T>, p: spec_fn(T) -> bool) -> Seq<int>
    decreases s.len()
{
    if s.len() == 0 { Seq::empty() } else { let m = fmap(s.drop_last(), p); if p(s.last()) { m.push(s.len() - 1) } else { m } }
}
proof fn lemma_fmap<T>(s: Seq<T>, p: spec_fn(T) -> bool)
    ensures fmap(s, p).len() == s.filter(p).len(),
        forall|j: int| 0 <= j < fmap(s, p).len() ==> 0 <= #[trigger] fmap(s, p)[j] < s.len() && s[fmap(s, p)[j]] == s.filter(p)[j] && p(s[fmap(s, p)[j]]),
        forall|a: int, b: int| 0 <= a < b < fmap(s, p).len() ==> #[trigger] fmap(s, p)[a] < #[trigger] fmap(s, p)[b],
    decreases s.len()
{
    reveal(Seq::filter);
    if s.len() > 0 {
        lemma_fmap(s.drop_last(), p);
        let m = fmap(s.drop_last(), p);
        assert forall|j: int| 0 <= j < fmap(s, p).len() implies 0 <= #[trigger] fmap(s, p)[j] < s.len() && s[fmap(s, p)[j]] == s.filter(p)[j] && p(s[fmap(s, p)[j]]) by {
            if j < m.len() { assert(s.drop_last()[m[j]] == s[m[j]]); } else { assert(s[s.len() - 1] == s.last()); }
        }
    }
}
// a stored record as the tokeniser leaves it (C15) plus the size bounds the scoring contracts need
pub open spec fn record_ok(r: &Record) -> bool {
    r.title.words@.len() <= 0x10_0000 && r.title.chars@.len() <= 0x4000_0000 && r.title.source@.len() == r.title.chars@.len() && r.title.classes@.len() == r.title.chars@.len()
    && (forall|k: int| 0 <= k < r.title.words@.len() ==> (#[trigger] r.title.words@[k]).offset == k && r.title.words@[k].slice.0 < r.title.words@[k].slice.1 && r.title.words@[k].slice.1 <= r.title.chars@.len()
            && 1 <= r.title.words@[k].stem <= r.title.words@[k].slice.1 - r.title.words@[k].slice.0 && r.title.words@[k].slice.1 - r.title.words@[k].slice.0 < 0x8_0000)
    && (forall|k: int, m: int| 0 <= k < m < r.title.words@.len() ==> (#[trigger] r.title.words@[k]).slice.1 <= (#[trigger] r.title.words@[m]).slice.0)
}
// `h` is record `r` scored against the query: the record's own id / rating / title, and a match list for that title
pub open spec fn scored(h: Hit, r: &Record, query: &TextRef) -> bool {
    tm_some(&h.title, query, (h.rmatches, h.qmatches)) && tm_first(&h.title, query, (h.rmatches, h.qmatches)) && tm_fin(query, (h.rmatches, h.qmatches)) && tm_c14(&h.title, query, (h.rmatches, h.qmatches))
    && (query.words@.len() == 0 ==> h.rmatches@.len() == 0) && slots_ok(h) && h.id == r.id && h.rating == r.rating
    && h.title.words@ == r.title.words@ && h.title.source@ == r.title.source@ && h.title.chars@ == r.title.chars@ && h.title.classes@ == r.title.classes@
    && matches_for_text(h.rmatches@, &h.title) && matches_ok(h.rmatches@) && matches_ok(h.qmatches@) && (h.rmatches@.len() >= 1 ==> h.qmatches@.len() >= 1)
}
// the title returned for hit `h` under the markers `d`
pub open spec fn shown(h: Hit, l: Seq<char>, r: Seq<char>) -> Seq<char> { render_all(h.title.source@, h.title.words@, h.rmatches@, l, r).filter(not_nul()) }
pub open spec fn good_hit(h: Hit, recs: Seq<Record>, query: &TextRef) -> bool { exists|ix: int| 0 <= ix < recs.len() && record_ok(&recs[ix]) && #[trigger] scored(h, &recs[ix], query) && hm_spec(query, &h) }
// one returned entry: the id of a good hit and the rendering of that hit's own title with that hit's own matches
pub open spec fn result_ok(sr: SearchResult, recs: Seq<Record>, query: &TextRef, l: Seq<char>, r: Seq<char>) -> bool {
    exists|h: Hit| good_hit(h, recs, query) && sr.id == h.id && sr.title@ == shown(h, l, r)
}
// the filter verdict as a predicate on hits
pub open spec fn passes<'a>(query: &'a TextRef<'a>) -> spec_fn(Hit<'a>) -> bool { |h: Hit<'a>| hm_spec(query, &h) }
// C06: what one search did: `cands` are the candidate positions it looked at (distinct positions of existing records), `hs[i]` is
// record cands[i] scored on its own against the query
// the returned list against the trace: entry k is candidate pos[k] (no candidate twice), which passed the filter, with the
// rendering of ITS title and ITS matches
pub open spec fn sel_ok(ret: Seq<SearchResult>, hs: Seq<Hit>, pos: Seq<int>, query: &TextRef, l: Seq<char>, r: Seq<char>) -> bool {
    pos.len() == ret.len() && pos.no_duplicates()
    && forall|k: int| 0 <= k < ret.len() ==> 0 <= #[trigger] pos[k] < hs.len() && hm_spec(query, &hs[pos[k]]) && ret[k].id == hs[pos[k]].id && ret[k].title@ == shown(hs[pos[k]], l, r)
}
pub open spec fn trace_ok(cands: Seq<usize>, hs: Seq<Hit>, recs: Seq<Record>, query: &TextRef) -> bool {
    hs.len() == cands.len() && cands.no_duplicates()
    && forall|i: int| 0 <= i < cands.len() ==> (#[trigger] cands[i]) < recs.len() && scored(hs[i], &recs[cands[i] as int], query)
}
// where the candidates come from: the trigram index for a query with words (C05 C03), the top-rated list otherwise (C12)
pub open spec fn cand_src(cands: Seq<usize>, st: &Store, query: &TextRef) -> bool {
    (query.words@.len() > 0 ==> prepare_post(st.index.dict@, st.index.len as int, query.words@, query.chars@, st.limit as int, cands))
    && (query.words@.len() == 0 ==> cands == spec_top(st.records@, st.limit) && top_post(st.records@.len() as int, st.limit as int, cands) && top_ordered(st.records@, cands))
}
// C05: the record's title and the query have a gram in common (a trigram, or a one- or two-letter word start)
pub open spec fn common_gram(r: &Record, query: &TextRef) -> bool {
    exists|g: [char; 3]| #[trigger] has_gram(r.title.words@, r.title.chars@, g@) && has_gram(query.words@, query.chars@, g@)
}
// C03: the (first) query word is still being typed and is an exact prefix of word w of the record's title
pub open spec fn rec_prefix(r: &Record, query: &TextRef, w: int) -> bool {
    0 <= w < r.title.words@.len() && query.words@.len() >= 1 && !query.words@[0].fin && starts_with(word_chars(r.title.words@, r.title.chars@, w), tchars(query, 0))
}
// C13: the single query word has the same characters as word w of the record's title
pub open spec fn rec_equal(r: &Record, query: &TextRef, w: int) -> bool {
    0 <= w < r.title.words@.len() && query.words@.len() >= 1 && word_chars(r.title.words@, r.title.chars@, w).len() == tchars(query, 0).len()
    && starts_with(word_chars(r.title.words@, r.title.chars@, w), tchars(query, 0))
}
// C04: the (first) query word is still being typed and is one explicit edit away from word w of the record's title (>= 5 characters,
// three of them different)
pub open spec fn rec_edit1(r: &Record, query: &TextRef, w: int, p: int) -> bool {
    let rc = word_chars(r.title.words@, r.title.chars@, w); let qc = tchars(query, 0);
    0 <= w < r.title.words@.len() && query.words@.len() >= 1 && !query.words@[0].fin && rc.len() >= 5 && three_letters(rc)
    && (is_sub(rc, qc, p) || is_ins(rc, qc, p) || is_del(rc, qc, p) || is_trans(rc, qc, p))
}
// C14 (split spelling): word w of the record's title (at least five characters, three of them different) is spelled by the first two
// query words, one separator between them, the second one still being typed
pub open spec fn rec_split(r: &Record, query: &TextRef, w: int) -> bool {
    let rc = word_chars(r.title.words@, r.title.chars@, w);
    0 <= w < r.title.words@.len() && query.words@.len() >= 2 && !query.words@[1].fin && query.words@[1].slice.0 == query.words@[0].slice.1 + 1
    && rc == tchars(query, 0) + tchars(query, 1) && rc.len() >= 5 && three_letters(rc)
}
// C14 (joined spelling): words w and w+1 of the record's title (one separator between them, the second of at least three characters) are
// run together in the single query word being typed, which stemming leaves unchanged and which has three different characters
pub open spec fn rec_join(r: &Record, query: &TextRef, w: int) -> bool {
    0 <= w && w + 1 < r.title.words@.len() && query.words@.len() >= 1 && !query.words@[0].fin && r.title.words@[w + 1].slice.0 == r.title.words@[w].slice.1 + 1
    && tchars(query, 0) == word_chars(r.title.words@, r.title.chars@, w) + word_chars(r.title.words@, r.title.chars@, w + 1)
    && query.words@[0].stem == tchars(query, 0).len() && word_chars(r.title.words@, r.title.chars@, w + 1).len() >= 3 && three_letters(tchars(query, 0))
}
// C12 / C09: the entry is a record with its stored title as it is (NUL padding aside): nothing highlighted
pub open spec fn result_plain(sr: SearchResult, recs: Seq<Record>) -> bool {
    exists|ix: int| 0 <= ix < recs.len() && sr.id == (#[trigger] recs[ix]).id && sr.title@ == recs[ix].title.source@.filter(not_nul())
}
// C05: the entry is a record whose title shares a gram with the query
pub open spec fn result_shares(sr: SearchResult, recs: Seq<Record>, query: &TextRef) -> bool {
    exists|j: int| 0 <= j < recs.len() && sr.id == (#[trigger] recs[j]).id && common_gram(&recs[j], query)
}
// a well-formed text satisfies the index's size requirement: the word lengths add up to at most the text length
proof fn lemma_text_ok(t: &TextRef, n: int)
    requires text_wf(t), 0 <= n <= t.words@.len(),
    ensures sum_len(t.words@, n) <= (if n == 0 { 0int } else { t.words@[n - 1].slice.1 as int }), sum_len(t.words@, n) >= 0,
    decreases n
{
    if n > 0 { lemma_text_ok(t, n - 1); if n > 1 { assert(t.words@[n - 2].slice.1 <= t.words@[n - 1].slice.0); } }
}
// C12: the ranking for a query without words.  `listed(j)`: record position j is one of the returned candidates
pub open spec fn listed(cands: Seq<usize>, pos: Seq<int>, j: int) -> bool { exists|k: int| 0 <= k < pos.len() && cands[#[trigger] pos[k]] == j as usize }
pub open spec fn rank_ok(cands: Seq<usize>, pos: Seq<int>, recs: Seq<Record>, query: &TextRef) -> bool {
    query.words@.len() == 0 ==> {
        // ratings never increase down the list
        &&& (forall|a: int, b: int| 0 <= a <= b < pos.len() ==> recs[cands[#[trigger] pos[a]] as int].rating >= recs[cands[#[trigger] pos[b]] as int].rating)
        // no record left out is before a listed one in the order (rating descending, then normalised title ascending)
        &&& (forall|j: int, a: int| 0 <= j < recs.len() && 0 <= a < pos.len() && !#[trigger] listed(cands, pos, j) ==> rec_le(&recs[cands[#[trigger] pos[a]] as int], &recs[j]))
    }
}
// the score slots of a hit without matches: everything but the rating, the word count and the character count is a constant
proof fn lemma_empty_slots(h: Hit)
    requires slots_ok(h), h.rmatches@.len() == 0,
    ensures h.scores.0[0] == 0, h.scores.0[1] == 0, h.scores.0[2] == 0, h.scores.0[3] == 0, h.scores.0[4] == 1, h.scores.0[5] == 0, h.scores.0[6] == rslot(h.rating),
{ }
proof fn lemma_search_c12(st: &Store, query: &TextRef, ixs: Seq<usize>, hs: Seq<Hit>, pos: Seq<int>, sel: Seq<Hit>)
    requires st.srch_ok(), cand_src(ixs, st, query), trace_ok(ixs, hs, st.records@, query), query.words@.len() == 0,
        pos.len() == sel.len(), forall|k: int| 0 <= k < sel.len() ==> 0 <= #[trigger] pos[k] < hs.len() && sel[k] == hs[pos[k]],
        ls_sorted(sel, CmpHits), forall|i: int| 0 <= i < hs.len() ==> pos.contains(i),
    ensures rank_ok(ixs, pos, st.records@, query),
{
    let recs = st.records@;
    assert forall|a: int, b: int| 0 <= a <= b < pos.len() implies recs[ixs[#[trigger] pos[a]] as int].rating >= recs[ixs[#[trigger] pos[b]] as int].rating by {
        let ha = sel[a]; let hb = sel[b];
        assert(ls_le::<Hit, CmpHits>(CmpHits, ha, hb));
        hitx::ls_le_hits(ha, hb);
        assert(scored(hs[pos[a]], &recs[ixs[pos[a]] as int], query)); assert(scored(hs[pos[b]], &recs[ixs[pos[b]] as int], query));
        lemma_empty_slots(ha); lemma_empty_slots(hb); lemma_rslot(ha.rating, hb.rating); lemma_rslot(hb.rating, ha.rating);
        let x = ha.scores.0; let y = hb.scores.0;
        if !(forall|m: int| 0 <= m < 9 ==> x[m] == y[m]) {
            let k = choose|k: int| 0 <= k < 9 && (forall|m: int| 0 <= m < k ==> x[m] == y[m]) && #[trigger] x[k] > y[k];
            assert(k >= 6) by { if k < 6 { assert(x[k] == y[k]); } }
            if k > 6 { assert(x[6] == y[6]); }
        } else { assert(x[6] == y[6]); }
    }
    assert forall|j: int, a: int| 0 <= j < recs.len() && 0 <= a < pos.len() && !#[trigger] listed(ixs, pos, j) implies rec_le(&recs[ixs[#[trigger] pos[a]] as int], &recs[j]) by {
        // every candidate is listed, so j is not a candidate; the candidates are in rec_le order and none left out is before the last
        if ixs.contains(j as usize) {
            let i = choose|i: int| 0 <= i < ixs.len() && ixs[i] == j as usize;
            assert(pos.contains(i));
            let k = choose|k: int| 0 <= k < pos.len() && pos[k] == i;
            assert(ixs[pos[k]] == j as usize);
            assert(listed(ixs, pos, j));
        }
        let i = pos[a];
        assert(rec_le(&recs[ixs[i] as int], &recs[ixs[ixs.len() - 1] as int]));
        assert(ixs.last() == ixs[ixs.len() - 1]);
        assert(rec_le(&recs[ixs.last() as int], &recs[j]));
        lemma_rec_le_trans(&recs[ixs[i] as int], &recs[ixs.last() as int], &recs[j]);
    }
}
// C06 / C07: the returned hits are in the order of compare_hits (descending lexicographic order of the score slots), and no passing
// candidate left out is before the last returned one: the result is the first `limit` entries of the list an unlimited search gives
pub open spec fn order_ok(hs: Seq<Hit>, pos: Seq<int>, query: &TextRef) -> bool {
    (forall|a: int, b: int| 0 <= a <= b < pos.len() ==> desc_le(hs[#[trigger] pos[a]].scores.0, hs[#[trigger] pos[b]].scores.0))
    && (forall|i: int| 0 <= i < hs.len() && hm_spec(query, &#[trigger] hs[i]) && !pos.contains(i) && pos.len() > 0 ==> desc_le(hs[pos[pos.len() - 1]].scores.0, hs[i].scores.0))
}
// positions (in the trace) of the selected hits: the filter's position map composed with the selection's
pub open spec fn pos_of(hs: Seq<Hit>, query: &TextRef, n: nat, idx: Seq<int>) -> Seq<int> { Seq::new(n, |k: int| fmap(hs, passes(query))[idx[k]]) }
proof fn lemma_select(hs: Seq<Hit>, items: Seq<Hit>, sel: Seq<Hit>, idx: Seq<int>, query: &TextRef, limit: usize, recs: Seq<Record>)
    requires items == hs.filter(passes(query)), selection(sel, items, idx), sel.len() == (if items.len() < limit { items.len() } else { limit as nat }),
        forall|m: int| 0 <= m < items.len() ==> good_hit(#[trigger] items[m], recs, query),
        ls_sorted(sel, CmpHits), ls_best(sel, items, idx, CmpHits),
    ensures order_ok(hs, pos_of(hs, query, sel.len(), idx), query),
        ({ let pos = pos_of(hs, query, sel.len(), idx);
        &&& pos.len() == sel.len() && pos.no_duplicates()
        &&& forall|k: int| 0 <= k < sel.len() ==> 0 <= #[trigger] pos[k] < hs.len() && hm_spec(query, &hs[pos[k]]) && sel[k] == hs[pos[k]]
        &&& forall|m: int| 0 <= m < sel.len() ==> good_hit(#[trigger] sel[m], recs, query)
        &&& (items.len() <= limit ==> forall|i: int| 0 <= i < hs.len() && hm_spec(query, &#[trigger] hs[i]) ==> pos.contains(i)) }),
{
    let fm = fmap(hs, passes(query));
    let pos = pos_of(hs, query, sel.len(), idx);
    lemma_fmap(hs, passes(query));
    assert forall|a: int, b: int| 0 <= a < pos.len() && 0 <= b < pos.len() && a != b implies pos[a] != pos[b] by {
        assert(idx[a] != idx[b]);
        if idx[a] < idx[b] { assert(fm[idx[a]] < fm[idx[b]]); } else { assert(fm[idx[b]] < fm[idx[a]]); }
    }
    assert forall|k: int| 0 <= k < sel.len() implies 0 <= #[trigger] pos[k] < hs.len() && hm_spec(query, &hs[pos[k]]) && sel[k] == hs[pos[k]] by {
        assert(0 <= idx[k] < items.len());
    }
    assert forall|m: int| 0 <= m < sel.len() implies good_hit(#[trigger] sel[m], recs, query) by { assert(sel[m] == items[idx[m]]); }
    // order: LS-ord of the selection, read through the comparator's link and the position map
    assert forall|a: int, b: int| 0 <= a <= b < pos.len() implies desc_le(hs[#[trigger] pos[a]].scores.0, hs[#[trigger] pos[b]].scores.0) by {
        assert(sel[a] == hs[pos[a]] && sel[b] == hs[pos[b]]);
        assert(ls_le(CmpHits, sel[a], sel[b]));
        hitx::ls_le_hits(sel[a], sel[b]);
    }
    lemma_fmap_onto(hs, passes(query));
    assert forall|i: int| 0 <= i < hs.len() && hm_spec(query, &#[trigger] hs[i]) && !pos.contains(i) && pos.len() > 0 implies desc_le(hs[pos[pos.len() - 1]].scores.0, hs[i].scores.0) by {
        let m = choose|m: int| 0 <= m < fm.len() && fm[m] == i;
        if idx.contains(m) { let k = choose|k: int| 0 <= k < idx.len() && idx[k] == m; assert(pos[k] == i); assert(false); }
        assert(items[m] == hs[i]);
        let z = sel.len() - 1;
        assert(sel[z] == hs[pos[z]]);
        assert(ls_le(CmpHits, sel.last(), items[m]));
        hitx::ls_le_hits(sel[z], items[m]);
    }
    if items.len() <= limit {
        lemma_selection_full(sel, items, idx);
        lemma_fmap_onto(hs, passes(query));
        assert forall|i: int| 0 <= i < hs.len() && hm_spec(query, &#[trigger] hs[i]) implies pos.contains(i) by {
            let m = choose|m: int| 0 <= m < fm.len() && fm[m] == i;
            assert(idx.contains(m));
            let k = choose|k: int| 0 <= k < idx.len() && idx[k] == m;
            assert(pos[k] == i);
        }
    }
}
// everything Store::search promises about its result, from the trace facts its two loops establish
proof fn lemma_search_final(st: &Store, query: &TextRef, ixs: Seq<usize>, hs: Seq<Hit>, pos: Seq<int>, sel: Seq<Hit>, out: Seq<SearchResult>)
    requires st.srch_ok(), text_wf(query), cand_src(ixs, st, query), trace_ok(ixs, hs, st.records@, query),
        pos.len() == sel.len(), pos.no_duplicates(), out.len() == sel.len(),
        forall|k: int| 0 <= k < sel.len() ==> 0 <= #[trigger] pos[k] < hs.len() && hm_spec(query, &hs[pos[k]]) && sel[k] == hs[pos[k]],
        forall|m: int| 0 <= m < sel.len() ==> good_hit(#[trigger] sel[m], st.records@, query),
        forall|k: int| 0 <= k < out.len() ==> (#[trigger] out[k]).id == sel[k].id && out[k].title@ == shown(sel[k], st.dividers.0@, st.dividers.1@),
        sel.len() == (if hs.filter(passes(query)).len() < st.limit { hs.filter(passes(query)).len() } else { st.limit as nat }),
        hs.filter(passes(query)).len() <= st.limit ==> forall|i: int| 0 <= i < hs.len() && hm_spec(query, &#[trigger] hs[i]) ==> pos.contains(i),
        ls_sorted(sel, CmpHits),
    ensures
        forall|k: int| 0 <= k < out.len() ==> result_ok(#[trigger] out[k], st.records@, query, st.dividers.0@, st.dividers.1@),
        sel_ok(out, hs, pos, query, st.dividers.0@, st.dividers.1@),
        rank_ok(ixs, pos, st.records@, query),
        query.words@.len() > 0 ==> forall|k: int| 0 <= k < out.len() ==> result_shares(#[trigger] out[k], st.records@, query),
        st.records@.len() <= st.limit && query.words@.len() == 1 ==> forall|j: int, w: int| 0 <= j < st.records@.len() && #[trigger] rec_prefix(&st.records@[j], query, w) ==> exists|k: int| 0 <= k < out.len() && (#[trigger] out[k]).id == st.records@[j].id,
        st.records@.len() <= st.limit && query.words@.len() == 1 ==> forall|j: int, w: int| 0 <= j < st.records@.len() && #[trigger] rec_equal(&st.records@[j], query, w) ==> exists|k: int| 0 <= k < out.len() && (#[trigger] out[k]).id == st.records@[j].id,
        st.records@.len() <= st.limit && query.words@.len() >= 2 && query.words@[0].fin ==> forall|j: int, w: int| 0 <= j < st.records@.len() && #[trigger] rec_equal(&st.records@[j], query, w) ==> exists|k: int| 0 <= k < out.len() && (#[trigger] out[k]).id == st.records@[j].id,
        st.records@.len() <= st.limit && query.words@.len() >= 2 && query.words@[0].fin ==> forall|j: int, w: int| 0 <= j < st.records@.len() && #[trigger] rec_split(&st.records@[j], query, w) ==> exists|k: int| 0 <= k < out.len() && (#[trigger] out[k]).id == st.records@[j].id,
        st.records@.len() <= st.limit && query.words@.len() == 1 ==> forall|j: int, w: int| 0 <= j < st.records@.len() && #[trigger] rec_join(&st.records@[j], query, w) ==> exists|k: int| 0 <= k < out.len() && (#[trigger] out[k]).id == st.records@[j].id,
        st.records@.len() <= st.limit && query.words@.len() == 1 ==> forall|j: int, w: int, p: int| 0 <= j < st.records@.len() && #[trigger] rec_edit1(&st.records@[j], query, w, p) ==> exists|k: int| 0 <= k < out.len() && (#[trigger] out[k]).id == st.records@[j].id,
        query.words@.len() == 0 ==> out.len() == (if st.records@.len() < st.limit { st.records@.len() } else { st.limit as nat }),
        query.words@.len() == 0 ==> forall|k: int| 0 <= k < out.len() ==> result_plain(#[trigger] out[k], st.records@),
{
    let recs = st.records@;
    assert forall|k: int| 0 <= k < out.len() implies result_ok(#[trigger] out[k], recs, query, st.dividers.0@, st.dividers.1@) by {
        let h = sel[k]; assert(good_hit(h, recs, query));
    }
    assert(sel_ok(out, hs, pos, query, st.dividers.0@, st.dividers.1@));
    if query.words@.len() > 0 {
        assert forall|k: int| 0 <= k < out.len() implies result_shares(#[trigger] out[k], recs, query) by {
            let c = ixs[pos[k]];
            let j = c as int;
            assert(shares(st.index.dict@, query.words@, query.chars@, j));
            let g = choose|g: [char; 3]| has_gram(query.words@, query.chars@, g@) && #[trigger] posted(st.index.dict@, g, j);
            assert(has_gram(recs[j].title.words@, recs[j].title.chars@, g@));
            assert(scored(hs[pos[k]], &recs[j], query));
            assert(out[k].id == recs[j].id && common_gram(&recs[j], query));
        }
    } else {
        lemma_filter_all(hs, passes(query));
        lemma_search_c12(st, query, ixs, hs, pos, sel);
        lemma_search_plain(st, query, sel, out);
    }
    lemma_search_c03(st, query, ixs, hs, pos, out);
    lemma_search_c04(st, query, ixs, hs, pos, out);
    lemma_search_c13(st, query, ixs, hs, pos, out);
    lemma_search_c13w(st, query, ixs, hs, pos, out);
    lemma_search_c14s(st, query, ixs, hs, pos, out);
    lemma_search_c14j(st, query, ixs, hs, pos, out);
}
// C12 / C09: a query without words highlights nothing: tm_empty (no matches) + the rendering without matches is the source
proof fn lemma_search_plain(st: &Store, query: &TextRef, sel: Seq<Hit>, out: Seq<SearchResult>)
    requires st.srch_ok(), query.words@.len() == 0, out.len() == sel.len(),
        forall|m: int| 0 <= m < sel.len() ==> good_hit(#[trigger] sel[m], st.records@, query),
        forall|k: int| 0 <= k < out.len() ==> (#[trigger] out[k]).id == sel[k].id && out[k].title@ == shown(sel[k], st.dividers.0@, st.dividers.1@),
    ensures forall|k: int| 0 <= k < out.len() ==> result_plain(#[trigger] out[k], st.records@),
{
    let recs = st.records@;
    assert forall|k: int| 0 <= k < out.len() implies result_plain(#[trigger] out[k], recs) by {
        let h = sel[k];
        assert(good_hit(h, recs, query));
        let ix = choose|ix: int| 0 <= ix < recs.len() && record_ok(&recs[ix]) && #[trigger] scored(h, &recs[ix], query) && hm_spec(query, &h);
        lemma_highlightable(h, &recs[ix], query);
        assert(h.rmatches@ =~= Seq::<WordMatch>::empty());
        lemma_render_plain(h.title.source@, h.title.words@, st.dividers.0@, st.dividers.1@, h.title.words@.len() as int);
        assert(out[k].title@ == recs[ix].title.source@.filter(not_nul()));
    }
}
proof fn lemma_highlightable(h: Hit, r: &Record, query: &TextRef)
    requires scored(h, r, query), record_ok(r)
    ensures words_wf(h.title.words@, h.title.source@.len() as int), matches_wf(h.rmatches@, h.title.words@), h.title.source@.len() <= 0x4000_0000, h.title.words@.len() <= 0x4000_0000,
{
    assert forall|m: WordMatch| #[trigger] h.rmatches@.contains(m) implies (m.offset < h.title.words@.len() ==> m.subslice.0 <= m.subslice.1 && h.title.words@[m.offset as int].slice.0 + m.subslice.1 <= h.title.words@[m.offset as int].slice.1) by {
        let i = choose|i: int| 0 <= i < h.rmatches@.len() && h.rmatches@[i] == m; assert(match_for_text(h.rmatches@[i], &h.title));
    }
}
// every position that passes the filter is in the filter's position map
proof fn lemma_fmap_onto<T>(s: Seq<T>, p: spec_fn(T) -> bool)
    ensures forall|i: int| 0 <= i < s.len() && p(#[trigger] s[i]) ==> fmap(s, p).contains(i)
    decreases s.len()
{
    if s.len() > 0 {
        lemma_fmap_onto(s.drop_last(), p);
        let m = fmap(s.drop_last(), p);
        assert forall|i: int| 0 <= i < s.len() && p(#[trigger] s[i]) implies fmap(s, p).contains(i) by {
            if i < s.len() - 1 { assert(s.drop_last()[i] == s[i]); assert(m.contains(i)); let k = choose|k: int| 0 <= k < m.len() && m[k] == i; assert(fmap(s, p)[k] == i); }
            else { assert(fmap(s, p)[m.len() as int] == i); }
        }
    }
}
// pairwise different numbers below n: at most n of them
proof fn lemma_distinct_bounded(s: Seq<usize>, n: int)
    requires s.no_duplicates(), forall|k: int| 0 <= k < s.len() ==> #[trigger] s[k] < n, n >= 0,
    ensures s.len() <= n,
{
    let t = s.map_values(|x: usize| x as int);
    assert(t.no_duplicates()) by { assert forall|a: int, b: int| 0 <= a < t.len() && 0 <= b < t.len() && a != b implies t[a] != t[b] by { assert(s[a] != s[b]); } }
    t.unique_seq_to_set();
    vstd::set_lib::lemma_int_range(0, n);
    assert(t.to_set().subset_of(vstd::set_lib::set_int_range(0, n))) by {
        assert forall|x: int| t.to_set().contains(x) implies vstd::set_lib::set_int_range(0, n).contains(x) by { let k = choose|k: int| 0 <= k < t.len() && t[k] == x; assert(s[k] < n); }
    }
    vstd::set_lib::lemma_len_subset(t.to_set(), vstd::set_lib::set_int_range(0, n));
}
// C03 at the level of Store::search, from the pieces: gram law G-prefix, index content (Store::indexed), completeness of the candidate
// list under the cap (prepare_post), TM-some (scored), the one-word filter rule (hm_spec) and full coverage when everything fits
proof fn lemma_search_c03(st: &Store, query: &TextRef, ixs: Seq<usize>, hs: Seq<Hit>, pos: Seq<int>, out: Seq<SearchResult>)
    requires st.srch_ok(), text_wf(query), cand_src(ixs, st, query), trace_ok(ixs, hs, st.records@, query),
        sel_ok(out, hs, pos, query, st.dividers.0@, st.dividers.1@),
        hs.filter(passes(query)).len() <= st.limit ==> forall|i: int| 0 <= i < hs.len() && hm_spec(query, &#[trigger] hs[i]) ==> pos.contains(i),
    ensures st.records@.len() <= st.limit && query.words@.len() == 1 ==> forall|j: int, w: int| 0 <= j < st.records@.len() && #[trigger] rec_prefix(&st.records@[j], query, w)
                ==> exists|k: int| 0 <= k < out.len() && (#[trigger] out[k]).id == st.records@[j].id,
{
    let recs = st.records@;
    if recs.len() <= st.limit && query.words@.len() == 1 {
        lemma_filter_len(hs, passes(query));
        lemma_distinct_bounded(ixs, recs.len() as int);
        assert forall|j: int, w: int| 0 <= j < recs.len() && #[trigger] rec_prefix(&recs[j], query, w) implies exists|k: int| 0 <= k < out.len() && (#[trigger] out[k]).id == recs[j].id by {
            let r = &recs[j];
            let qc = tchars(query, 0); let rc = word_chars(r.title.words@, r.title.chars@, w);
            assert(query.words@[0].slice.0 < query.words@[0].slice.1);
            assert(qc == word_chars(query.words@, query.chars@, 0));
            assert(record_ok(r));
            assert(qc.len() >= 1 && rc.len() >= 1 && qc[0] == rc[0]);
            lemma_gram_prefix(qc, rc);
            lemma_common_gram(query.words@, query.chars@, 0, r.title.words@, r.title.chars@, w);
            let g = choose|g: [char; 3]| #[trigger] has_gram(r.title.words@, r.title.chars@, g@) && has_gram(query.words@, query.chars@, g@);
            assert(posted(st.index.dict@, g, j));
            assert(shares(st.index.dict@, query.words@, query.chars@, j));
            assert(ixs.contains(j as usize));
            let i = choose|i: int| 0 <= i < ixs.len() && ixs[i] == j as usize;
            assert(scored(hs[i], &recs[j], query));
            assert(pair_prefix(&hs[i].title, query, w)) by { assert(tchars(&hs[i].title, w) == rc); }
            assert(hs[i].rmatches@.len() >= 1);
            assert(hm_spec(query, &hs[i]));
            assert(pos.contains(i));
            let k = choose|k: int| 0 <= k < pos.len() && pos[k] == i;
            assert(out[k].id == hs[i].id);
        }
    }
}
// shared core of the two recall lemmas: a record whose title shares a gram with the one-word query and whose hit has a match is returned
// recall, general form: a record that shares a gram with the query and whose scored hit passes the filter is returned when everything fits
proof fn lemma_search_recall_hm(st: &Store, query: &TextRef, ixs: Seq<usize>, hs: Seq<Hit>, pos: Seq<int>, out: Seq<SearchResult>, j: int)
    requires st.srch_ok(), text_wf(query), cand_src(ixs, st, query), trace_ok(ixs, hs, st.records@, query),
        sel_ok(out, hs, pos, query, st.dividers.0@, st.dividers.1@),
        hs.filter(passes(query)).len() <= st.limit ==> forall|i: int| 0 <= i < hs.len() && hm_spec(query, &#[trigger] hs[i]) ==> pos.contains(i),
        st.records@.len() <= st.limit, query.words@.len() >= 1, 0 <= j < st.records@.len(),
        common_gram(&st.records@[j], query),
        forall|i: int| 0 <= i < hs.len() && ixs[i] == j as usize ==> hm_spec(query, &#[trigger] hs[i]),
    ensures exists|k: int| 0 <= k < out.len() && (#[trigger] out[k]).id == st.records@[j].id,
{
    let recs = st.records@;
    lemma_filter_len(hs, passes(query));
    lemma_distinct_bounded(ixs, recs.len() as int);
    let r = &recs[j];
    let g = choose|g: [char; 3]| #[trigger] has_gram(r.title.words@, r.title.chars@, g@) && has_gram(query.words@, query.chars@, g@);
    assert(posted(st.index.dict@, g, j));
    assert(shares(st.index.dict@, query.words@, query.chars@, j));
    assert(ixs.contains(j as usize));
    let i = choose|i: int| 0 <= i < ixs.len() && ixs[i] == j as usize;
    assert(scored(hs[i], &recs[j], query));
    assert(hm_spec(query, &hs[i]));
    assert(pos.contains(i));
    let k = choose|k: int| 0 <= k < pos.len() && pos[k] == i;
    assert(out[k].id == hs[i].id);
}
proof fn lemma_search_recall(st: &Store, query: &TextRef, ixs: Seq<usize>, hs: Seq<Hit>, pos: Seq<int>, out: Seq<SearchResult>, j: int)
    requires st.srch_ok(), text_wf(query), cand_src(ixs, st, query), trace_ok(ixs, hs, st.records@, query),
        sel_ok(out, hs, pos, query, st.dividers.0@, st.dividers.1@),
        hs.filter(passes(query)).len() <= st.limit ==> forall|i: int| 0 <= i < hs.len() && hm_spec(query, &#[trigger] hs[i]) ==> pos.contains(i),
        st.records@.len() <= st.limit, query.words@.len() == 1, 0 <= j < st.records@.len(),
        common_gram(&st.records@[j], query),
        forall|i: int| 0 <= i < hs.len() && ixs[i] == j as usize ==> (#[trigger] hs[i]).rmatches@.len() >= 1,
    ensures exists|k: int| 0 <= k < out.len() && (#[trigger] out[k]).id == st.records@[j].id,
{
    let recs = st.records@;
    lemma_filter_len(hs, passes(query));
    lemma_distinct_bounded(ixs, recs.len() as int);
    let r = &recs[j];
    let g = choose|g: [char; 3]| #[trigger] has_gram(r.title.words@, r.title.chars@, g@) && has_gram(query.words@, query.chars@, g@);
    assert(posted(st.index.dict@, g, j));
    assert(shares(st.index.dict@, query.words@, query.chars@, j));
    assert(ixs.contains(j as usize));
    let i = choose|i: int| 0 <= i < ixs.len() && ixs[i] == j as usize;
    assert(scored(hs[i], &recs[j], query));
    assert(hm_spec(query, &hs[i]));
    assert(pos.contains(i));
    let k = choose|k: int| 0 <= k < pos.len() && pos[k] == i;
    assert(out[k].id == hs[i].id);
}
// C04 at the level of Store::search: gram law G-edit1, index content, candidate completeness, TM-some for one-edit pairs (scored),
// the one-word filter rule, full coverage
proof fn lemma_search_c04(st: &Store, query: &TextRef, ixs: Seq<usize>, hs: Seq<Hit>, pos: Seq<int>, out: Seq<SearchResult>)
    requires st.srch_ok(), text_wf(query), cand_src(ixs, st, query), trace_ok(ixs, hs, st.records@, query),
        sel_ok(out, hs, pos, query, st.dividers.0@, st.dividers.1@),
        hs.filter(passes(query)).len() <= st.limit ==> forall|i: int| 0 <= i < hs.len() && hm_spec(query, &#[trigger] hs[i]) ==> pos.contains(i),
    ensures st.records@.len() <= st.limit && query.words@.len() == 1 ==> forall|j: int, w: int, p: int| 0 <= j < st.records@.len() && #[trigger] rec_edit1(&st.records@[j], query, w, p)
                ==> exists|k: int| 0 <= k < out.len() && (#[trigger] out[k]).id == st.records@[j].id,
{
    let recs = st.records@;
    if recs.len() <= st.limit && query.words@.len() == 1 {
        assert forall|j: int, w: int, p: int| 0 <= j < recs.len() && #[trigger] rec_edit1(&recs[j], query, w, p) implies exists|k: int| 0 <= k < out.len() && (#[trigger] out[k]).id == recs[j].id by {
            let r = &recs[j];
            let qc = tchars(query, 0); let rc = word_chars(r.title.words@, r.title.chars@, w);
            assert(query.words@[0].slice.0 < query.words@[0].slice.1);
            assert(qc == word_chars(query.words@, query.chars@, 0));
            assert(record_ok(r));
            // G-edit1: the two words share a gram
            if is_sub(rc, qc, p) { lemma_gram_sub(rc, qc, p); }
            else if is_ins(rc, qc, p) { lemma_gram_ins(rc, qc, p); }
            else if is_del(rc, qc, p) { lemma_gram_del(rc, qc, p); }
            else { lemma_gram_trans(rc, qc, p); }
            lemma_shares_sym(rc, qc);
            lemma_common_gram(query.words@, query.chars@, 0, r.title.words@, r.title.chars@, w);
            assert forall|i: int| 0 <= i < hs.len() && ixs[i] == j as usize implies (#[trigger] hs[i]).rmatches@.len() >= 1 by {
                assert(scored(hs[i], &recs[j], query));
                assert(tchars(&hs[i].title, w) == rc);
                assert(pair_edit1(&hs[i].title, query, w, p));
            }
            lemma_search_recall(st, query, ixs, hs, pos, out, j);
        }
    }
}
proof fn lemma_search_c13(st: &Store, query: &TextRef, ixs: Seq<usize>, hs: Seq<Hit>, pos: Seq<int>, out: Seq<SearchResult>)
    requires st.srch_ok(), text_wf(query), cand_src(ixs, st, query), trace_ok(ixs, hs, st.records@, query),
        sel_ok(out, hs, pos, query, st.dividers.0@, st.dividers.1@),
        hs.filter(passes(query)).len() <= st.limit ==> forall|i: int| 0 <= i < hs.len() && hm_spec(query, &#[trigger] hs[i]) ==> pos.contains(i),
    ensures st.records@.len() <= st.limit && query.words@.len() == 1 ==> forall|j: int, w: int| 0 <= j < st.records@.len() && #[trigger] rec_equal(&st.records@[j], query, w)
                ==> exists|k: int| 0 <= k < out.len() && (#[trigger] out[k]).id == st.records@[j].id,
{
    let recs = st.records@;
    if recs.len() <= st.limit && query.words@.len() == 1 {
        assert forall|j: int, w: int| 0 <= j < recs.len() && #[trigger] rec_equal(&recs[j], query, w) implies exists|k: int| 0 <= k < out.len() && (#[trigger] out[k]).id == recs[j].id by {
            let r = &recs[j];
            let qc = tchars(query, 0); let rc = word_chars(r.title.words@, r.title.chars@, w);
            assert(query.words@[0].slice.0 < query.words@[0].slice.1);
            assert(qc == word_chars(query.words@, query.chars@, 0));
            assert(record_ok(r));
            assert(qc.len() >= 1 && rc.len() >= 1 && qc[0] == rc[0]);
            lemma_gram_prefix(qc, rc);
            lemma_common_gram(query.words@, query.chars@, 0, r.title.words@, r.title.chars@, w);
            assert forall|i: int| 0 <= i < hs.len() && ixs[i] == j as usize implies (#[trigger] hs[i]).rmatches@.len() >= 1 by {
                assert(scored(hs[i], &recs[j], query));
                assert(tchars(&hs[i].title, w) == rc);
                assert(pair_equal(&hs[i].title, query, w));
                assert(pair_prefix(&hs[i].title, query, w) || pair_equal(&hs[i].title, query, w));
                assert(exists|jj: int| #![trigger pair_prefix(&hs[i].title, query, jj)] #![trigger pair_equal(&hs[i].title, query, jj)] pair_prefix(&hs[i].title, query, jj) || pair_equal(&hs[i].title, query, jj));
                assert(tm_some(&hs[i].title, query, (hs[i].rmatches, hs[i].qmatches)));
            }
            lemma_search_recall(st, query, ixs, hs, pos, out, j);
        }
    }
}
// C13 for queries of several words (a whole title of two or more words; two complete title words in either order): the first query
// word is complete and has the same characters as word w of the record's title.  Chain: G-prefix (the two words share a gram), index
// content, candidate completeness, TM-some + TM-first (the first query word is matched), TM-fin (a lone match pair of a finished query
// word is marked finished), the filter's single-short-partial-match rule (hm_spec), full coverage
proof fn lemma_search_c13w(st: &Store, query: &TextRef, ixs: Seq<usize>, hs: Seq<Hit>, pos: Seq<int>, out: Seq<SearchResult>)
    requires st.srch_ok(), text_wf(query), cand_src(ixs, st, query), trace_ok(ixs, hs, st.records@, query),
        sel_ok(out, hs, pos, query, st.dividers.0@, st.dividers.1@),
        hs.filter(passes(query)).len() <= st.limit ==> forall|i: int| 0 <= i < hs.len() && hm_spec(query, &#[trigger] hs[i]) ==> pos.contains(i),
    ensures st.records@.len() <= st.limit && query.words@.len() >= 2 && query.words@[0].fin ==> forall|j: int, w: int| 0 <= j < st.records@.len() && #[trigger] rec_equal(&st.records@[j], query, w)
                ==> exists|k: int| 0 <= k < out.len() && (#[trigger] out[k]).id == st.records@[j].id,
{
    let recs = st.records@;
    if recs.len() <= st.limit && query.words@.len() >= 2 && query.words@[0].fin {
        assert forall|j: int, w: int| 0 <= j < recs.len() && #[trigger] rec_equal(&recs[j], query, w) implies exists|k: int| 0 <= k < out.len() && (#[trigger] out[k]).id == recs[j].id by {
            let r = &recs[j];
            let qc = tchars(query, 0); let rc = word_chars(r.title.words@, r.title.chars@, w);
            assert(query.words@[0].slice.0 < query.words@[0].slice.1);
            assert(qc == word_chars(query.words@, query.chars@, 0));
            assert(record_ok(r));
            assert(qc.len() >= 1 && rc.len() >= 1 && qc[0] == rc[0]);
            lemma_gram_prefix(qc, rc);
            lemma_common_gram(query.words@, query.chars@, 0, r.title.words@, r.title.chars@, w);
            assert forall|i: int| 0 <= i < hs.len() && ixs[i] == j as usize implies hm_spec(query, &#[trigger] hs[i]) by {
                let h = hs[i];
                assert(scored(h, &recs[j], query));
                assert(tchars(&h.title, w) == rc);
                assert(pair_equal(&h.title, query, w));
                assert(pair_prefix(&h.title, query, w) || pair_equal(&h.title, query, w));
                assert(exists|jj: int| #![trigger pair_prefix(&h.title, query, jj)] #![trigger pair_equal(&h.title, query, jj)] pair_prefix(&h.title, query, jj) || pair_equal(&h.title, query, jj));
                assert(tm_some(&h.title, query, (h.rmatches, h.qmatches)));
                assert(tm_first(&h.title, query, (h.rmatches, h.qmatches)));
                assert(tm_fin(query, (h.rmatches, h.qmatches)));
                assert(h.rmatches@.len() >= 1);
                if h.rmatches@.len() == 1 && h.qmatches@.len() == 1 && !h.rmatches@[0].fin {
                    // the only query-side match is the first word's (TM-first); it would have to be an unfinished word's (TM-fin)
                    assert(first_matched(h.qmatches@));
                    assert(unfin_match(query, h.qmatches@));
                    assert(h.qmatches@[0].offset == 0);
                    assert(false);
                }
            }
            lemma_search_recall_hm(st, query, ixs, hs, pos, out, j);
        }
    }
}
// C14 at the level of Store::search, split spelling: the first query word is a prefix of the title word (G-prefix), index content,
// candidate completeness, the split attempt of text_match cannot fail (tm_c14), TM-fin + the filter rule as for C13, full coverage
proof fn lemma_search_c14s(st: &Store, query: &TextRef, ixs: Seq<usize>, hs: Seq<Hit>, pos: Seq<int>, out: Seq<SearchResult>)
    requires st.srch_ok(), text_wf(query), cand_src(ixs, st, query), trace_ok(ixs, hs, st.records@, query),
        sel_ok(out, hs, pos, query, st.dividers.0@, st.dividers.1@),
        hs.filter(passes(query)).len() <= st.limit ==> forall|i: int| 0 <= i < hs.len() && hm_spec(query, &#[trigger] hs[i]) ==> pos.contains(i),
    ensures st.records@.len() <= st.limit && query.words@.len() >= 2 && query.words@[0].fin ==> forall|j: int, w: int| 0 <= j < st.records@.len() && #[trigger] rec_split(&st.records@[j], query, w)
                ==> exists|k: int| 0 <= k < out.len() && (#[trigger] out[k]).id == st.records@[j].id,
{
    let recs = st.records@;
    if recs.len() <= st.limit && query.words@.len() >= 2 && query.words@[0].fin {
        assert forall|j: int, w: int| 0 <= j < recs.len() && #[trigger] rec_split(&recs[j], query, w) implies exists|k: int| 0 <= k < out.len() && (#[trigger] out[k]).id == recs[j].id by {
            let r = &recs[j];
            let qc = tchars(query, 0); let rc = word_chars(r.title.words@, r.title.chars@, w);
            assert(query.words@[0].slice.0 < query.words@[0].slice.1);
            assert(qc == word_chars(query.words@, query.chars@, 0));
            assert(record_ok(r));
            assert(qc.len() >= 1 && rc.len() >= 1 && qc[0] == rc[0]);
            lemma_gram_prefix(qc, rc);
            lemma_common_gram(query.words@, query.chars@, 0, r.title.words@, r.title.chars@, w);
            assert forall|i: int| 0 <= i < hs.len() && ixs[i] == j as usize implies hm_spec(query, &#[trigger] hs[i]) by {
                let h = hs[i];
                assert(scored(h, &recs[j], query));
                assert(tchars(&h.title, w) == rc);
                assert(pair_split(&h.title, query, w));
                assert(tm_c14(&h.title, query, (h.rmatches, h.qmatches)));
                assert(tm_fin(query, (h.rmatches, h.qmatches)));
                assert(h.rmatches@.len() >= 1);
                if h.rmatches@.len() == 1 && h.qmatches@.len() == 1 && !h.rmatches@[0].fin {
                    assert(first_matched(h.qmatches@));
                    assert(unfin_match(query, h.qmatches@));
                    assert(h.qmatches@[0].offset == 0);
                    assert(false);
                }
            }
            lemma_search_recall_hm(st, query, ixs, hs, pos, out, j);
        }
    }
}
// C14 at the level of Store::search, joined spelling: the first of the two title words is a prefix of the query word (G-prefix), index
// content, candidate completeness, the joined attempt of text_match cannot fail (tm_c14), the one-word filter rule, full coverage
proof fn lemma_search_c14j(st: &Store, query: &TextRef, ixs: Seq<usize>, hs: Seq<Hit>, pos: Seq<int>, out: Seq<SearchResult>)
    requires st.srch_ok(), text_wf(query), cand_src(ixs, st, query), trace_ok(ixs, hs, st.records@, query),
        sel_ok(out, hs, pos, query, st.dividers.0@, st.dividers.1@),
        hs.filter(passes(query)).len() <= st.limit ==> forall|i: int| 0 <= i < hs.len() && hm_spec(query, &#[trigger] hs[i]) ==> pos.contains(i),
    ensures st.records@.len() <= st.limit && query.words@.len() == 1 ==> forall|j: int, w: int| 0 <= j < st.records@.len() && #[trigger] rec_join(&st.records@[j], query, w)
                ==> exists|k: int| 0 <= k < out.len() && (#[trigger] out[k]).id == st.records@[j].id,
{
    let recs = st.records@;
    if recs.len() <= st.limit && query.words@.len() == 1 {
        assert forall|j: int, w: int| 0 <= j < recs.len() && #[trigger] rec_join(&recs[j], query, w) implies exists|k: int| 0 <= k < out.len() && (#[trigger] out[k]).id == recs[j].id by {
            let r = &recs[j];
            let qc = tchars(query, 0); let rc = word_chars(r.title.words@, r.title.chars@, w);
            assert(query.words@[0].slice.0 < query.words@[0].slice.1);
            assert(qc == word_chars(query.words@, query.chars@, 0));
            assert(record_ok(r));
            assert(r.title.words@[w].slice.0 < r.title.words@[w].slice.1);
            assert(qc.len() >= 1 && rc.len() >= 1 && qc[0] == rc[0]);
            lemma_gram_prefix(qc, rc);
            lemma_common_gram(query.words@, query.chars@, 0, r.title.words@, r.title.chars@, w);
            assert forall|i: int| 0 <= i < hs.len() && ixs[i] == j as usize implies (#[trigger] hs[i]).rmatches@.len() >= 1 by {
                let h = hs[i];
                assert(scored(h, &recs[j], query));
                assert(tchars(&h.title, w) == rc);
                assert(tchars(&h.title, w + 1) == word_chars(r.title.words@, r.title.chars@, w + 1));
                assert(pair_join(&h.title, query, w));
                assert(tm_c14(&h.title, query, (h.rmatches, h.qmatches)));
            }
            lemma_search_recall(st, query, ixs, hs, pos, out, j);
        }
    }
}
proof fn lemma_shares_sym(a: Seq<char>, b: Seq<char>)
    requires shares_gram(a, b)
    ensures shares_gram(b, a)
{
    let (i, j) = choose|i: int, j: int| 0 <= i < gram_list(a).len() && 0 <= j < gram_list(b).len() && #[trigger] gram_list(a)[i] == #[trigger] gram_list(b)[j];
    assert(gram_list(b)[j] == gram_list(a)[i]);
}
proof fn lemma_filter_len<T>(s: Seq<T>, p: spec_fn(T) -> bool)
    ensures s.filter(p).len() <= s.len()
    decreases s.len()
{ reveal(Seq::filter); if s.len() > 0 { lemma_filter_len(s.drop_last(), p); } }
// a filter that every element passes keeps everything
proof fn lemma_filter_all<T>(s: Seq<T>, p: spec_fn(T) -> bool)
    requires forall|i: int| 0 <= i < s.len() ==> p(#[trigger] s[i])
    ensures s.filter(p) == s
    decreases s.len()
{ reveal(Seq::filter); if s.len() > 0 { lemma_filter_all(s.drop_last(), p); assert(s.drop_last().push(s.last()) =~= s); } }
proof fn lemma_filter_push<T>(s: Seq<T>, x: T, p: spec_fn(T) -> bool)
    ensures s.push(x).filter(p) == (if p(x) { s.filter(p).push(x) } else { s.filter(p) })
{ reveal(Seq::filter); assert(s.push(x).drop_last() =~= s); }
proof fn lemma_filter_member<T>(s: Seq<T>, p: spec_fn(T) -> bool)
    ensures forall|k: int| 0 <= k < s.filter(p).len() ==> s.contains(#[trigger] s.filter(p)[k]) && p(s.filter(p)[k])
    decreases s.len()
{
    reveal(Seq::filter);
    if s.len() > 0 {
        lemma_filter_member(s.drop_last(), p);
        let f = s.drop_last().filter(p);
        assert forall|k: int| 0 <= k < s.filter(p).len() implies s.contains(#[trigger] s.filter(p)[k]) && p(s.filter(p)[k]) by {
            if k < f.len() { assert(s.drop_last().contains(f[k])); let i = choose|i: int| 0 <= i < s.drop_last().len() && s.drop_last()[i] == f[k]; assert(s[i] == f[k]); }
            else { assert(s[s.len() - 1] == s.last()); }
        }
    }
}
impl Store {
    pub open spec fn srch_ok(&self) -> bool {
        self.coherent() && self.limit <= 0x1000_0000
        && self.dividers.0@.len() <= 0x10000 && self.dividers.1@.len() <= 0x10000
        && forall|k: int| 0 <= k < self.records@.len() ==> record_ok(#[trigger] &self.records@[k])
    }
}
// @item rust/core/src/search/mod.rs :: impl Store::{search}
impl Store {
    pub fn search<'a>(&'a self, query: &'a TextRef<'a>) -> (ret: Vec<SearchResult>)
        requires self.srch_ok(), text_wf(query), text_small(query),
        ensures
            // C06: never more hits than the limit
            ret@.len() <= self.limit, // [C06]
            // C02 / C06 / C09 / C05: every hit is an existing record, scored on its own against the query, passing the filter,
            // and its title is the rendering of THAT record's title with THAT hit's matches
            forall|k: int| 0 <= k < ret@.len() ==> result_ok(#[trigger] ret@[k], self.records@, query, self.dividers.0@, self.dividers.1@), // [C02 C06 C09 C05]
            // C06 / C12: the cut happens AFTER the filter: the list has min(limit, number of candidates that pass) entries
            // and no candidate is returned twice
            exists|cands: Seq<usize>, hs: Seq<Hit>, pos: Seq<int>| #[trigger] trace_ok(cands, hs, self.records@, query) && #[trigger] sel_ok(ret@, hs, pos, query, self.dividers.0@, self.dividers.1@)
                && ret@.len() == (if hs.filter(passes(query)).len() < self.limit { hs.filter(passes(query)).len() } else { self.limit as nat }) // [C06 C12]
                // the candidates are the index's answer for the query (C05 C03 C04) or the top-rated list (C12)
                && cand_src(cands, self, query) // [C05 C03 C04 C12 C06]
                // C12: for a query without words the list is in rating order and nothing left out is before a listed record
                && rank_ok(cands, pos, self.records@, query) // [C12]
                // C06 / C07: in the order of compare_hits, and no passing candidate left out is before the last returned one
                && order_ok(hs, pos, query) // [C06 C07 C08]
                // and when the passing candidates fit under the limit every one of them is returned
                && (hs.filter(passes(query)).len() <= self.limit ==> forall|i: int| 0 <= i < hs.len() && hm_spec(query, &#[trigger] hs[i]) ==> pos.contains(i)), // [C06 C03 C04]
            // C05: a hit for a query with words is a record whose title shares a gram with the query
            query.words@.len() > 0 ==> forall|k: int| 0 <= k < ret@.len() ==> result_shares(#[trigger] ret@[k], self.records@, query), // [C05]
            // C03 (search-as-you-type, modulo the tokeniser): with room for every record, a record one of whose title words starts with
            // the single query word being typed is among the hits
            self.records@.len() <= self.limit && query.words@.len() == 1 ==> forall|j: int, w: int| 0 <= j < self.records@.len() && #[trigger] rec_prefix(&self.records@[j], query, w)
                ==> exists|k: int| 0 <= k < ret@.len() && (#[trigger] ret@[k]).id == self.records@[j].id, // [C03]
            // C13 (one-word case): likewise when the single query word has the same characters as a title word
            self.records@.len() <= self.limit && query.words@.len() == 1 ==> forall|j: int, w: int| 0 <= j < self.records@.len() && #[trigger] rec_equal(&self.records@[j], query, w)
                ==> exists|k: int| 0 <= k < ret@.len() && (#[trigger] ret@[k]).id == self.records@[j].id, // [C13]
            // C13 (queries of several words — a whole title of several words, or two complete title words in either order): likewise when
            // the first query word is complete and has the same characters as a title word
            self.records@.len() <= self.limit && query.words@.len() >= 2 && query.words@[0].fin ==> forall|j: int, w: int| 0 <= j < self.records@.len() && #[trigger] rec_equal(&self.records@[j], query, w)
                ==> exists|k: int| 0 <= k < ret@.len() && (#[trigger] ret@[k]).id == self.records@[j].id, // [C13]
            // C14 (split spelling, modulo the tokeniser): with room for every record, a record with a title word of at least five characters
            // (three of them different) is found by a query that spells that word as its first two words, the second still being typed
            self.records@.len() <= self.limit && query.words@.len() >= 2 && query.words@[0].fin ==> forall|j: int, w: int| 0 <= j < self.records@.len() && #[trigger] rec_split(&self.records@[j], query, w)
                ==> exists|k: int| 0 <= k < ret@.len() && (#[trigger] ret@[k]).id == self.records@[j].id, // [C14]
            // C14 (joined spelling): ... and a record with two adjacent title words separated by one character (the second of at least three
            // characters) is found by the one-word query that runs them together, when stemming leaves that word unchanged
            self.records@.len() <= self.limit && query.words@.len() == 1 ==> forall|j: int, w: int| 0 <= j < self.records@.len() && #[trigger] rec_join(&self.records@[j], query, w)
                ==> exists|k: int| 0 <= k < ret@.len() && (#[trigger] ret@[k]).id == self.records@[j].id, // [C14]
            // C04 (one typo, modulo the tokeniser): likewise when the single query word is one edit away from a title word of at least
            // five characters, three of them different
            self.records@.len() <= self.limit && query.words@.len() == 1 ==> forall|j: int, w: int, p: int| 0 <= j < self.records@.len() && #[trigger] rec_edit1(&self.records@[j], query, w, p)
                ==> exists|k: int| 0 <= k < ret@.len() && (#[trigger] ret@[k]).id == self.records@[j].id, // [C04]
            // C12: a query without words returns min(limit, number of records) entries
            query.words@.len() == 0 ==> ret@.len() == (if self.records@.len() < self.limit { self.records@.len() } else { self.limit as nat }), // [C12]
            // C12 / C09: ... and nothing is highlighted: each entry carries its record's stored title as it is (NUL padding aside)
            query.words@.len() == 0 ==> forall|k: int| 0 <= k < ret@.len() ==> result_plain(#[trigger] ret@[k], self.records@), // [C12 C09]
    {
        let dividers = self.dividers();
        proof { lemma_text_ok(query, query.words@.len() as int); }
        let ixs = if query.words.len() > 0 { self.index.prepare(&query, self.limit) } else { self.top_ixs() };
        let ghost recs = self.records@;
        let ghost mut hs: Seq<Hit> = Seq::empty();
        proof { assert(cand_src(ixs@, self, query)); assert(forall|k: int| 0 <= k < ixs@.len() ==> #[trigger] ixs@[k] < recs.len()); }
        let mut __items0: Vec<Hit<'a>> = Vec::new();
        let mut __p0 = 0;
        while __p0 < ixs.len()
            invariant __p0 <= ixs@.len(), recs == self.records@, self.srch_ok(), text_wf(query), text_small(query),
                forall|k: int| 0 <= k < ixs@.len() ==> #[trigger] ixs@[k] < recs.len(),
                forall|m: int| 0 <= m < __items0@.len() ==> good_hit(#[trigger] __items0@[m], recs, query),
                hs.len() == __p0, __items0@ == hs.filter(passes(query)), ixs@.no_duplicates(),
                forall|i: int| 0 <= i < hs.len() ==> scored(#[trigger] hs[i], &recs[ixs@[i] as int], query),
            decreases ixs@.len() - __p0,
        {
            let __ix = __p0;
            __p0 += 1;
            let ix = ixs[__ix];
            proof { assert(record_ok(&recs[ix as int])); }
            let __cur = { Hit::from_record(&self.records[ix]) };
            let mut hit = __cur;
            let __cur = {
                score(query, &mut hit);
                hit
            };
            // the ghost trace is extended right where the record has been scored (not at the filter): a change that moves the
            // filter elsewhere then fails the invariant `__items0 == hs.filter(passes)` instead of leaving the hints untypable
            proof {
                lemma_filter_push(hs, __cur, passes(query));
                hs = hs.push(__cur);
            }
            let __keep = {
                let hit = &__cur;
                {
                    hit_matches(query, hit)
                }
            };
            if !__keep {
                continue;
            }
            proof { assert(scored(__cur, &recs[ix as int], query)); assert(good_hit(__cur, recs, query)); }
            __items0.push(__cur);
        }
        proof { lemma_ls_ok_hits(); }
        let __sel0 = limit_sort_all(__items0, self.limit, CmpHits);
        proof { assert(trace_ok(ixs@, hs, recs, query)); }
        let ghost idx = choose|idx: Seq<int>| selection(__sel0@, __items0@, idx) && ls_best(__sel0@, __items0@, idx, CmpHits);
        let ghost pos = pos_of(hs, query, __sel0@.len(), idx);
        proof { lemma_select(hs, __items0@, __sel0@, idx, query, self.limit, recs); }
        let ghost covered: bool = forall|i: int| 0 <= i < hs.len() && hm_spec(query, &#[trigger] hs[i]) ==> pos.contains(i);
        let ghost sorted_hits: bool = ls_sorted(__sel0@, CmpHits);
        let ghost ordered: bool = order_ok(hs, pos, query);
        let mut __out0: Vec<SearchResult> = Vec::new();
        let mut __q0 = 0;
        while __q0 < __sel0.len()
            invariant __q0 <= __sel0@.len(), __sel0@.len() <= self.limit, trace_ok(ixs@, hs, recs, query), __sel0@.len() == (if hs.filter(passes(query)).len() < self.limit { hs.filter(passes(query)).len() } else { self.limit as nat }), __out0@.len() == __q0, recs == self.records@, pos.len() == __sel0@.len(), pos.no_duplicates(), cand_src(ixs@, self, query), hs.filter(passes(query)).len() <= self.limit ==> covered, sorted_hits, sorted_hits == ls_sorted(__sel0@, CmpHits), ordered, ordered == order_ok(hs, pos, query), covered == (forall|i: int| 0 <= i < hs.len() && hm_spec(query, &#[trigger] hs[i]) ==> pos.contains(i)),
                forall|k: int| 0 <= k < __sel0@.len() ==> 0 <= #[trigger] pos[k] < hs.len() && hm_spec(query, &hs[pos[k]]) && __sel0@[k] == hs[pos[k]],
                self.srch_ok(), dividers.0@ == self.dividers.0@, dividers.1@ == self.dividers.1@,
                forall|m: int| 0 <= m < __sel0@.len() ==> good_hit(#[trigger] __sel0@[m], recs, query),
                forall|k: int| 0 <= k < __out0@.len() ==> (#[trigger] __out0@[k]).id == __sel0@[k].id && __out0@[k].title@ == shown(__sel0@[k], self.dividers.0@, self.dividers.1@),
            decreases __sel0@.len() - __q0,
        {
            let __jx = __q0;
            __q0 += 1;
            let hit = &__sel0[__jx];
            proof {
                assert(good_hit(*hit, recs, query));
                let ix = choose|ix: int| 0 <= ix < recs.len() && record_ok(&recs[ix]) && #[trigger] scored(*hit, &recs[ix], query) && hm_spec(query, hit);
                lemma_highlightable(*hit, &recs[ix], query);
            }
            let __cur = { SearchResult { id: hit.id, title: highlight(&hit, dividers) } };
            __out0.push(__cur);
        }
        proof { lemma_search_final(self, query, ixs@, hs, pos, __sel0@, __out0@); }
        __out0
    }
}
