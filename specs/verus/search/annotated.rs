//@include ../common/head.rs
//@include ../common/float.rs
//@include ../common/slices.rs
//@include ../common/uses.rs
//@include ../common/strings.rs
broadcast use {fax::g, sax::ix_ok_usize, sax::ix_val_usize, sax::ix_upd_usize, vstd::std_specs::hash::group_hash_axioms, kax::char_key_model, sx::iter_chars_slice};
//@include ../common/helpers.rs
//@include ../dl/body.rs
//@include ../shapes/body.rs
//@include ../textref/body.rs
//@include ../highlight/body.rs
//@include ../score/body.rs
//@include ../filter/body.rs
//@include ../textown/body.rs
// opaque: language tables and the stemmer are outside this unit
#[verifier::external_body]
pub struct Lang { _opaque: core::marker::PhantomData<()> }
//@include ../storedefs/body.rs
//@include body.rs
//@include ../common/tail.rs
