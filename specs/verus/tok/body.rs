// ======================================================================= U7: tokenisation (C15, C11, C02b, C01)
//@include ../common/chars.rs
impl Lang {
    // opaque: rust_stemmers (external generated Snowball code).  ASSUMPTION (unchecked, DESIGN.md §4.3): the stem of a
    // non-empty word has between 1 and len characters
    #[verifier::external_body]
    pub fn stem(&self, word: &[char]) -> (r: usize)
        ensures word@.len() >= 1 ==> 1 <= r <= word@.len(), word@.len() == 0 ==> r == 0,
    { unimplemented!() }
}
// @item rust/core/src/lang/char_class.rs :: trait CharPattern
pub trait CharPattern {
    spec fn sp_matches(&self, ch: char, lang: &Lang) -> Option<bool>;
    fn matches(&self, ch: char, lang: &Lang) -> (ret: Option<bool>)
        ensures ret == self.sp_matches(ch, lang),
    ;
}
// @item rust/core/src/lang/char_class.rs :: traitimpl CharPattern for CharClass
impl CharPattern for CharClass {
    open spec fn sp_matches(&self, ch: char, lang: &Lang) -> Option<bool> {
        match self {
            Any         => Some(true),
            Control     => Some(sp_ctrl(ch)),
            Whitespace  => Some(sp_ws(ch)),
            Punctuation => Some(sp_punct(ch)),
            NotAlpha    => Some(!sp_alpha(ch)),
            NotAlphaNum => Some(!sp_alnum(ch)),
            Consonant   => match lang.sp_class(ch) { Some(c) => Some(c == Consonant), None => None },
            Vowel       => match lang.sp_class(ch) { Some(c) => Some(c == Vowel), None => None },
        }
    }
    fn matches(&self, ch: char, lang: &Lang) -> (ret: Option<bool>)
    {
        match self {
            Any => Some(true),
            Control => Some(ch.is_control()),
            Whitespace => Some(char_is_ws(ch)),
            Punctuation => Some(is_punctuation(ch)),
            NotAlpha => Some(!ch.is_alphabetic()),
            NotAlphaNum => Some(!ch.is_alphanumeric()),
            Consonant => Some(lang.get_char_class(ch)? == Consonant),
            Vowel => Some(lang.get_char_class(ch)? == Vowel),
        }
    }
}
pub open spec fn sp_any_true<P: CharPattern>(ps: Seq<P>, ch: char, lang: &Lang, n: int) -> bool { exists|k: int| 0 <= k < n && #[trigger] ps[k].sp_matches(ch, lang) == Some(true) }
pub open spec fn sp_any_none<P: CharPattern>(ps: Seq<P>, ch: char, lang: &Lang, n: int) -> bool { exists|k: int| 0 <= k < n && (#[trigger] ps[k].sp_matches(ch, lang)) is None }
pub open spec fn sp_slice_matches<P: CharPattern>(ps: Seq<P>, ch: char, lang: &Lang) -> Option<bool> {
    if sp_any_true(ps, ch, lang, ps.len() as int) { Some(true) } else if sp_any_none(ps, ch, lang, ps.len() as int) { None } else { Some(false) }
}
// @item rust/core/src/lang/char_class.rs :: traitimpl CharPattern for [P]
impl<P: CharPattern> CharPattern for [P] {
    open spec fn sp_matches(&self, ch: char, lang: &Lang) -> Option<bool> { sp_slice_matches(self@, ch, lang) }
    fn matches(&self, ch: char, lang: &Lang) -> (ret: Option<bool>)
    {
        let mut met_none = false;
        let __end0 = self.len();
        let mut __i0 = 0;
        while __i0 < __end0
            invariant __i0 <= self@.len(), __end0 == self@.len(), !sp_any_true(self@, ch, lang, __i0 as int), met_none == sp_any_none(self@, ch, lang, __i0 as int),
            decreases self@.len() - __i0,
        {
            let pattern = &self[__i0];
            __i0 += 1;
            match pattern.matches(ch, lang) {
                Some(true) => return Some(true),
                Some(false) => continue,
                None => {
                    met_none = true;
                    continue;
                }
            }
        }
        if met_none {
            None
        } else {
            Some(false)
        }
    }
}
// @item rust/core/src/lang/char_class.rs :: fn is_punctuation
fn is_punctuation(ch: char) -> (ret: bool)
    ensures ret == sp_punct(ch),
{
    match ch {
        '&' | '(' | ')' => true,
        ',' | ':' | ';' => true,
        '.' | '!' | '?' => true,
        '-' | '‑' | '‒' | '–' | '—' => true,
        '…' | '‼' | '⁇' | '⁈' | '⁉' => true,
        _ => false,
    }
}
// `pattern.matches(ch, lang).unwrap_or(false)`
pub open spec fn pm(pattern: &[CharClass], lang: &Lang, c: char) -> bool { pattern.sp_matches(c, lang) == Some(true) }
// @item rust/core/src/tokenization/word_shape.rs :: struct WordShape
pub struct WordShape {
    pub offset: usize,
    pub slice: (usize, usize),
    pub stem: usize,
    pub pos: Option<PartOfSpeech>,
    pub fin: bool,
}
// @item rust/core/src/tokenization/word_shape.rs :: impl Word for WordShape
impl WordShape {
    fn offset(&self) -> (ret: usize)
        ensures ret == self.offset,
    {
        self.offset
    }
    fn slice(&self) -> (ret: (usize, usize))
        ensures ret == self.slice,
    {
        self.slice
    }
    fn stem(&self) -> (ret: usize)
        ensures ret == self.stem,
    {
        self.stem
    }
    fn pos(&self) -> (ret: Option<PartOfSpeech>)
        ensures ret == self.pos,
    {
        self.pos
    }
    fn fin(&self) -> (ret: bool)
        ensures ret == self.fin,
    {
        self.fin
    }
}
// @item rust/core/src/tokenization/word_shape.rs :: impl WordShape::{new,split,strip,set_stem,set_pos}
impl WordShape {
    pub fn new(len: usize) -> (ret: Self)
        ensures ret.offset == 0, ret.slice == (0usize, len), ret.stem == len, ret.pos == None::<PartOfSpeech>, ret.fin,
    {
        WordShape { offset: 0, slice: (0, len), stem: len, pos: None, fin: true }
    }
    pub fn split<'a, 'b>(&'a self, chars: &'a [char], pattern: &'b [CharClass], lang: &'a Lang) -> (ret: WordSplit<'a, 'b>)
        requires self.slice.0 <= self.slice.1 <= chars@.len(), self.offset + (self.slice.1 - self.slice.0) <= usize::MAX,
        ensures ret.wf(), ret.word == self, ret.chars@ == chars@, ret.pattern@ == pattern@, ret.lang == lang, ret.char_offset == 0, ret.word_offset == self.offset,
    {
        WordSplit::new(self, chars, pattern, lang)
    }
    pub fn strip(&mut self, chars: &[char], pattern: &[CharClass], lang: &Lang) -> (ret: &mut Self)
        // C15: non-alphanumerics are stripped from the word edges; the word only shrinks inside itself
        requires old(self).slice.0 <= old(self).slice.1 <= chars@.len(),
        ensures *final(self) == *final(ret),
            ret.slice.0 >= old(self).slice.0, ret.slice.1 <= old(self).slice.1, ret.slice.0 <= ret.slice.1,
            ret.offset == old(self).offset, ret.stem == old(self).stem, ret.pos == old(self).pos,
            ret.fin == (old(self).fin || ret.slice.1 < old(self).slice.1),
            // what was stripped matched the pattern; what remains starts and ends with a character that does not
            forall|t: int| old(self).slice.0 <= t < ret.slice.0 ==> pm(pattern, lang, #[trigger] chars@[t]),
            forall|t: int| ret.slice.1 <= t < old(self).slice.1 ==> pm(pattern, lang, #[trigger] chars@[t]),
            ret.slice.0 < ret.slice.1 ==> !pm(pattern, lang, chars@[ret.slice.0 as int]) && !pm(pattern, lang, chars@[ret.slice.1 - 1]),
    {
        let ghost all_chars = chars@;
        let chars = &chars[self.slice.0..self.slice.1];
        let ghost a = old(self).slice.0 as int;
        let ghost b = old(self).slice.1 as int;
        let ghost all = old(self);
        let __src0 = &chars;
        let mut __acc0: usize = 0;
        loop
            invariant __acc0 <= __src0@.len(), __src0@ == chars@, chars@.len() == b - a,
                forall|t: int| 0 <= t < __acc0 ==> pm(pattern, lang, #[trigger] __src0@[t]),
            ensures __acc0 <= __src0@.len(), __acc0 < __src0@.len() ==> !pm(pattern, lang, __src0@[__acc0 as int]),
                forall|t: int| 0 <= t < __acc0 ==> pm(pattern, lang, #[trigger] __src0@[t]),
            decreases __src0@.len() - __acc0,
        {
            if __acc0 >= __src0.len() {
                break;
            }
            let ch = __src0[__acc0];
            if !(pattern.matches(ch, lang).unwrap_or(false)) {
                break;
            }
            __acc0 += 1;
        }
        let left = __acc0;
        let __src1 = &chars;
        let __cap1 = chars.len() - left;
        let mut __acc1: usize = 0;
        loop
            invariant __acc1 <= __cap1, __acc1 <= __src1@.len(), __src1@ == chars@, chars@.len() == b - a, __cap1 == chars@.len() - left,
                forall|t: int| 0 <= t < __acc1 ==> pm(pattern, lang, #[trigger] __src1@[__src1@.len() - 1 - t]),
            ensures __acc1 <= __cap1, __acc1 <= __src1@.len(), __acc1 < __cap1 ==> !pm(pattern, lang, __src1@[__src1@.len() - 1 - __acc1]),
                forall|t: int| 0 <= t < __acc1 ==> pm(pattern, lang, #[trigger] __src1@[__src1@.len() - 1 - t]),
            decreases __src1@.len() - __acc1,
        {
            if __acc1 >= __cap1 || __acc1 >= __src1.len() {
                break;
            }
            let ch = __src1[__src1.len() - 1 - __acc1];
            if !(pattern.matches(ch, lang).unwrap_or(false)) {
                break;
            }
            __acc1 += 1;
        }
        let right = __acc1;
        proof {
            let full = all_chars;
            assert(chars@ == full.subrange(a, b));
            assert forall|t: int| a <= t < a + left implies pm(pattern, lang, #[trigger] full[t]) by { assert(chars@[t - a] == full[t]); }
            assert forall|t: int| b - right <= t < b implies pm(pattern, lang, #[trigger] full[t]) by { assert(chars@[chars@.len() - 1 - (b - 1 - t)] == full[t]); }
            if left < b - a { assert(chars@[left as int] == full[a + left]); }
            if right < b - a - left { assert(chars@[chars@.len() - 1 - right] == full[b - 1 - right]); }
        }
        self.slice.0 += left;
        self.slice.1 -= right;
        self.fin = self.fin || right != 0;
        self
    }
    pub fn set_stem(&mut self, chars: &[char], lang: &Lang) -> (ret: &mut Self)
        requires old(self).slice.0 <= old(self).slice.1 <= chars@.len(),
        ensures *final(self) == *final(ret),
            ret.slice == old(self).slice, ret.offset == old(self).offset, ret.pos == old(self).pos, ret.fin == old(self).fin,
            // from the stemmer assumption
            old(self).slice.0 < old(self).slice.1 ==> 1 <= ret.stem <= old(self).slice.1 - old(self).slice.0,
    {
        let chars = &chars[self.slice.0..self.slice.1];
        self.stem = lang.stem(chars);
        self
    }
    pub fn set_pos(&mut self, chars: &[char], lang: &Lang) -> (ret: &mut Self)
        requires old(self).slice.0 <= old(self).slice.1 <= chars@.len(),
        ensures *final(self) == *final(ret),
            ret.slice == old(self).slice, ret.offset == old(self).offset, ret.stem == old(self).stem, ret.fin == old(self).fin,
    {
        let chars = &chars[self.slice.0..self.slice.1];
        self.pos = lang.get_pos(chars);
        self
    }
}
// @item rust/core/src/tokenization/word.rs :: defaults Word as WordShape::{len,is_empty}
impl WordShape {
    fn len(&self) -> (ret: usize)
        requires self.slice.0 <= self.slice.1,
        ensures ret == self.slice.1 - self.slice.0,
    {
        let (left, right) = self.slice();
        right - left
    }
    fn is_empty(&self) -> (ret: bool)
        ensures ret == (self.slice.1 == self.slice.0),
    {
        let (left, right) = self.slice();
        right == left
    }
}
// @item rust/core/src/tokenization/word_split.rs :: struct WordSplit
pub struct WordSplit<'a, 'b> {
    pub word: &'a WordShape,
    pub lang: &'a Lang,
    pub chars: &'a [char],
    pub pattern: &'b [CharClass],
    pub word_offset: usize,
    pub char_offset: usize,
}
impl<'a, 'b> WordSplit<'a, 'b> {
    pub open spec fn wf(&self) -> bool {
        self.word.slice.0 <= self.word.slice.1 <= self.chars@.len() && self.char_offset <= self.word.slice.1 - self.word.slice.0
        && self.word.offset + (self.word.slice.1 - self.word.slice.0) <= usize::MAX && self.word_offset <= self.word.offset + self.char_offset
    }
}
// @item rust/core/src/tokenization/word_split.rs :: impl WordSplit::{new}
impl<'a, 'b> WordSplit<'a, 'b> {
    pub fn new(word: &'a WordShape, chars: &'a [char], pattern: &'b [CharClass], lang: &'a Lang) -> (ret: Self)
        requires word.slice.0 <= word.slice.1 <= chars@.len(), word.offset + (word.slice.1 - word.slice.0) <= usize::MAX,
        ensures ret.wf(), ret.word == word, ret.chars@ == chars@, ret.pattern@ == pattern@, ret.lang == lang, ret.char_offset == 0, ret.word_offset == word.offset,
    {
        Self { lang, word, chars, pattern, word_offset: word.offset, char_offset: 0 }
    }
}
// @item rust/core/src/tokenization/word_split.rs :: impl Iterator for WordSplit::{next}
impl<'a, 'b> WordSplit<'a, 'b> {
    fn next(&mut self) -> (ret: Option<WordShape>)
        // C15: split on pattern characters: words are consecutive, non-empty, ordered, inside the parent word, contain no
        // pattern character, and every skipped character is a pattern character
        requires old(self).wf(),
        ensures final(self).wf(), final(self).word == old(self).word, final(self).chars == old(self).chars, final(self).pattern == old(self).pattern, final(self).lang == old(self).lang,
            final(self).char_offset >= old(self).char_offset,
            ret matches Some(s) ==> {
                let w = old(self).word; let base = w.slice.0 as int;
                &&& base + old(self).char_offset <= s.slice.0 < s.slice.1 <= w.slice.1
                &&& final(self).char_offset == s.slice.1 - base && final(self).char_offset > old(self).char_offset
                &&& s.offset == old(self).word_offset && final(self).word_offset == old(self).word_offset + 1
                &&& s.stem == s.slice.1 - s.slice.0 && s.pos == None::<PartOfSpeech>
                &&& s.fin == (w.fin || s.slice.1 < w.slice.1)
                &&& (forall|t: int| base + old(self).char_offset <= t < s.slice.0 ==> pm(old(self).pattern, old(self).lang, #[trigger] old(self).chars@[t]))
                &&& (forall|t: int| s.slice.0 <= t < s.slice.1 ==> !pm(old(self).pattern, old(self).lang, #[trigger] old(self).chars@[t]))
                &&& (s.slice.1 < w.slice.1 ==> pm(old(self).pattern, old(self).lang, old(self).chars@[s.slice.1 as int]))
            },
            ret is None ==> final(self).word_offset == old(self).word_offset
                && (forall|t: int| old(self).word.slice.0 + old(self).char_offset <= t < old(self).word.slice.1 ==> pm(old(self).pattern, old(self).lang, #[trigger] old(self).chars@[t])),
    {
        let Self { word, word_offset, char_offset, pattern, lang, .. } = self;
        let chars = &self.chars[word.slice.0..word.slice.1];
        let ghost base = word.slice.0 as int;
        let ghost off0 = *char_offset as int;
        let ghost all = self.chars@;
        let ghost wlen = word.slice.1 - word.slice.0;
        if *char_offset >= word.len() {
            return None;
        }
        let __src0 = &chars[*char_offset..];
        let mut __acc0: usize = 0;
        loop
            invariant __acc0 <= __src0@.len(), __src0@ == chars@.skip(*char_offset as int), chars@ == all.subrange(base, base + wlen), *char_offset == off0, off0 <= wlen, wlen == chars@.len(),
                forall|t: int| 0 <= t < __acc0 ==> pm(*pattern, *lang, #[trigger] __src0@[t]),
            ensures __acc0 <= __src0@.len(), forall|t: int| 0 <= t < __acc0 ==> pm(*pattern, *lang, #[trigger] __src0@[t]),
                __acc0 < __src0@.len() ==> !pm(*pattern, *lang, __src0@[__acc0 as int]),
            decreases __src0@.len() - __acc0,
        {
            if __acc0 >= __src0.len() {
                break;
            }
            let ch = __src0[__acc0];
            if !(pattern.matches(ch, lang).unwrap_or(false)) {
                break;
            }
            __acc0 += 1;
        }
        *char_offset += __acc0;
        let ghost off1 = *char_offset as int;
        let ghost acc0 = __acc0 as int;
        proof {
            assert forall|t: int| base + off0 <= t < base + off1 implies pm(*pattern, *lang, #[trigger] all[t]) by { assert(__src0@[t - base - off0] == all[t]); }
        }
        let __src1 = &chars[*char_offset..];
        let mut __acc1: usize = 0;
        loop
            invariant __acc1 <= __src1@.len(), __src1@ == chars@.skip(*char_offset as int), chars@ == all.subrange(base, base + wlen), *char_offset == off1, off1 <= wlen, wlen == chars@.len(),
                forall|t: int| 0 <= t < __acc1 ==> !pm(*pattern, *lang, #[trigger] __src1@[t]),
            ensures __acc1 <= __src1@.len(), forall|t: int| 0 <= t < __acc1 ==> !pm(*pattern, *lang, #[trigger] __src1@[t]),
                __acc1 < __src1@.len() ==> pm(*pattern, *lang, __src1@[__acc1 as int]),
            decreases __src1@.len() - __acc1,
        {
            if __acc1 >= __src1.len() {
                break;
            }
            let ch = __src1[__acc1];
            if !(!pattern.matches(ch, lang).unwrap_or(false)) {
                break;
            }
            __acc1 += 1;
        }
        let len = __acc1;
        proof {
            assert forall|t: int| base + off1 <= t < base + off1 + len implies !pm(*pattern, *lang, #[trigger] all[t]) by { assert(__src1@[t - base - off1] == all[t]); }
            if len == 0 && off1 < wlen {
                // the first loop stopped at a non-pattern character, the second at a pattern character: impossible
                assert(__src1@[0] == all[base + off1]);
                if acc0 < wlen - off0 { assert(chars@.skip(off0)[acc0] == all[base + off1]); }
            }
            if off1 + len < wlen { assert(__src1@[len as int] == all[base + off1 + len]); }
        }
        if len == 0 {
            return None;
        }
        let splitted = WordShape { offset: *word_offset, slice: (word.slice.0 + *char_offset, word.slice.0 + *char_offset + len), stem: len, pos: None, fin: word.fin || *char_offset + len < word.len() };
        *char_offset += splitted.len();
        *word_offset += 1;
        Some(splitted)
    }
}
// ---- C15: the structural part of Text::wf, staged through the pipeline
pub open spec fn ws_in(ws: Seq<WordShape>, n: int) -> bool { forall|k: int| 0 <= k < ws.len() ==> (#[trigger] ws[k]).slice.0 <= ws[k].slice.1 && ws[k].slice.1 <= n }
pub open spec fn ws_ordered(ws: Seq<WordShape>) -> bool { forall|k: int, m: int| 0 <= k < m < ws.len() ==> (#[trigger] ws[k]).slice.1 <= (#[trigger] ws[m]).slice.0 }
pub open spec fn ws_nonempty(ws: Seq<WordShape>) -> bool { forall|k: int| 0 <= k < ws.len() ==> (#[trigger] ws[k]).slice.0 < ws[k].slice.1 }
pub open spec fn ws_numbered(ws: Seq<WordShape>) -> bool { forall|k: int| 0 <= k < ws.len() ==> (#[trigger] ws[k]).offset == k }
pub open spec fn ws_stems(ws: Seq<WordShape>) -> bool { forall|k: int| 0 <= k < ws.len() ==> 1 <= (#[trigger] ws[k]).stem <= ws[k].slice.1 - ws[k].slice.0 }
pub open spec fn same_slices(a: Seq<WordShape>, b: Seq<WordShape>) -> bool { a.len() == b.len() && forall|k: int| 0 <= k < a.len() ==> (#[trigger] a[k]).slice == b[k].slice && a[k].fin == b[k].fin }
// ---- C15 (characters): no separator inside a word, edges alphanumeric, every alphanumeric character covered, fin flags
pub open spec fn is_split_pat(p: Seq<CharClass>) -> bool { p.len() == 3 && p[0] == Whitespace && p[1] == Control && p[2] == Punctuation }
pub open spec fn is_strip_pat(p: Seq<CharClass>) -> bool { p.len() == 1 && p[0] == NotAlphaNum }
proof fn lemma_pm_split(pattern: &[CharClass], lang: &Lang, c: char)
    requires is_split_pat(pattern@)
    ensures pm(pattern, lang, c) == is_sep(c)
{
    let ps = pattern@;
    assert(ps[0] == Whitespace && ps[1] == Control && ps[2] == Punctuation);
    if is_sep(c) {
        if sp_ws(c) { assert(ps[0].sp_matches(c, lang) == Some(true)); } else if sp_ctrl(c) { assert(ps[1].sp_matches(c, lang) == Some(true)); } else { assert(ps[2].sp_matches(c, lang) == Some(true)); }
    }
}
proof fn lemma_pm_strip(pattern: &[CharClass], lang: &Lang, c: char)
    requires is_strip_pat(pattern@)
    ensures pm(pattern, lang, c) == !sp_alnum(c)
{
    let ps = pattern@;
    assert(ps[0] == NotAlphaNum);
    if !sp_alnum(c) { assert(ps[0].sp_matches(c, lang) == Some(true)); }
}
pub open spec fn covered(ws: Seq<WordShape>, t: int) -> bool { exists|k: int| 0 <= k < ws.len() && (#[trigger] ws[k]).slice.0 <= t < ws[k].slice.1 }
pub open spec fn ws_no_sep(ws: Seq<WordShape>, chars: Seq<char>) -> bool { forall|k: int, t: int| 0 <= k < ws.len() && (#[trigger] ws[k]).slice.0 <= t < ws[k].slice.1 ==> !is_sep(#[trigger] chars[t]) }
pub open spec fn ws_edges(ws: Seq<WordShape>, chars: Seq<char>) -> bool { forall|k: int| 0 <= k < ws.len() ==> sp_alnum(chars[(#[trigger] ws[k]).slice.0 as int]) && sp_alnum(chars[ws[k].slice.1 - 1]) }
pub open spec fn ws_cover(ws: Seq<WordShape>, chars: Seq<char>) -> bool { forall|t: int| 0 <= t < chars.len() && sp_alnum(#[trigger] chars[t]) ==> covered(ws, t) }
// record: every word finished; query: a word is unfinished exactly when it ends the text
pub open spec fn ws_fin_record(ws: Seq<WordShape>) -> bool { forall|k: int| 0 <= k < ws.len() ==> (#[trigger] ws[k]).fin }
pub open spec fn ws_fin_query(ws: Seq<WordShape>, n: int) -> bool { forall|k: int| 0 <= k < ws.len() ==> ((#[trigger] ws[k]).fin <==> ws[k].slice.1 < n) }
pub open spec fn same_class(a: Seq<char>, b: Seq<char>) -> bool { a.len() == b.len() && forall|t: int| 0 <= t < a.len() ==> sp_alnum(#[trigger] a[t]) == sp_alnum(b[t]) && is_sep(a[t]) == is_sep(b[t]) }
pub open spec fn gap_sep(ws: Seq<WordShape>, chars: Seq<char>) -> bool { forall|t: int| 0 <= t < chars.len() && !covered(ws, t) ==> is_sep(#[trigger] chars[t]) }
proof fn lemma_same_slices(a: Seq<WordShape>, b: Seq<WordShape>, chars: Seq<char>, n: int)
    requires same_slices(a, b)
    ensures ws_in(b, n) ==> ws_in(a, n), ws_ordered(b) ==> ws_ordered(a), ws_nonempty(b) ==> ws_nonempty(a),
        ws_no_sep(b, chars) ==> ws_no_sep(a, chars), ws_edges(b, chars) ==> ws_edges(a, chars), ws_cover(b, chars) ==> ws_cover(a, chars), gap_sep(b, chars) ==> gap_sep(a, chars),
        ws_fin_record(b) ==> ws_fin_record(a), ws_fin_query(b, n) ==> ws_fin_query(a, n),
{
    assert forall|t: int| covered(b, t) implies covered(a, t) by { let k = choose|k: int| 0 <= k < b.len() && (#[trigger] b[k]).slice.0 <= t < b[k].slice.1; assert(a[k].slice == b[k].slice); }
    assert forall|t: int| covered(a, t) implies covered(b, t) by { let k = choose|k: int| 0 <= k < a.len() && (#[trigger] a[k]).slice.0 <= t < a[k].slice.1; assert(a[k].slice == b[k].slice); }
    if ws_no_sep(b, chars) { assert forall|k: int, t: int| 0 <= k < a.len() && (#[trigger] a[k]).slice.0 <= t < a[k].slice.1 implies !is_sep(#[trigger] chars[t]) by { assert(a[k].slice == b[k].slice); } }
    if ws_edges(b, chars) { assert forall|k: int| 0 <= k < a.len() implies sp_alnum(chars[(#[trigger] a[k]).slice.0 as int]) && sp_alnum(chars[a[k].slice.1 - 1]) by { assert(a[k].slice == b[k].slice); } }
    if ws_ordered(b) { assert forall|k: int, m: int| 0 <= k < m < a.len() implies (#[trigger] a[k]).slice.1 <= (#[trigger] a[m]).slice.0 by { assert(a[k].slice == b[k].slice); assert(a[m].slice == b[m].slice); } }
}
proof fn lemma_same_class(ws: Seq<WordShape>, a: Seq<char>, b: Seq<char>)
    requires same_class(a, b), ws_in(ws, b.len() as int), ws_nonempty(ws)
    ensures ws_no_sep(ws, b) ==> ws_no_sep(ws, a), ws_edges(ws, b) ==> ws_edges(ws, a), ws_cover(ws, b) ==> ws_cover(ws, a),
{
    if ws_no_sep(ws, b) { assert forall|k: int, t: int| 0 <= k < ws.len() && (#[trigger] ws[k]).slice.0 <= t < ws[k].slice.1 implies !is_sep(#[trigger] a[t]) by { assert(!is_sep(b[t])); } }
    if ws_edges(ws, b) { assert forall|k: int| 0 <= k < ws.len() implies sp_alnum(a[(#[trigger] ws[k]).slice.0 as int]) && sp_alnum(a[ws[k].slice.1 - 1]) by { assert(sp_alnum(b[ws[k].slice.0 as int])); } }
    if ws_cover(ws, b) { assert forall|t: int| 0 <= t < a.len() && sp_alnum(#[trigger] a[t]) implies covered(ws, t) by { assert(sp_alnum(b[t])); } }
}
pub open spec fn strip_rel(w0: Seq<WordShape>, st: Seq<WordShape>, f: Seq<WordShape>, keep: spec_fn(WordShape) -> bool, n: int) -> bool {
    &&& st.len() == w0.len() && ws_in(w0, n) && ws_in(st, n) && ws_ordered(st) && f == st.filter(keep)
    &&& (forall|i: int| 0 <= i < st.len() ==> keep(#[trigger] st[i]) == (st[i].slice.0 < st[i].slice.1))
    &&& (forall|k: int| 0 <= k < w0.len() ==> w0[k].slice.0 <= (#[trigger] st[k]).slice.0 && st[k].slice.1 <= w0[k].slice.1)
    &&& (forall|k: int| 0 <= k < w0.len() ==> (#[trigger] st[k]).fin == (w0[k].fin || st[k].slice.1 < w0[k].slice.1))
}
proof fn lemma_strip_fin(w0: Seq<WordShape>, st: Seq<WordShape>, f: Seq<WordShape>, keep: spec_fn(WordShape) -> bool, n: int)
    requires strip_rel(w0, st, f, keep, n)
    ensures ws_fin_record(w0) ==> ws_fin_record(f), ws_fin_query(w0, n) ==> ws_fin_query(f, n),
{
    lemma_filter_words(st, keep, n);
    if ws_fin_record(w0) { assert forall|j: int| 0 <= j < f.len() implies (#[trigger] f[j]).fin by { assert(st.contains(f[j])); let k = choose|k: int| 0 <= k < st.len() && st[k] == f[j]; assert(w0[k].fin); } }
    if ws_fin_query(w0, n) { assert forall|j: int| 0 <= j < f.len() implies ((#[trigger] f[j]).fin <==> f[j].slice.1 < n) by { assert(st.contains(f[j])); let k = choose|k: int| 0 <= k < st.len() && st[k] == f[j]; assert(w0[k].fin <==> w0[k].slice.1 < n); } }
}
proof fn lemma_strip_chars(w0: Seq<WordShape>, st: Seq<WordShape>, f: Seq<WordShape>, keep: spec_fn(WordShape) -> bool, chars: Seq<char>, n: int)
    requires strip_rel(w0, st, f, keep, n), n == chars.len(), ws_no_sep(w0, chars), gap_sep(w0, chars),
        forall|k: int, t: int| 0 <= k < w0.len() && w0[k].slice.0 <= t < w0[k].slice.1 && !((#[trigger] st[k]).slice.0 <= t < st[k].slice.1) ==> !sp_alnum(#[trigger] chars[t]),
        forall|k: int| 0 <= k < st.len() && (#[trigger] st[k]).slice.0 < st[k].slice.1 ==> sp_alnum(chars[st[k].slice.0 as int]) && sp_alnum(chars[st[k].slice.1 - 1]),
    ensures ws_no_sep(f, chars), ws_edges(f, chars), ws_cover(f, chars),
{
    broadcast use chx::ax_sep_not_alnum;
    lemma_filter_words(st, keep, n);
    assert forall|j: int, t: int| 0 <= j < f.len() && (#[trigger] f[j]).slice.0 <= t < f[j].slice.1 implies !is_sep(#[trigger] chars[t]) by {
        assert(st.contains(f[j])); let k = choose|k: int| 0 <= k < st.len() && st[k] == f[j]; assert(w0[k].slice.0 <= t < w0[k].slice.1);
    }
    assert forall|j: int| 0 <= j < f.len() implies sp_alnum(chars[(#[trigger] f[j]).slice.0 as int]) && sp_alnum(chars[f[j].slice.1 - 1]) by {
        assert(st.contains(f[j])); let k = choose|k: int| 0 <= k < st.len() && st[k] == f[j]; assert(keep(f[j]));
    }
    assert forall|t: int| 0 <= t < chars.len() && sp_alnum(#[trigger] chars[t]) implies covered(f, t) by {
        if !covered(w0, t) { assert(is_sep(chars[t])); }
        let k = choose|k: int| 0 <= k < w0.len() && (#[trigger] w0[k]).slice.0 <= t < w0[k].slice.1;
        assert(st[k].slice.0 <= t < st[k].slice.1);
        assert(keep(st[k])); assert(f.contains(st[k]));
        let j = choose|j: int| 0 <= j < f.len() && f[j] == st[k];
    }
}
impl TextOwn {
    pub open spec fn chars_ok(&self) -> bool { ws_no_sep(self.words@, self.chars@) && ws_edges(self.words@, self.chars@) && ws_cover(self.words@, self.chars@) }
    // source and normalised text are position-aligned
    pub open spec fn aligned(&self) -> bool { self.source@.len() == self.chars@.len() }
    pub open spec fn struct_ok(&self) -> bool {
        self.aligned() && ws_in(self.words@, self.chars@.len() as int) && ws_ordered(self.words@) && ws_nonempty(self.words@) && ws_numbered(self.words@)
    }
    // C15 (structure): what tokenize_query / tokenize_record return
    pub open spec fn wf(&self) -> bool { self.struct_ok() && self.classes@.len() == self.chars@.len() && ws_stems(self.words@) && self.chars_ok() }
}
// TK-same (tokeniser link of the recall clauses C03 C04 C13 C14): the normalised characters are the same FUNCTION of the input text for
// a stored title and for a typed query: reduce(compose(source)), lower-cased as a whole when it has an upper-case character
pub open spec fn lower_seq(s: Seq<char>) -> Seq<char> {
    if exists|u: int| 0 <= u < s.len() && sp_upper(#[trigger] s[u]) { Seq::new(s.len(), |t: int| sp_lower(s[t])) } else { s }
}
pub open spec fn tok_chars(lang: &Lang, source: Seq<char>) -> Seq<char> { lower_seq(norm_seq(&lang.reduce_map, norm_seq(&lang.compose_map, source))) }
// C13 link (tokeniser side of Store::search's clause for queries of several words): in a tokenised query every word but the last one is
// finished — in particular the first word of a query of two or more words
proof fn lemma_query_fin(t: &TextOwn)
    requires t.wf(), ws_fin_query(t.words@, t.chars@.len() as int)
    ensures forall|k: int| 0 <= k < t.words@.len() - 1 ==> (#[trigger] t.words@[k]).fin,
        t.words@.len() >= 2 ==> t.words@[0].fin,
{
    let ws = t.words@;
    assert forall|k: int| 0 <= k < ws.len() - 1 implies (#[trigger] ws[k]).fin by {
        assert(ws[k].slice.1 <= ws[k + 1].slice.0);
        assert(ws[k + 1].slice.0 < ws[k + 1].slice.1 && ws[k + 1].slice.1 <= t.chars@.len());
    }
}
// a filtered sequence is a sub-sequence: order-like properties survive Vec::retain
proof fn lemma_filter_words(ws: Seq<WordShape>, keep: spec_fn(WordShape) -> bool, n: int)
    requires ws_in(ws, n), ws_ordered(ws)
    ensures ws_in(ws.filter(keep), n), ws_ordered(ws.filter(keep)), ws.filter(keep).len() <= ws.len(),
        forall|k: int| 0 <= k < ws.filter(keep).len() ==> keep(#[trigger] ws.filter(keep)[k]),
        forall|k: int| 0 <= k < ws.filter(keep).len() ==> ws.contains(#[trigger] ws.filter(keep)[k]),
        ws.len() > 0 && ws.filter(keep).len() > 0 ==> ws.filter(keep).last().slice.1 <= ws.last().slice.1,
        forall|i: int| 0 <= i < ws.len() && keep(#[trigger] ws[i]) ==> ws.filter(keep).contains(ws[i]),
    decreases ws.len()
{
    reveal(Seq::filter);
    if ws.len() > 0 {
        let p = ws.drop_last();
        lemma_filter_words(p, keep, n);
        let f = p.filter(keep);
        assert forall|k: int| 0 <= k < f.len() implies ws.contains(#[trigger] f[k]) by {
            assert(p.contains(f[k])); let i = choose|i: int| 0 <= i < p.len() && p[i] == f[k]; assert(ws[i] == f[k]);
        }
        assert forall|i: int| 0 <= i < ws.len() && keep(#[trigger] ws[i]) implies ws.filter(keep).contains(ws[i]) by {
            if i < p.len() {
                assert(p[i] == ws[i]); assert(f.contains(ws[i]));
                let j = choose|j: int| 0 <= j < f.len() && f[j] == ws[i];
                if keep(ws.last()) { assert(f.push(ws.last())[j] == ws[i]); }
            } else {
                assert(f.push(ws.last())[f.len() as int] == ws[i]);
            }
        }
        if keep(ws.last()) {
            let r = f.push(ws.last());
            assert(ws.contains(ws.last())) by { assert(ws[ws.len() - 1] == ws.last()); }
            assert forall|k: int, m: int| 0 <= k < m < r.len() implies (#[trigger] r[k]).slice.1 <= (#[trigger] r[m]).slice.0 by {
                if m == r.len() - 1 { assert(p.contains(f[k])); let i = choose|i: int| 0 <= i < p.len() && p[i] == f[k]; assert(ws[i].slice.1 <= ws[ws.len() - 1].slice.0); }
            }
            assert forall|k: int| 0 <= k < r.len() implies ws.contains(#[trigger] r[k]) by { if k < f.len() { assert(r[k] == f[k]); } }
        } else {
            if f.len() > 0 && p.len() > 0 { assert(p.last().slice.1 <= ws.last().slice.0) by { assert(ws[p.len() - 1] == p.last()); } }
        }
    }
}
// @item rust/core/src/tokenization/text.rs :: impl TextOwn::{from_vec,from_str,fin,normalize,split,strip,set_stem,set_pos,set_char_classes,lower}
impl TextOwn {
    pub fn from_vec(source: Vec<char>) -> (ret: TextOwn)
        ensures ret.source@ == source@, ret.chars@ == source@, ret.classes@.len() == source@.len(), ret.words@.len() == 1,
            ret.words@[0].slice.0 == 0 && ret.words@[0].slice.1 == source@.len(), ret.words@[0].offset == 0, ret.words@[0].fin,
    {
        let len = source.len();
        let chars = source.clone();
        let classes = vec![CharClass::Any; chars.len()];
        Self { words: vec![WordShape::new(len)], source, chars, classes }
    }
    pub fn from_str(source: &str) -> (ret: TextOwn)
        ensures ret.source@ == source@, ret.chars@ == source@, ret.classes@.len() == source@.len(), ret.words@.len() == 1,
            ret.words@[0].slice.0 == 0 && ret.words@[0].slice.1 == source@.len(), ret.words@[0].offset == 0, ret.words@[0].fin,
    {
        Self::from_vec(to_vec(source))
    }
    pub fn fin(self, fin: bool) -> (ret: Self)
        ensures ret.source@ == self.source@, ret.chars@ == self.chars@, ret.classes@ == self.classes@, ret.words@.len() == self.words@.len() && (forall|k: int| 0 <= k < self.words@.len() ==> (#[trigger] ret.words@[k]).slice == self.words@[k].slice),
            forall|k: int| 0 <= k < self.words@.len() ==> (#[trigger] ret.words@[k]).offset == self.words@[k].offset,
            self.words@.len() > 0 ==> ret.words@.last().fin == fin,
            forall|k: int| 0 <= k < self.words@.len() - 1 ==> (#[trigger] ret.words@[k]).fin == self.words@[k].fin,
    {
        let mut __self = self;
        if let Some(word) = __self.words.last_mut() {
            word.fin = fin;
        }
        __self
    }
    pub fn normalize(self, lang: &mut Lang) -> (ret: Self)
        // C01: "Normalization should always be the first step" — the panic is an obligation on the caller
        requires self.words@.len() <= 1, old(lang).wf(), self.aligned(),
            self.words@.len() == 1 ==> self.words@[0].slice.0 == 0 && self.words@[0].slice.1 == self.chars@.len() && self.words@[0].offset == 0,
        ensures final(lang).reduce_map == old(lang).reduce_map, final(lang).compose_map == old(lang).compose_map, final(lang).pos_map == old(lang).pos_map, final(lang).char_map == old(lang).char_map,
            ret.aligned(), // [C15 C02 C01]
            ret.words@.len() == self.words@.len(), ret.classes@ == self.classes@,
            ret.words@.len() == 1 ==> ret.words@[0].slice.0 == 0 && ret.words@[0].slice.1 == ret.chars@.len() && ret.words@[0].offset == 0 && ret.words@[0].fin == self.words@[0].fin,
            // C02 / C11: WHAT the two arrays are: the source is the composed input (NUL padding aside), the normalised text is the
            // reduction of the composed input
            self.words@.len() == 1 && self.chars@ == self.source@ ==> ret.source@.filter(not_nul()) == norm_seq(&old(lang).compose_map, self.source@).filter(not_nul()), // [C02 C11]
            self.words@.len() == 1 && self.chars@ == self.source@ ==> ret.chars@ == norm_seq(&old(lang).reduce_map, norm_seq(&old(lang).compose_map, self.source@)), // [C02 C11]
            self.words@.len() == 0 ==> ret.source@ == self.source@ && ret.chars@ == self.chars@,
    {
        let mut __self = self;
        if __self.words.len() == 0 {
            return __self;
        }
        if __self.words.len() > 1 {
            return vpanic();
        }
        if let Some(nfc) = lang.unicode_compose(&__self.source) {
            __self.source = nfc.clone();
            __self.chars = nfc;
            __self.words[0].slice.1 = __self.chars.len();
        }
        if let Some((source, chars)) = lang.unicode_reduce(&__self.chars) {
            __self.source = source;
            __self.chars = chars;
            __self.words[0].slice.1 = __self.chars.len();
        }
        __self
    }
    pub fn split(self, pattern: &[CharClass], lang: &Lang) -> (ret: Self)
        requires ws_in(self.words@, self.chars@.len() as int), ws_ordered(self.words@), self.aligned(),
            forall|k: int| 0 <= k < self.words@.len() ==> (#[trigger] self.words@[k]).offset + (self.words@[k].slice.1 - self.words@[k].slice.0) <= usize::MAX,
        ensures ret.struct_ok(), ret.source@ == self.source@, ret.chars@ == self.chars@, ret.classes@ == self.classes@,
            // the pipeline case: one word spanning the whole text, split on whitespace / control / punctuation
            self.words@.len() == 1 && self.words@[0].slice.0 == 0 && self.words@[0].slice.1 == self.chars@.len() && is_split_pat(pattern@) ==> {
                &&& ws_no_sep(ret.words@, ret.chars@) && gap_sep(ret.words@, ret.chars@)
                &&& (self.words@[0].fin ==> ws_fin_record(ret.words@)) && (!self.words@[0].fin ==> ws_fin_query(ret.words@, ret.chars@.len() as int))
            },
    {
        let mut __self = self;
        let mut words = Vec::with_capacity(__self.words.len());
        let ghost parents = __self.words@;
        let ghost n = __self.chars@.len() as int;
        let ghost chars0 = __self.chars@;
        let ghost pipeline = parents.len() == 1 && parents[0].slice.0 == 0 && parents[0].slice.1 == n && is_split_pat(pattern@);
        let __end0 = __self.words.len();
        for __i0 in 0..__end0
            invariant __end0 == parents.len(), __self.words@ == parents, __self.chars@.len() == n, ws_in(parents, n), ws_ordered(parents),
                forall|k: int| 0 <= k < parents.len() ==> (#[trigger] parents[k]).offset + (parents[k].slice.1 - parents[k].slice.0) <= usize::MAX,
                __self.source@ == self.source@, __self.chars@ == self.chars@, __self.classes@ == self.classes@,
                ws_in(words@, n), ws_ordered(words@), ws_nonempty(words@),
                forall|j: int| 0 <= j < words@.len() ==> (#[trigger] words@[j]).slice.1 <= (if __i0 < parents.len() { parents[__i0 as int].slice.0 as int } else { n }),
                pipeline ==> (__i0 == 0 ==> words@.len() == 0) && (__i0 == 1 ==> ws_no_sep(words@, chars0) && gap_sep(words@, chars0) && (forall|j: int| 0 <= j < words@.len() ==> (#[trigger] words@[j]).fin == (parents[0].fin || words@[j].slice.1 < n))),
                chars0 == __self.chars@, pipeline == (parents.len() == 1 && parents[0].slice.0 == 0 && parents[0].slice.1 == n && is_split_pat(pattern@)),
        {
            let word = &__self.words[__i0];
            let mut __it1 = WordSplit::new(word, &__self.chars, pattern, lang);
            loop
                invariant __it1.wf(), __it1.word == word, *word == parents[__i0 as int], __it1.chars@ == __self.chars@, __i0 < parents.len(), __self.chars@.len() == n, ws_in(parents, n), ws_ordered(parents),
                    ws_in(words@, n), ws_ordered(words@), ws_nonempty(words@),
                    forall|j: int| 0 <= j < words@.len() ==> (#[trigger] words@[j]).slice.1 <= word.slice.0 + __it1.char_offset,
                    word.slice.0 + __it1.char_offset <= word.slice.1,
                    chars0 == __self.chars@, __it1.pattern@ == pattern@, __it1.lang == lang, pipeline == (parents.len() == 1 && parents[0].slice.0 == 0 && parents[0].slice.1 == n && is_split_pat(pattern@)),
                    pipeline ==> ws_no_sep(words@, chars0) && (forall|t: int| 0 <= t < __it1.char_offset && !covered(words@, t) ==> is_sep(#[trigger] chars0[t]))
                        && (forall|j: int| 0 <= j < words@.len() ==> (#[trigger] words@[j]).fin == (parents[0].fin || words@[j].slice.1 < n)),
                ensures pipeline ==> ws_no_sep(words@, chars0) && gap_sep(words@, chars0) && (forall|j: int| 0 <= j < words@.len() ==> (#[trigger] words@[j]).fin == (parents[0].fin || words@[j].slice.1 < n)),
                    forall|j: int| 0 <= j < words@.len() ==> (#[trigger] words@[j]).slice.1 <= word.slice.1,
                decreases word.slice.1 - word.slice.0 - __it1.char_offset,
            {
                let ghost o0 = __it1.char_offset as int;
                let ghost w0 = words@;
                match __it1.next() {
                    Some(splitted) => {
                        words.push(splitted);
                        proof {
                            if pipeline {
                                let s = splitted;
                                assert(__i0 == 0 && word.slice.0 == 0 && word.slice.1 == n && *word == parents[0]);
                                assert forall|t: int| o0 <= t < s.slice.0 implies is_sep(#[trigger] chars0[t]) by { lemma_pm_split(pattern, lang, chars0[t]); assert(pm(__it1.pattern, __it1.lang, __it1.chars@[t])); }
                                assert forall|t: int| s.slice.0 <= t < s.slice.1 implies !is_sep(#[trigger] chars0[t]) by { lemma_pm_split(pattern, lang, chars0[t]); assert(!pm(__it1.pattern, __it1.lang, __it1.chars@[t])); }
                                assert forall|t: int| covered(w0, t) implies covered(words@, t) by { let k = choose|k: int| 0 <= k < w0.len() && (#[trigger] w0[k]).slice.0 <= t < w0[k].slice.1; assert(words@[k] == w0[k]); }
                                assert forall|t: int| s.slice.0 <= t < s.slice.1 implies covered(words@, t) by { assert(words@[w0.len() as int] == s); }
                                assert forall|k: int, t: int| 0 <= k < words@.len() && (#[trigger] words@[k]).slice.0 <= t < words@[k].slice.1 implies !is_sep(#[trigger] chars0[t]) by { if k < w0.len() { assert(words@[k] == w0[k]); } }
                                assert forall|j: int| 0 <= j < words@.len() implies (#[trigger] words@[j]).fin == (parents[0].fin || words@[j].slice.1 < n) by { if j < w0.len() { assert(words@[j] == w0[j]); } }
                            }
                        }
                    }
                    None => {
                        proof {
                            if pipeline {
                                assert(__i0 == 0 && word.slice.0 == 0 && word.slice.1 == n && __it1.word.slice.0 == 0 && __it1.word.slice.1 == n);
                                assert(__it1.chars@ == chars0);
                                assert(forall|t: int| __it1.word.slice.0 + o0 <= t < __it1.word.slice.1 ==> pm(__it1.pattern, __it1.lang, #[trigger] __it1.chars@[t]));
                                assert forall|t: int| o0 <= t < n implies is_sep(#[trigger] chars0[t]) by { lemma_pm_split(pattern, lang, chars0[t]); assert(__it1.word.slice.0 + o0 <= t < __it1.word.slice.1); assert(pm(__it1.pattern, __it1.lang, __it1.chars@[t])); assert(pm(pattern, lang, chars0[t])); }
                            }
                        }
                        break;
                    }
                }
            }
        }
        __self.words = words;
        let ghost before = __self.words@;
        let __end2 = __self.words.len();
        for offset in 0..__end2
            invariant __end2 == before.len(), same_slices(__self.words@, before), __self.source@ == self.source@, __self.chars@ == self.chars@, __self.classes@ == self.classes@,
                forall|k: int| 0 <= k < offset ==> (#[trigger] __self.words@[k]).offset == k,
        {
            let word = &mut __self.words[offset];
            word.offset = offset;
        }
        proof { lemma_same_slices(__self.words@, before, chars0, n); }
        __self
    }
    pub fn strip(self, pattern: &[CharClass], lang: &Lang) -> (ret: Self)
        requires self.struct_ok(),
        ensures ret.struct_ok(), ret.source@ == self.source@, ret.chars@ == self.chars@, ret.classes@ == self.classes@,
            // the pipeline case: words without separators, gaps made of separators, edges stripped of non-alphanumerics
            ws_no_sep(self.words@, self.chars@) && gap_sep(self.words@, self.chars@) && is_strip_pat(pattern@) ==> ret.chars_ok(),
            ws_fin_record(self.words@) ==> ws_fin_record(ret.words@),
            ws_fin_query(self.words@, self.chars@.len() as int) ==> ws_fin_query(ret.words@, ret.chars@.len() as int),
    {
        let ghost n = self.chars@.len() as int;
        let ghost chars0 = self.chars@;
        let ghost w0 = self.words@;
        let ghost pipeline = ws_no_sep(w0, chars0) && gap_sep(w0, chars0) && is_strip_pat(pattern@);
        broadcast use chx::ax_sep_not_alnum;
        let mut __self = self;
        let __end0 = __self.words.len();
        for __i0 in 0..__end0
            invariant __end0 == __self.words@.len(), __self.source@ == self.source@, __self.chars@ == self.chars@, __self.classes@ == self.classes@, n == self.chars@.len(),
                ws_in(__self.words@, n), ws_ordered(__self.words@), __self.words@.len() == w0.len(), chars0 == self.chars@, w0 == self.words@,
                pipeline == (ws_no_sep(w0, chars0) && gap_sep(w0, chars0) && is_strip_pat(pattern@)),
                // processed words: shrunk inside themselves, what was cut off is non-alphanumeric, what remains has alphanumeric edges
                forall|k: int| 0 <= k < w0.len() ==> w0[k].slice.0 <= (#[trigger] __self.words@[k]).slice.0 && __self.words@[k].slice.1 <= w0[k].slice.1,
                forall|k: int| __i0 <= k < w0.len() ==> (#[trigger] __self.words@[k]) == w0[k],
                pipeline ==> forall|k: int, t: int| 0 <= k < __i0 && w0[k].slice.0 <= t < w0[k].slice.1 && !((#[trigger] __self.words@[k]).slice.0 <= t < __self.words@[k].slice.1) ==> !sp_alnum(#[trigger] chars0[t]),
                pipeline ==> forall|k: int| 0 <= k < __i0 && (#[trigger] __self.words@[k]).slice.0 < __self.words@[k].slice.1 ==> sp_alnum(chars0[__self.words@[k].slice.0 as int]) && sp_alnum(chars0[__self.words@[k].slice.1 - 1]),
                forall|k: int| 0 <= k < __i0 ==> (#[trigger] __self.words@[k]).fin == (w0[k].fin || __self.words@[k].slice.1 < w0[k].slice.1),
        {
            let word = &mut __self.words[__i0];
            word.strip(&__self.chars, pattern, lang);
            proof {
                if pipeline {
                    let k = __i0 as int;
                    let nw = __self.words@[k];
                    assert forall|t: int| w0[k].slice.0 <= t < w0[k].slice.1 && !(nw.slice.0 <= t < nw.slice.1) implies !sp_alnum(#[trigger] chars0[t]) by { lemma_pm_strip(pattern, lang, chars0[t]); }
                    if nw.slice.0 < nw.slice.1 { lemma_pm_strip(pattern, lang, chars0[nw.slice.0 as int]); lemma_pm_strip(pattern, lang, chars0[nw.slice.1 - 1]); }
                }
            }
        }
        let __clo0 = |w: &WordShape| -> (ret: bool)
            requires w.slice.0 <= w.slice.1,
            ensures ret == (w.slice.1 - w.slice.0 > 0),
        {
            w.len() > 0
        };
        let ghost stripped = __self.words@;
        __self.words.retain(__clo0);
        proof {
            let keep = choose|keep: spec_fn(WordShape) -> bool| (forall|i: int| 0 <= i < stripped.len() ==> __clo0.ensures((&#[trigger] stripped[i],), keep(stripped[i]))) && __self.words@ == stripped.filter(keep);
            lemma_filter_words(stripped, keep, n);
            assert forall|k: int| 0 <= k < __self.words@.len() implies (#[trigger] __self.words@[k]).slice.0 < __self.words@[k].slice.1 by {
                let w = __self.words@[k]; assert(keep(w)); assert(stripped.contains(w));
                let i = choose|i: int| 0 <= i < stripped.len() && stripped[i] == w;
                assert(__clo0.ensures((&stripped[i],), keep(stripped[i])));
            }
        }
        proof {
            let keep = choose|keep: spec_fn(WordShape) -> bool| (forall|i: int| 0 <= i < stripped.len() ==> __clo0.ensures((&#[trigger] stripped[i],), keep(stripped[i]))) && __self.words@ == stripped.filter(keep);
            assert forall|i: int| 0 <= i < stripped.len() implies keep(#[trigger] stripped[i]) == (stripped[i].slice.0 < stripped[i].slice.1) by { assert(__clo0.ensures((&stripped[i],), keep(stripped[i]))); }
            lemma_strip_fin(w0, stripped, __self.words@, keep, n);
            if pipeline { lemma_strip_chars(w0, stripped, __self.words@, keep, chars0, n); }
        }
        let ghost before = __self.words@;
        let __end1 = __self.words.len();
        for offset in 0..__end1
            invariant __end1 == before.len(), same_slices(__self.words@, before), __self.source@ == self.source@, __self.chars@ == self.chars@, __self.classes@ == self.classes@,
                forall|k: int| 0 <= k < offset ==> (#[trigger] __self.words@[k]).offset == k,
        {
            let word = &mut __self.words[offset];
            word.offset = offset;
        }
        proof { lemma_same_slices(__self.words@, before, chars0, n); }
        __self
    }
    pub fn set_stem(self, lang: &Lang) -> (ret: Self)
        requires self.struct_ok(),
        ensures ret.struct_ok(), ws_stems(ret.words@), ret.source@ == self.source@, ret.chars@ == self.chars@, ret.classes@ == self.classes@,
            self.chars_ok() ==> ret.chars_ok(), same_slices(ret.words@, self.words@),
    {
        let mut __self = self;
        let __end0 = __self.words.len();
        for __i0 in 0..__end0
            invariant __end0 == __self.words@.len(), same_slices(__self.words@, self.words@), ws_numbered(__self.words@), __self.source@ == self.source@, __self.chars@ == self.chars@, __self.classes@ == self.classes@, self.struct_ok(),
                forall|k: int| 0 <= k < __i0 ==> 1 <= (#[trigger] __self.words@[k]).stem <= __self.words@[k].slice.1 - __self.words@[k].slice.0,
        {
            let word = &mut __self.words[__i0];
            word.set_stem(&__self.chars, lang);
        }
        proof { lemma_same_slices(__self.words@, self.words@, self.chars@, self.chars@.len() as int); }
        __self
    }
    pub fn set_pos(self, lang: &Lang) -> (ret: Self)
        requires self.struct_ok(),
        ensures ret.struct_ok(), ret.source@ == self.source@, ret.chars@ == self.chars@, ret.classes@ == self.classes@,
            forall|k: int| 0 <= k < self.words@.len() ==> (#[trigger] ret.words@[k]).stem == self.words@[k].stem,
            self.chars_ok() ==> ret.chars_ok(), same_slices(ret.words@, self.words@),
    {
        let mut __self = self;
        let __end0 = __self.words.len();
        for __i0 in 0..__end0
            invariant __end0 == __self.words@.len(), same_slices(__self.words@, self.words@), ws_numbered(__self.words@), __self.source@ == self.source@, __self.chars@ == self.chars@, __self.classes@ == self.classes@, self.struct_ok(),
                forall|k: int| 0 <= k < self.words@.len() ==> (#[trigger] __self.words@[k]).stem == self.words@[k].stem,
        {
            let word = &mut __self.words[__i0];
            word.set_pos(&__self.chars, lang);
        }
        proof { lemma_same_slices(__self.words@, self.words@, self.chars@, self.chars@.len() as int); }
        __self
    }
    pub fn set_char_classes(self, lang: &Lang) -> (ret: Self)
        ensures ret.classes@.len() == ret.chars@.len(), ret.source@ == self.source@, ret.chars@ == self.chars@, ret.words@ == self.words@,
    {
        let mut __self = self;
        __self.classes.resize(__self.chars.len(), CharClass::Any);
        let __end0 = vmin(__self.chars.len(), __self.classes.len());
        for __i0 in 0..__end0
            invariant __self.classes@.len() == __self.chars@.len(), __end0 == __self.chars@.len(), __self.source@ == self.source@, __self.chars@ == self.chars@, __self.words@ == self.words@,
        {
            let ch = __self.chars[__i0];
            let class = &mut __self.classes[__i0];
            *class = {
                let __o1 = lang.get_char_class(ch);
                if __o1.is_none() {
                    set_char_classes__c0(ch, lang)
                } else {
                    __o1
                }
            }
            .unwrap_or(CharClass::Any);
        }
        __self
    }
    pub fn lower(self) -> (ret: Self)
        ensures ret.chars@.len() == self.chars@.len(), ret.source@ == self.source@, ret.classes@ == self.classes@, ret.words@ == self.words@,
            same_class(ret.chars@, self.chars@),
            self.struct_ok() && self.chars_ok() ==> ret.chars_ok(),
            // C15: no upper-case character is left
            forall|t: int| 0 <= t < ret.chars@.len() ==> !sp_upper(#[trigger] ret.chars@[t]), // [C15]
            // C15 / C11: WHAT lower does: a text with an upper-case character has every character replaced by its lower-case form;
            // a text without one is left alone
            (exists|u: int| 0 <= u < self.chars@.len() && sp_upper(#[trigger] self.chars@[u])) ==> (forall|t: int| 0 <= t < ret.chars@.len() ==> #[trigger] ret.chars@[t] == sp_lower(self.chars@[t])), // [C15]
            !(exists|u: int| 0 <= u < self.chars@.len() && sp_upper(#[trigger] self.chars@[u])) ==> ret.chars@ == self.chars@, // [C15]
    {
        broadcast use chx::ax_lower_class;
        let mut __self = self;
        let mut __acc0: bool = false;
        let mut __i0 = 0;
        while __i0 < __self.chars.len()
            invariant_except_break !__acc0, // [C15]
            invariant __i0 <= __self.chars@.len(), __self.chars@ == self.chars@,
                forall|u: int| 0 <= u < __i0 ==> !sp_upper(#[trigger] self.chars@[u]), // [C15]
            ensures __acc0 <==> (exists|u: int| 0 <= u < self.chars@.len() && sp_upper(#[trigger] self.chars@[u])), // [C15]
            decreases __self.chars@.len() - __i0,
        {
            let ch = &__self.chars[__i0];
            if ch.is_uppercase() {
                __acc0 = true;
                break;
            }
            __i0 += 1;
        }
        if __acc0 {
            let __end1 = __self.chars.len();
            for __i1 in 0..__end1
                invariant __end1 == __self.chars@.len(), __self.chars@.len() == self.chars@.len(), __self.source@ == self.source@, __self.classes@ == self.classes@, __self.words@ == self.words@,
                    forall|t: int| 0 <= t < __i1 ==> #[trigger] __self.chars@[t] == sp_lower(self.chars@[t]),
                    forall|t: int| __i1 <= t < __self.chars@.len() ==> #[trigger] __self.chars@[t] == self.chars@[t],
            {
                let ch = &mut __self.chars[__i1];
                *ch = char_to_lower(*ch, *ch);
            }
        }
        proof { if self.struct_ok() { lemma_same_class(self.words@, __self.chars@, self.chars@); } }
        __self
    }
}
// @item rust/core/src/tokenization/text.rs :: impl TextOwn::{from_vec,from_str,fin,normalize,split,strip,set_stem,set_pos,set_char_classes,lower} (lifted)
fn set_char_classes__c0(ch: char, lang: &Lang) -> (ret: Option<CharClass>)
{
    if CharClass::NotAlpha.matches(ch, lang)? {
        Some(CharClass::NotAlpha)
    } else {
        None
    }
}
// @item rust/core/src/tokenization/mod.rs :: fn tokenize_query
pub fn tokenize_query(source: &str, lang: &mut Lang) -> (ret: TextOwn)
    requires old(lang).wf(),
    // C15: equal-length arrays; words consecutively numbered, non-empty, ordered, in bounds, 1 <= stem <= len; no separator inside a
    // word, alphanumeric edges, every alphanumeric character in a word; a query word is unfinished exactly when it ends the text
    ensures ret.wf(), // [C15 C01 C03]
        ws_fin_query(ret.words@, ret.chars@.len() as int), // [C15 C03]
        ret.chars@ == tok_chars(&old(lang), source@), // [C15 C03 C04 C13 C14]
        ret.source@.filter(not_nul()) == norm_seq(&old(lang).compose_map, source@).filter(not_nul()), // [C02]
{
    TextOwn::from_str(source).normalize(lang).fin(false).split(&[CharClass::Whitespace, CharClass::Control, CharClass::Punctuation], lang).strip(&[CharClass::NotAlphaNum], lang).lower().set_pos(lang).set_char_classes(lang).set_stem(lang)
}
// @item rust/core/src/tokenization/mod.rs :: fn tokenize_record
pub fn tokenize_record(source: &str, lang: &mut Lang) -> (ret: TextOwn)
    requires old(lang).wf(),
    ensures ret.wf(), // [C15 C01 C03]
        ws_fin_record(ret.words@), // [C15]
        ret.chars@ == tok_chars(&old(lang), source@), // [C15 C03 C04 C13 C14]
        // C02: the stored source text is the title with the language's compositions applied (NUL padding aside): nothing else is
        // dropped, duplicated, reordered or altered
        ret.source@.filter(not_nul()) == norm_seq(&old(lang).compose_map, source@).filter(not_nul()), // [C02]
{
    TextOwn::from_str(source).normalize(lang).split(&[CharClass::Whitespace, CharClass::Control, CharClass::Punctuation], lang).strip(&[CharClass::NotAlphaNum], lang).lower().set_pos(lang).set_char_classes(lang).set_stem(lang)
}
