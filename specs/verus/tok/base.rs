// @item rust/core/src/matching/damlev/matrix.rs :: struct DistMatrix
pub struct DistMatrix {
    pub size: usize,
    pub raw: Vec<f64>,
}
// @item rust/core/src/matching/damlev/matrix.rs :: impl DistMatrix
impl DistMatrix {
    pub fn new(size: usize) -> (ret: Self)
    {
        let raw = vec![0.0; size * size];
        let mut matrix = Self { size, raw };
        matrix.init();
        matrix
    }
    pub fn prepare(&mut self, coefs1: &[f64], coefs2: &[f64])
    {
        let size = vmax(coefs1.len() + 2, coefs2.len() + 2);
        if size > self.size {
            let size = size + size / 2;
            self.raw.resize(size * size, 0.0);
            self.size = size;
            self.init();
        }
        unsafe {
            let __end0 = coefs1.len();
            for i1 in 0..__end0
            {
                let coef = coefs1[i1];
                let prev = self.get_unchecked(i1 + 1, 1);
                self.set_unchecked(i1 + 2, 1, prev + coef);
            }
            let __end1 = coefs2.len();
            for i2 in 0..__end1
            {
                let coef = coefs2[i2];
                let prev = self.get_unchecked(1, i2 + 1);
                self.set_unchecked(1, i2 + 2, prev + coef);
            }
        }
    }
    pub fn init(&mut self)
    {
        if self.size == 0 {
            return;
        }
        unsafe {
            let __end0 = self.size;
            for i in 0..__end0
            {
                self.set_unchecked(i, 0, usize_as_f64(self.size));
                self.set_unchecked(0, i, usize_as_f64(self.size));
            }
            let __end1 = self.size;
            for i in 1..__end1
            {
                self.set_unchecked(i, 1, usize_as_f64(i - 1));
                self.set_unchecked(1, i, usize_as_f64(i - 1));
            }
        }
    }
    pub unsafe fn get_unchecked(&self, i: usize, j: usize) -> (ret: f64)
    {
        *self.raw.get_unchecked(i * self.size + j)
    }
    pub unsafe fn set_unchecked(&mut self, i: usize, j: usize, val: f64)
    {
        *self.raw.get_unchecked_mut(i * self.size + j) = val;
    }
    pub fn get(&self, i: usize, j: usize) -> (ret: f64)
    {
        self.raw[i * self.size + j]
    }
}
// @item rust/core/src/lang/char_class.rs :: enum CharClass
#[derive(Clone, Copy, PartialEq, Eq, Structural)]
pub enum CharClass {
    Any,
    Control,
    Whitespace,
    Punctuation,
    NotAlpha,
    NotAlphaNum,
    Consonant,
    Vowel,
}
// @item rust/core/src/lang/pos.rs :: enum PartOfSpeech
#[derive(Clone, Copy, PartialEq, Eq, Structural)]
pub enum PartOfSpeech {
    Noun,
    Pronoun,
    Verb,
    Adjective,
    Adverb,
    Preposition,
    Conjunction,
    Particle,
    Intejection,
    Article,
}
// @item rust/core/src/tokenization/word_view.rs :: struct WordView
pub struct WordView<'a> {
    pub offset: usize,
    pub slice: (usize, usize),
    pub stem: usize,
    pub pos: Option<PartOfSpeech>,
    pub fin: bool,
    pub source: &'a [char],
    pub chars: &'a [char],
    pub classes: &'a [CharClass],
}
// @item rust/core/src/tokenization/word_view.rs :: impl Word for WordView
impl<'a> WordView<'a> {
    fn offset(&self) -> (ret: usize)
    {
        self.offset
    }
    fn slice(&self) -> (ret: (usize, usize))
    {
        self.slice
    }
    fn stem(&self) -> (ret: usize)
    {
        self.stem
    }
    fn pos(&self) -> (ret: Option<PartOfSpeech>)
    {
        self.pos
    }
    fn fin(&self) -> (ret: bool)
    {
        self.fin
    }
}
// @item rust/core/src/tokenization/word_view.rs :: impl WordView::{source,chars,classes}
impl<'a> WordView<'a> {
    pub fn source(&'a self) -> (ret: &'a [char])
    {
        &self.source[self.slice.0..self.slice.1]
    }
    pub fn chars(&'a self) -> (ret: &'a [char])
    {
        &self.chars[self.slice.0..self.slice.1]
    }
    pub fn classes(&'a self) -> (ret: &'a [CharClass])
    {
        &self.classes[self.slice.0..self.slice.1]
    }
}
// @item rust/core/src/tokenization/word.rs :: defaults Word as WordView<'a>::{len,is_empty}
impl<'a> WordView<'a> {
    fn len(&self) -> (ret: usize)
    {
        let (left, right) = self.slice();
        right - left
    }
    fn is_empty(&self) -> (ret: bool)
    {
        let (left, right) = self.slice();
        right == left
    }
}
// @item rust/core/src/matching/damlev/mod.rs :: const DEFAULT_CAPACITY
pub const DEFAULT_CAPACITY: usize = 20;
// @item rust/core/src/matching/damlev/mod.rs :: const COST_TRANS
pub const COST_TRANS: f64 = 0.5;
// @item rust/core/src/matching/damlev/mod.rs :: const COST_DOUBLE
pub const COST_DOUBLE: f64 = 0.5;
// @item rust/core/src/matching/damlev/mod.rs :: const COST_VOWEL
pub const COST_VOWEL: f64 = 0.5;
// @item rust/core/src/matching/damlev/mod.rs :: const COST_NOTALPHA
pub const COST_NOTALPHA: f64 = 0.5;
// @item rust/core/src/matching/damlev/mod.rs :: const COST_CONSONANT
pub const COST_CONSONANT: f64 = 1.0;
// @item rust/core/src/matching/damlev/mod.rs :: const COST_DEFAULT
pub const COST_DEFAULT: f64 = 1.0;
// @item rust/core/src/matching/damlev/mod.rs :: struct DamerauLevenshtein
pub struct DamerauLevenshtein {
    pub dists: DistMatrix,
    pub last_i1: HashMap<char, usize>,
    pub costs1: Vec<f64>,
    pub costs2: Vec<f64>,
}
// @item rust/core/src/matching/damlev/mod.rs :: impl DamerauLevenshtein
impl DamerauLevenshtein {
    pub fn new() -> (ret: Self)
    {
        let dists = DistMatrix::new(DEFAULT_CAPACITY + 2);
        let last_i1 = HashMap::with_capacity(DEFAULT_CAPACITY);
        let costs1 = Vec::with_capacity(DEFAULT_CAPACITY);
        let costs2 = Vec::with_capacity(DEFAULT_CAPACITY);
        Self { dists, last_i1, costs1, costs2 }
    }
    fn get_cost(class: &CharClass) -> (ret: f64)
    {
        match class {
            CharClass::Consonant => COST_CONSONANT,
            CharClass::Vowel => COST_VOWEL,
            CharClass::NotAlpha => COST_NOTALPHA,
            _ => COST_DEFAULT,
        }
    }
    pub fn distance(&mut self, word1: &WordView, word2: &WordView) -> (ret: f64)
    {
        let chars1 = word1.chars();
        let chars2 = word2.chars();
        let costs1 = &mut self.costs1;
        let costs2 = &mut self.costs2;
        costs1.clear();
        costs2.clear();
        let __src0 = word1.classes();
        let __end0 = __src0.len();
        for __i0 in 0..__end0
        {
            costs1.push(Self::get_cost(&__src0[__i0]));
        }
        let __src1 = word2.classes();
        let __end1 = __src1.len();
        for __i1 in 0..__end1
        {
            costs2.push(Self::get_cost(&__src1[__i1]));
        }
        let dists = &mut self.dists;
        dists.prepare(&costs1, &costs2);
        let last_i1 = &mut self.last_i1;
        last_i1.clear();
        let __end2 = chars1.len();
        for i1 in 0..__end2
        {
            let ch1 = chars1[i1];
            let mut l2 = 0;
            let cost1 = unsafe { *costs1.get_unchecked(i1) };
            let double1 = i1 > 0 && ch1 == unsafe { *chars1.get_unchecked(i1 - 1) };
            let cost_double1 = if double1 { COST_DOUBLE } else { COST_DEFAULT };
            let cost_del = fmin(cost1, cost_double1);
            let __end3 = chars2.len();
            for i2 in 0..__end3
            {
                let ch2 = chars2[i2];
                let l1 = *last_i1.get(&ch2).unwrap_or(&0);
                let cost2 = unsafe { *costs2.get_unchecked(i2) };
                let double2 = i2 > 0 && ch2 == unsafe { *chars2.get_unchecked(i2 - 1) };
                let cost_double2 = if double2 { COST_DOUBLE } else { COST_DEFAULT };
                let cost_add = fmin(cost2, cost_double2);
                let cost_sub = if ch1 == ch2 { 0.0 } else { fmax(cost1, cost2) };
                let cost_trans = COST_TRANS * usize_as_f64((i1 - l1) + (i2 - l2) + 1);
                let dist_add = cost_add + unsafe { dists.get_unchecked(i1 + 2, i2 + 1) };
                let dist_del = cost_del + unsafe { dists.get_unchecked(i1 + 1, i2 + 2) };
                let dist_sub = cost_sub + unsafe { dists.get_unchecked(i1 + 1, i2 + 1) };
                let dist_trans = cost_trans + unsafe { dists.get_unchecked(l1, l2) };
                let dist = fmin4(dist_add, dist_del, dist_sub, dist_trans);
                unsafe {
                    dists.set_unchecked(i1 + 2, i2 + 2, dist);
                }
                if ch1 == ch2 {
                    l2 = i2 + 1;
                }
            }
            last_i1.insert(ch1, i1 + 1);
        }
        unsafe { dists.get_unchecked(word1.len() + 1, word2.len() + 1) }
    }
}
// @item rust/core/src/matching/damlev/mod.rs :: fn fmin4
fn fmin4(x1: f64, x2: f64, x3: f64, x4: f64) -> (ret: f64)
{
    let mut min = x1;
    if x2 < min {
        min = x2;
    }
    if x3 < min {
        min = x3;
    }
    if x4 < min {
        min = x4;
    }
    min
}
// @item rust/core/src/matching/damlev/mod.rs :: fn fmin
fn fmin(x1: f64, x2: f64) -> (ret: f64)
{
    if x1 < x2 {
        x1
    } else {
        x2
    }
}
// @item rust/core/src/matching/damlev/mod.rs :: fn fmax
fn fmax(x1: f64, x2: f64) -> (ret: f64)
{
    if x1 > x2 {
        x1
    } else {
        x2
    }
}
// @item rust/core/src/utils/fading_windows.rs :: struct FadingWindows
pub struct FadingWindows<'a> {
    pub v: &'a [char],
    pub size: usize,
}
// @item rust/core/src/utils/fading_windows.rs :: impl FadingWindows::{new}
impl<'a> FadingWindows<'a> {
    pub fn new(v: &'a [char], size: usize) -> (ret: Self)
    {
        if size == 0 && v.len() > 0 {
            return vpanic();
        }
        Self { v, size }
    }
}
// @item rust/core/src/utils/fading_windows.rs :: impl Iterator for FadingWindows::{next}
impl<'a> FadingWindows<'a> {
    fn next(&mut self) -> (ret: Option<&'a [char]>)
    {
        if self.v.len() == 0 {
            None
        } else {
            let window = Some(&self.v[..vmin(self.size, self.v.len())]);
            self.v = &self.v[1..];
            window
        }
    }
}
// @item rust/core/src/lang/normalize.rs :: const NORM_MAX_PATTERN_LEN
pub const NORM_MAX_PATTERN_LEN: usize = 2;
// @item rust/core/src/lang/normalize.rs :: struct Normalize
pub struct Normalize<'a> {
    pub windows: FadingWindows<'a>,
    pub map: &'a HashMap<Vec<char>, Vec<char>>,
    pub skip: usize,
}
// @item rust/core/src/lang/normalize.rs :: impl Normalize::{new}
impl<'a> Normalize<'a> {
    pub fn new(source: &'a [char], map: &'a HashMap<Vec<char>, Vec<char>>) -> (ret: Self)
    {
        Self { windows: FadingWindows::new(source, NORM_MAX_PATTERN_LEN), map, skip: 0 }
    }
}
// @item rust/core/src/lang/normalize.rs :: impl Iterator for Normalize::{next}
impl<'a> Normalize<'a> {
    fn next(&mut self) -> (ret: Option<(&'a [char], &'a [char])>)
    {
        let mut window = self.windows.next()?;
        while self.skip > 0
        {
            window = self.windows.next()?;
            self.skip -= 1;
        }
        let __lo0 = 1;
        let __hi0 = window.len() + 1;
        let mut __len0 = __hi0;
        while __len0 > __lo0
        {
            __len0 -= 1;
            let len = __len0;
            let pattern = &window[..len];
            if let Some(replace) = self.map.get(pattern) {
                self.skip = pattern.len() - 1;
                return Some((pattern, replace));
            }
        }
        Some((&window[..1], &window[..1]))
    }
}
// @item rust/core/src/lang/lang.rs :: const BUFFER_CAPACITY
pub const BUFFER_CAPACITY: usize = 20;
// @item rust/core/src/lang/lang.rs :: struct Lang
pub struct Lang {
    pub stemmer: Option<OpaqueStemmer>,
    pub char_map: HashMap<char, CharClass>,
    pub pos_map: HashMap<Vec<char>, PartOfSpeech>,
    pub compose_map: HashMap<Vec<char>, Vec<char>>,
    pub reduce_map: HashMap<Vec<char>, Vec<char>>,
    pub stem_buffer: String,
    pub norm_buffer1: Vec<char>,
    pub norm_buffer2: Vec<char>,
}
// @item rust/core/src/lang/lang.rs :: impl Lang::{get_pos,get_char_class,unicode_compose,unicode_reduce}
impl Lang {
    pub fn get_pos(&self, word: &[char]) -> (ret: Option<PartOfSpeech>)
    {
        self.pos_map.get(word).cloned()
    }
    pub fn get_char_class(&self, ch: char) -> (ret: Option<CharClass>)
    {
        self.char_map.get(&ch).cloned()
    }
    pub fn unicode_compose(&mut self, word: &[char]) -> (ret: Option<Vec<char>>)
    {
        let buffer = &mut self.norm_buffer1;
        buffer.clear();
        let mut __it0 = Normalize::new(word, &self.compose_map);
        loop
        {
            match __it0.next() {
                Some((_, norm_chunk)) => {
                    buffer.extend(norm_chunk);
                }
                None => {
                    break;
                }
            }
        }
        if slice_eq(&buffer[..], word) {
            None
        } else {
            Some(buffer.clone())
        }
    }
    pub fn unicode_reduce(&mut self, word: &[char]) -> (ret: Option<(Vec<char>, Vec<char>)>)
    {
        let buffer1 = &mut self.norm_buffer1;
        let buffer2 = &mut self.norm_buffer2;
        buffer1.clear();
        buffer2.clear();
        let mut __it0 = Normalize::new(word, &self.reduce_map);
        loop
        {
            match __it0.next() {
                Some((word_chunk, norm_chunk)) => {
                    buffer1.extend(word_chunk);
                    buffer2.extend(norm_chunk);
                    let __end1 = norm_chunk.len() - word_chunk.len();
                    for __k1 in 0..__end1
                    {
                        buffer1.push('\0');
                    }
                }
                None => {
                    break;
                }
            }
        }
        if slice_eq(&buffer2[..], word) {
            None
        } else {
            Some((buffer1.clone(), buffer2.clone()))
        }
    }
}
// @item rust/core/src/tokenization/text.rs :: struct Text
pub struct TextOwn {
    pub words: Vec<WordShape>,
    pub source: Vec<char>,
    pub chars: Vec<char>,
    pub classes: Vec<CharClass>,
}
// @item rust/core/src/lang/char_class.rs :: trait CharPattern
pub trait CharPattern {
    fn matches(&self, ch: char, lang: &Lang) -> (ret: Option<bool>)
    ;
}
// @item rust/core/src/lang/char_class.rs :: traitimpl CharPattern for CharClass
impl CharPattern for CharClass {
    fn matches(&self, ch: char, lang: &Lang) -> (ret: Option<bool>)
    {
        match self {
            Any => Some(true),
            Control => Some(ch.is_control()),
            Whitespace => Some(char_is_ws(ch)),
            Punctuation => Some(is_punctuation(ch)),
            NotAlpha => Some(!ch.is_alphabetic()),
            NotAlphaNum => Some(!ch.is_alphanumeric()),
            Consonant => Some(lang.get_char_class(ch)? == Consonant),
            Vowel => Some(lang.get_char_class(ch)? == Vowel),
        }
    }
}
// @item rust/core/src/lang/char_class.rs :: traitimpl CharPattern for [P]
impl<P: CharPattern> CharPattern for [P] {
    fn matches(&self, ch: char, lang: &Lang) -> (ret: Option<bool>)
    {
        let mut met_none = false;
        let __end0 = self.len();
        let mut __i0 = 0;
        while __i0 < __end0
        {
            let pattern = &self[__i0];
            __i0 += 1;
            match pattern.matches(ch, lang) {
                Some(true) => return Some(true),
                Some(false) => continue,
                None => {
                    met_none = true;
                    continue;
                }
            }
        }
        if met_none {
            None
        } else {
            Some(false)
        }
    }
}
// @item rust/core/src/lang/char_class.rs :: fn is_punctuation
fn is_punctuation(ch: char) -> (ret: bool)
{
    match ch {
        '&' | '(' | ')' => true,
        ',' | ':' | ';' => true,
        '.' | '!' | '?' => true,
        '-' | '‑' | '‒' | '–' | '—' => true,
        '…' | '‼' | '⁇' | '⁈' | '⁉' => true,
        _ => false,
    }
}
// @item rust/core/src/tokenization/word_shape.rs :: struct WordShape
pub struct WordShape {
    pub offset: usize,
    pub slice: (usize, usize),
    pub stem: usize,
    pub pos: Option<PartOfSpeech>,
    pub fin: bool,
}
// @item rust/core/src/tokenization/word_shape.rs :: impl Word for WordShape
impl WordShape {
    fn offset(&self) -> (ret: usize)
    {
        self.offset
    }
    fn slice(&self) -> (ret: (usize, usize))
    {
        self.slice
    }
    fn stem(&self) -> (ret: usize)
    {
        self.stem
    }
    fn pos(&self) -> (ret: Option<PartOfSpeech>)
    {
        self.pos
    }
    fn fin(&self) -> (ret: bool)
    {
        self.fin
    }
}
// @item rust/core/src/tokenization/word_shape.rs :: impl WordShape::{new,split,strip,set_stem,set_pos}
impl WordShape {
    pub fn new(len: usize) -> (ret: Self)
    {
        WordShape { offset: 0, slice: (0, len), stem: len, pos: None, fin: true }
    }
    pub fn split<'a, 'b>(&'a self, chars: &'a [char], pattern: &'b [CharClass], lang: &'a Lang) -> (ret: WordSplit<'a, 'b>)
    {
        WordSplit::new(self, chars, pattern, lang)
    }
    pub fn strip(&mut self, chars: &[char], pattern: &[CharClass], lang: &Lang) -> (ret: &mut Self)
    {
        let chars = &chars[self.slice.0..self.slice.1];
        let __src0 = &chars;
        let mut __acc0: usize = 0;
        loop
        {
            if __acc0 >= __src0.len() {
                break;
            }
            let ch = __src0[__acc0];
            if !(pattern.matches(ch, lang).unwrap_or(false)) {
                break;
            }
            __acc0 += 1;
        }
        let left = __acc0;
        let __src1 = &chars;
        let __cap1 = chars.len() - left;
        let mut __acc1: usize = 0;
        loop
        {
            if __acc1 >= __cap1 || __acc1 >= __src1.len() {
                break;
            }
            let ch = __src1[__src1.len() - 1 - __acc1];
            if !(pattern.matches(ch, lang).unwrap_or(false)) {
                break;
            }
            __acc1 += 1;
        }
        let right = __acc1;
        self.slice.0 += left;
        self.slice.1 -= right;
        self.fin = self.fin || right != 0;
        self
    }
    pub fn set_stem(&mut self, chars: &[char], lang: &Lang) -> (ret: &mut Self)
    {
        let chars = &chars[self.slice.0..self.slice.1];
        self.stem = lang.stem(chars);
        self
    }
    pub fn set_pos(&mut self, chars: &[char], lang: &Lang) -> (ret: &mut Self)
    {
        let chars = &chars[self.slice.0..self.slice.1];
        self.pos = lang.get_pos(chars);
        self
    }
}
// @item rust/core/src/tokenization/word.rs :: defaults Word as WordShape::{len,is_empty}
impl WordShape {
    fn len(&self) -> (ret: usize)
    {
        let (left, right) = self.slice();
        right - left
    }
    fn is_empty(&self) -> (ret: bool)
    {
        let (left, right) = self.slice();
        right == left
    }
}
// @item rust/core/src/tokenization/word_split.rs :: struct WordSplit
pub struct WordSplit<'a, 'b> {
    pub word: &'a WordShape,
    pub lang: &'a Lang,
    pub chars: &'a [char],
    pub pattern: &'b [CharClass],
    pub word_offset: usize,
    pub char_offset: usize,
}
// @item rust/core/src/tokenization/word_split.rs :: impl WordSplit::{new}
impl<'a, 'b> WordSplit<'a, 'b> {
    pub fn new(word: &'a WordShape, chars: &'a [char], pattern: &'b [CharClass], lang: &'a Lang) -> (ret: Self)
    {
        Self { lang, word, chars, pattern, word_offset: word.offset, char_offset: 0 }
    }
}
// @item rust/core/src/tokenization/word_split.rs :: impl Iterator for WordSplit::{next}
impl<'a, 'b> WordSplit<'a, 'b> {
    fn next(&mut self) -> (ret: Option<WordShape>)
    {
        let Self { word, word_offset, char_offset, pattern, lang, .. } = self;
        let chars = &self.chars[word.slice.0..word.slice.1];
        if *char_offset >= word.len() {
            return None;
        }
        let __src0 = &chars[*char_offset..];
        let mut __acc0: usize = 0;
        loop
        {
            if __acc0 >= __src0.len() {
                break;
            }
            let ch = __src0[__acc0];
            if !(pattern.matches(ch, lang).unwrap_or(false)) {
                break;
            }
            __acc0 += 1;
        }
        *char_offset += __acc0;
        let __src1 = &chars[*char_offset..];
        let mut __acc1: usize = 0;
        loop
        {
            if __acc1 >= __src1.len() {
                break;
            }
            let ch = __src1[__acc1];
            if !(!pattern.matches(ch, lang).unwrap_or(false)) {
                break;
            }
            __acc1 += 1;
        }
        let len = __acc1;
        if len == 0 {
            return None;
        }
        let splitted = WordShape { offset: *word_offset, slice: (word.slice.0 + *char_offset, word.slice.0 + *char_offset + len), stem: len, pos: None, fin: word.fin || *char_offset + len < word.len() };
        *char_offset += splitted.len();
        *word_offset += 1;
        Some(splitted)
    }
}
// @item rust/core/src/tokenization/text.rs :: impl TextOwn::{from_vec,from_str,fin,normalize,split,strip,set_stem,set_pos,set_char_classes,lower}
impl TextOwn {
    pub fn from_vec(source: Vec<char>) -> (ret: TextOwn)
    {
        let len = source.len();
        let chars = source.clone();
        let classes = vec![CharClass::Any; chars.len()];
        Self { words: vec![WordShape::new(len)], source, chars, classes }
    }
    pub fn from_str(source: &str) -> (ret: TextOwn)
    {
        Self::from_vec(to_vec(source))
    }
    pub fn fin(self, fin: bool) -> (ret: Self)
    {
        let mut __self = self;
        if let Some(word) = __self.words.last_mut() {
            word.fin = fin;
        }
        __self
    }
    pub fn normalize(self, lang: &mut Lang) -> (ret: Self)
    {
        let mut __self = self;
        if __self.words.len() == 0 {
            return __self;
        }
        if __self.words.len() > 1 {
            return vpanic();
        }
        if let Some(nfc) = lang.unicode_compose(&__self.source) {
            __self.source = nfc.clone();
            __self.chars = nfc;
            __self.words[0].slice.1 = __self.chars.len();
        }
        if let Some((source, chars)) = lang.unicode_reduce(&__self.chars) {
            __self.source = source;
            __self.chars = chars;
            __self.words[0].slice.1 = __self.chars.len();
        }
        __self
    }
    pub fn split(self, pattern: &[CharClass], lang: &Lang) -> (ret: Self)
    {
        let mut __self = self;
        let mut words = Vec::with_capacity(__self.words.len());
        let __end0 = __self.words.len();
        for __i0 in 0..__end0
        {
            let word = &__self.words[__i0];
            let mut __it1 = WordSplit::new(word, &__self.chars, pattern, lang);
            loop
            {
                match __it1.next() {
                    Some(splitted) => {
                        words.push(splitted);
                    }
                    None => {
                        break;
                    }
                }
            }
        }
        __self.words = words;
        let __end2 = __self.words.len();
        for offset in 0..__end2
        {
            let word = &mut __self.words[offset];
            word.offset = offset;
        }
        __self
    }
    pub fn strip(self, pattern: &[CharClass], lang: &Lang) -> (ret: Self)
    {
        let mut __self = self;
        let __end0 = __self.words.len();
        for __i0 in 0..__end0
        {
            let word = &mut __self.words[__i0];
            word.strip(&__self.chars, pattern, lang);
        }
        let __clo0 = |w: &WordShape| -> (ret: bool)
        {
            w.len() > 0
        };
        __self.words.retain(__clo0);
        let __end1 = __self.words.len();
        for offset in 0..__end1
        {
            let word = &mut __self.words[offset];
            word.offset = offset;
        }
        __self
    }
    pub fn set_stem(self, lang: &Lang) -> (ret: Self)
    {
        let mut __self = self;
        let __end0 = __self.words.len();
        for __i0 in 0..__end0
        {
            let word = &mut __self.words[__i0];
            word.set_stem(&__self.chars, lang);
        }
        __self
    }
    pub fn set_pos(self, lang: &Lang) -> (ret: Self)
    {
        let mut __self = self;
        let __end0 = __self.words.len();
        for __i0 in 0..__end0
        {
            let word = &mut __self.words[__i0];
            word.set_pos(&__self.chars, lang);
        }
        __self
    }
    pub fn set_char_classes(self, lang: &Lang) -> (ret: Self)
    {
        let mut __self = self;
        __self.classes.resize(__self.chars.len(), CharClass::Any);
        let __end0 = vmin(__self.chars.len(), __self.classes.len());
        for __i0 in 0..__end0
        {
            let ch = __self.chars[__i0];
            let class = &mut __self.classes[__i0];
            *class = {
                let __o1 = lang.get_char_class(ch);
                if __o1.is_none() {
                    set_char_classes__c0(ch, lang)
                } else {
                    __o1
                }
            }
            .unwrap_or(CharClass::Any);
        }
        __self
    }
    pub fn lower(self) -> (ret: Self)
    {
        let mut __self = self;
        let mut __acc0: bool = false;
        let mut __i0 = 0;
        while __i0 < __self.chars.len()
        {
            let ch = &__self.chars[__i0];
            if ch.is_uppercase() {
                __acc0 = true;
                break;
            }
            __i0 += 1;
        }
        if __acc0 {
            let __end1 = __self.chars.len();
            for __i1 in 0..__end1
            {
                let ch = &mut __self.chars[__i1];
                *ch = char_to_lower(*ch, *ch);
            }
        }
        __self
    }
}
// @item rust/core/src/tokenization/text.rs :: impl TextOwn::{from_vec,from_str,fin,normalize,split,strip,set_stem,set_pos,set_char_classes,lower} (lifted)
fn set_char_classes__c0(ch: char, lang: &Lang) -> (ret: Option<CharClass>)
{
    if CharClass::NotAlpha.matches(ch, lang)? {
        Some(CharClass::NotAlpha)
    } else {
        None
    }
}
// @item rust/core/src/tokenization/mod.rs :: fn tokenize_query
pub fn tokenize_query(source: &str, lang: &mut Lang) -> (ret: TextOwn)
{
    TextOwn::from_str(source).normalize(lang).fin(false).split(&[CharClass::Whitespace, CharClass::Control, CharClass::Punctuation], lang).strip(&[CharClass::NotAlphaNum], lang).lower().set_pos(lang).set_char_classes(lang).set_stem(lang)
}
// @item rust/core/src/tokenization/mod.rs :: fn tokenize_record
pub fn tokenize_record(source: &str, lang: &mut Lang) -> (ret: TextOwn)
{
    TextOwn::from_str(source).normalize(lang).split(&[CharClass::Whitespace, CharClass::Control, CharClass::Punctuation], lang).strip(&[CharClass::NotAlphaNum], lang).lower().set_pos(lang).set_char_classes(lang).set_stem(lang)
}
