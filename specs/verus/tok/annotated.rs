//@include ../common/head.rs
//@include ../common/float.rs
//@include ../common/slices.rs
//@include ../common/uses.rs
broadcast use {fax::g, sax::ix_ok_usize, sax::ix_val_usize, sax::ix_upd_usize, vstd::std_specs::hash::group_hash_axioms, kax::char_key_model, vax::vec_key_model, vax::borrowed_vec_key, vax::borrowed_vec_key_present, vex::ext_items_slice};
//@include ../common/helpers.rs
//@include ../dl/body.rs
//@include ../norm/body.rs
//@include ../textown/body.rs
use CharClass::{Any, Control, Whitespace, Punctuation, NotAlpha, NotAlphaNum, Consonant, Vowel};
//@include body.rs
//@include ../common/tail.rs
