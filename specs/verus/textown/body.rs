// @item rust/core/src/tokenization/text.rs :: struct Text
pub struct TextOwn {
    pub words: Vec<WordShape>,
    pub source: Vec<char>,
    pub chars: Vec<char>,
    pub classes: Vec<CharClass>,
}
