//@include ../common/head.rs
use core::cmp::Ordering::{Less, Equal, Greater};
//@include ../common/float.rs
//@include ../common/slices.rs
//@include ../common/uses.rs
//@include ../common/charord.rs
broadcast use {fax::g, sax::ix_ok_usize, sax::ix_val_usize, sax::ix_upd_usize, vstd::std_specs::hash::group_hash_axioms, kax::char_key_model, cax::sort_post_char, cax::dedup_of_char};
//@include ../common/helpers.rs
//@include ../common/edit_forms.rs
//@include ../dl/body.rs
//@include ../dl/laws.rs
//@include ../jaccard/body.rs
//@include ../shapes/body.rs
//@include body.rs
//@include ../common/tail.rs
