// ======================================================================= U5: word matching
// R2: the thread-locals of matching/word.rs become fields of a parameter
pub struct Tls { pub DAMLEV: DamerauLevenshtein, pub JACCARD: Jaccard }
// @item rust/core/src/matching/word.rs :: const LENGTH_THRESHOLD
pub const LENGTH_THRESHOLD: f64 = 0.26;
// @item rust/core/src/matching/word.rs :: const JACCARD_THRESHOLD
pub const JACCARD_THRESHOLD: f64 = 0.51;
// @item rust/core/src/matching/word.rs :: const DAMLEV_THRESHOLD
pub const DAMLEV_THRESHOLD: f64 = 0.21;
//@include ../common/gates.rs
//@include ../jaccard/laws.rs
impl<'a> WordView<'a> {
    pub open spec fn small(&self) -> bool { self.slice.1 - self.slice.0 < 0x10_0000 }
}
// what the Jaccard pre-filter looks at
pub open spec fn jac_arg(rword: &WordView, qword: &WordView) -> Seq<char> {
    if qword.fin { rword.vchars() } else { rword.vchars().subrange(0, imin(qword.vlen() + 1, rword.vlen())) }
}
pub open spec fn jac_passes(rword: &WordView, qword: &WordView) -> bool {
    forall|sim: f64| jac_sim_is(sim, jac_arg(rword, qword), qword.vchars()) ==> jac_gate((1.0f64).sub_spec(sim))
}
// ---- C03 word-level clause: the unfinished query word is an exact prefix of the record word
pub open spec fn prefix_case(rword: &WordView, qword: &WordView) -> bool {
    !qword.fin && 1 <= qword.vlen() <= rword.vlen() && same_prefix(qword.vchars(), rword.vchars(), qword.vlen())
}
// ---- C13 word-level clause: the two words have the same characters
pub open spec fn equal_case(rword: &WordView, qword: &WordView) -> bool {
    1 <= qword.vlen() && qword.vlen() == rword.vlen() && same_prefix(qword.vchars(), rword.vchars(), qword.vlen())
}
// ---- C04 word-level clause: the unfinished query word is within one edit (distance <= 1.0) of the record word, both >= 4 letters, the longer >= 5
pub open spec fn edit1_case(rword: &WordView, qword: &WordView) -> bool {
    !qword.fin && 4 <= qword.vlen() && 4 <= rword.vlen() && (5 <= qword.vlen() || 5 <= rword.vlen())
    && qword.vlen() <= rword.vlen() + 1 && rword.vlen() <= qword.vlen() + 1
    && dcell(qword.vchars(), qword.vclasses(), rword.vchars(), rword.vclasses(), qword.vlen(), rword.vlen()) <= 2
}
// C03 / C13: the Jaccard pre-filter passes for an exact prefix and for an identical word (no hypothesis left)
proof fn lemma_jac_prefix(rword: &WordView, qword: &WordView)
    requires rword.wfs(), qword.wfs(), rword.small(), qword.small(), prefix_case(rword, qword) || equal_case(rword, qword)
    ensures jac_passes(rword, qword)
{
    let a = jac_arg(rword, qword); let b = qword.vchars(); let r = rword.vchars();
    let n = qword.vlen();
    let x = if a.len() > n { r[n] } else { r[0] };
    assert forall|y: char| b.contains(y) implies a.contains(y) by {
        let t = choose|t: int| 0 <= t < b.len() && b[t] == y; assert(r[t] == b[t]); assert(a[t] == y);
    }
    assert forall|y: char| a.contains(y) implies b.contains(y) || y == x by {
        let t = choose|t: int| 0 <= t < a.len() && a[t] == y;
        if t < n { assert(b[t] == r[t]); assert(b.contains(y)); }
    }
    lemma_jac_gate_superset(a, b, x);
}
// ---- C04 (word level): a record word of >= 5 characters, three of them different, and a query word that is one edit away from it
// (substitution, insertion, deletion, adjacent transposition) are a pair that word_match cannot refuse: within one edit (DL-edit1,
// dl/laws.rs) and through the Jaccard gate (lemma_jac_gate_near, jaccard/laws.rs)
// the Jaccard gate: the character sets differ by at most one member each way
proof fn lemma_jac_edit1(rword: &WordView, qword: &WordView, x: char, z: char)
    requires rword.wfs(), qword.wfs(), rword.small(), qword.small(), qword.vlen() + 1 >= rword.vlen(), three_letters(rword.vchars()),
        forall|y: char| rword.vchars().contains(y) ==> qword.vchars().contains(y) || y == x,
        forall|y: char| qword.vchars().contains(y) ==> rword.vchars().contains(y) || y == z,
    ensures jac_passes(rword, qword)
{
    let a = jac_arg(rword, qword); let r = rword.vchars();
    assert(a =~= r);
    let (i, j, k) = choose|i: int, j: int, k: int| 0 <= i < r.len() && 0 <= j < r.len() && 0 <= k < r.len() && #[trigger] r[i] != #[trigger] r[j] && r[i] != #[trigger] r[k] && r[j] != r[k];
    assert(r.contains(r[i]) && r.contains(r[j]) && r.contains(r[k]));
    lemma_jac_gate_near(a, qword.vchars(), x, z, r[i], r[j], r[k]);
}
proof fn lemma_c04_word(rword: &WordView, qword: &WordView, p: int)
    requires rword.wfs(), qword.wfs(), rword.small(), qword.small(), !qword.fin, rword.vlen() >= 5, three_letters(rword.vchars()),
        is_sub(rword.vchars(), qword.vchars(), p) || is_ins(rword.vchars(), qword.vchars(), p) || is_del(rword.vchars(), qword.vchars(), p) || is_trans(rword.vchars(), qword.vchars(), p),
    ensures edit1_case(rword, qword), jac_passes(rword, qword)
{
    let r = rword.vchars(); let q = qword.vchars(); let rk = rword.vclasses(); let qk = qword.vclasses();
    if is_sub(r, q, p) {
        lemma_edit1_sub(q, qk, r, rk, p, q.len() as int);
        assert forall|y: char| r.contains(y) implies q.contains(y) || y == r[p] by { let t = choose|t: int| 0 <= t < r.len() && r[t] == y; if t != p { assert(q[t] == y); } }
        assert forall|y: char| q.contains(y) implies r.contains(y) || y == q[p] by { let t = choose|t: int| 0 <= t < q.len() && q[t] == y; if t != p { assert(r[t] == y); } }
        lemma_jac_edit1(rword, qword, r[p], q[p]);
    } else if is_ins(r, q, p) {
        // the query has one more character: deleting it from the query gives the record word
        lemma_edit1_del(q, qk, r, rk, p);
        assert forall|y: char| r.contains(y) implies q.contains(y) || y == r[0] by { let t = choose|t: int| 0 <= t < r.len() && r[t] == y; if t < p { assert(q[t] == y); } else { assert(q[t + 1] == y); } }
        assert forall|y: char| q.contains(y) implies r.contains(y) || y == q[p] by { let t = choose|t: int| 0 <= t < q.len() && q[t] == y; if t < p { assert(r[t] == y); } else if t > p { assert(r[t - 1] == y); } }
        lemma_jac_edit1(rword, qword, r[0], q[p]);
    } else if is_del(r, q, p) {
        lemma_edit1_ins(q, qk, r, rk, p, q.len() as int);
        assert forall|y: char| q.contains(y) implies r.contains(y) || y == q[0] by { let t = choose|t: int| 0 <= t < q.len() && q[t] == y; if t < p { assert(r[t] == y); } else { assert(r[t + 1] == y); } }
        assert forall|y: char| r.contains(y) implies q.contains(y) || y == r[p] by { let t = choose|t: int| 0 <= t < r.len() && r[t] == y; if t < p { assert(q[t] == y); } else if t > p { assert(q[t - 1] == y); } }
        lemma_jac_edit1(rword, qword, r[p], q[0]);
    } else {
        assert(is_trans(r, q, p));
        assert(q[p] != q[p + 1]);
        lemma_edit1_trans(q, qk, r, rk, p, q.len() as int);
        assert forall|y: char| r.contains(y) implies q.contains(y) || y == r[0] by { let t = choose|t: int| 0 <= t < r.len() && r[t] == y; if t == p { assert(q[p + 1] == y); } else if t == p + 1 { assert(q[p] == y); } else { assert(q[t] == y); } }
        assert forall|y: char| q.contains(y) implies r.contains(y) || y == q[0] by { let t = choose|t: int| 0 <= t < q.len() && q[t] == y; if t == p { assert(r[p + 1] == y); } else if t == p + 1 { assert(r[p] == y); } else { assert(r[t] == y); } }
        lemma_jac_edit1(rword, qword, r[0], q[0]);
    }
}
pub open spec fn good(best: Option<(WordMatch, WordMatch)>) -> bool { best matches Some(p) && is_h(p.0.typos) && hv(p.0.typos) == 0 }
pub open spec fn good_full(best: Option<(WordMatch, WordMatch)>, n: int) -> bool { good(best) && (best matches Some(p) && p.0.subslice.1 == n && p.1.subslice.1 == n) }
// ---- soundness contract of word_match, one predicate per clause so that a failed clause names the property it serves
// spans: the two matches are for these two words, start at the word start, are non-empty and end inside the word
pub open spec fn wm_shape(res: Option<(WordMatch, WordMatch)>, rword: &WordView, qword: &WordView) -> bool {
    res matches Some(p) ==> p.0.wf_for(rword) && p.1.wf_for(qword) && p.1.subslice.1 >= qword.stem
}
// the highlighted record prefix is at most one character longer (or shorter) than the matched query prefix
pub open spec fn wm_len(res: Option<(WordMatch, WordMatch)>) -> bool {
    res matches Some(p) ==> p.0.subslice.1 <= p.1.subslice.1 + 1 && p.1.subslice.1 <= p.0.subslice.1 + 1
}
// the typo count is the weighted Damerau-Levenshtein distance of the two matched prefixes and passes the DL gate
pub open spec fn wm_typos(res: Option<(WordMatch, WordMatch)>, rword: &WordView, qword: &WordView) -> bool {
    res matches Some(p) ==> {
        let rs = p.0.subslice.1 as int; let qs = p.1.subslice.1 as int;
        &&& typos_ok(p.0.typos) && p.1.typos == p.0.typos
        &&& hv(p.0.typos) == dcell(qword.vchars(), qword.vclasses(), rword.vchars(), rword.vclasses(), qs, rs)
        &&& 100 * hv(p.0.typos) <= 43 * imax(qs, rs)
    }
}
// provenance clause: the matched prefix is at least twice the rounded-up typo count (no underflow in the char score)
pub open spec fn wm_prov(res: Option<(WordMatch, WordMatch)>) -> bool {
    res matches Some(p) ==> 2 * ((hv(p.0.typos) + 1) / 2) <= p.0.subslice.1
}
pub open spec fn wm_fin(res: Option<(WordMatch, WordMatch)>, rword: &WordView, qword: &WordView) -> bool {
    res matches Some(p) ==> p.0.fin == (qword.fin || rword.vlen() == p.0.subslice.1) && p.1.fin == p.0.fin
}
pub open spec fn wm_ok(res: Option<(WordMatch, WordMatch)>, rword: &WordView, qword: &WordView) -> bool {
    wm_shape(res, rword, qword) && wm_len(res) && wm_typos(res, rword, qword) && wm_prov(res) && wm_fin(res, rword, qword)
}
// @item rust/core/src/matching/word.rs :: fn word_match
pub fn word_match(rword: &WordView, qword: &WordView, tls: &mut Tls) -> (ret: Option<(WordMatch, WordMatch)>)
    requires old(tls).DAMLEV.wf(), rword.wfs(), qword.wfs(), rword.small(), qword.small(),
    ensures final(tls).DAMLEV.wf(),
        wm_shape(ret, rword, qword), // [C09 C02 C05 C14 C01]
        wm_len(ret), // [C05]
        wm_typos(ret, rword, qword), // [C16 C08 C04 C01]
        wm_prov(ret), // [C01 C14]
        wm_fin(ret, rword, qword), // [C08 C13 C12]
        // C03 (word level): an exact prefix that passes the Jaccard pre-filter is matched with zero typos
        prefix_case(rword, qword) ==> good(ret), // [C03]
        // C05(c): ... and the match covers exactly the typed characters
        prefix_case(rword, qword) ==> good_full(ret, qword.vlen()), // [C05]
        // C04 (word level): within one edit => matched
        edit1_case(rword, qword) && jac_passes(rword, qword) ==> ret is Some, // [C04]
        // C13 (word level): an identical word is matched completely, with zero typos
        equal_case(rword, qword) ==> good_full(ret, rword.vlen()), // [C13 C08]
{
    proof { f64_obeys(); if prefix_case(rword, qword) || equal_case(rword, qword) { lemma_jac_prefix(rword, qword); } }
    if qword.is_empty() || rword.is_empty() {
        return None;
    }
    if !length_check(rword, qword) {
        return None;
    }
    if !jaccard_check(rword, qword, tls) {
        return None;
    }
    let mut best_match: Option<(WordMatch, WordMatch)> = None;
    {
        let damlev = &mut tls.DAMLEV;
        {
            damlev.distance(qword, rword);
            let dists = &damlev.dists;
            let ghost qw = qword.vchars(); let ghost qk = qword.vclasses(); let ghost rw = rword.vchars(); let ghost rk = rword.vclasses();
            let left = if qword.fin { vmax(qword.stem, rword.stem) } else { qword.stem } - 1;
            let right = vmax(qword.len(), rword.len()) + 1;
            if right <= left {
                return best_match;
            }
            let range = (left..right).rev();
            let mut __rslice0 = right;
            while __rslice0 > left
                invariant left <= __rslice0 <= right, right == imax(qw.len() as int, rw.len() as int) + 1,
                    wm_shape(best_match, rword, qword), // [C09 C02 C05 C14 C01]
                    wm_len(best_match), // [C05]
                    wm_typos(best_match, rword, qword), // [C16 C08 C04 C01]
                    wm_prov(best_match), // [C01 C14]
                    wm_fin(best_match, rword, qword), // [C08 C13 C12]
                    left == (if qword.fin { imax(qword.stem as int, rword.stem as int) } else { qword.stem as int }) - 1,
                    prefix_case(rword, qword) && __rslice0 <= qw.len() ==> good(best_match), // [C03]
                    prefix_case(rword, qword) && good(best_match) ==> good_full(best_match, qw.len() as int), // [C05]
                    edit1_case(rword, qword) && __rslice0 <= rw.len() ==> best_match is Some, // [C04]
                    equal_case(rword, qword) && __rslice0 <= qw.len() ==> good_full(best_match, qw.len() as int), // [C13 C08]
                    equal_case(rword, qword) && __rslice0 > qw.len() ==> best_match is None, // [C13 C08]
                    dists.full_wf(), dists.size >= qw.len() + 2, dists.size >= rw.len() + 2, dists.rows_ok(qw, qk, rw, rk, qw.len() as int),
                    rword.wfs(), qword.wfs(), rword.small(), qword.small(), qw == qword.vchars(), qk == qword.vclasses(), rw == rword.vchars(), rk == rword.vclasses(),
                    qw.len() == qword.vlen(), rw.len() == rword.vlen(),
                decreases __rslice0,
            {
                __rslice0 -= 1;
                let rslice = __rslice0;
                let mut __qslice1 = right;
                while __qslice1 > left
                    invariant left <= __qslice1 <= right, right == imax(qw.len() as int, rw.len() as int) + 1, rslice < right, left <= rslice,
                        wm_shape(best_match, rword, qword), // [C09 C02 C05 C14 C01]
                        wm_len(best_match), // [C05]
                        wm_typos(best_match, rword, qword), // [C16 C08 C04 C01]
                        wm_prov(best_match), // [C01 C14]
                        wm_fin(best_match, rword, qword), // [C08 C13 C12]
                        left == (if qword.fin { imax(qword.stem as int, rword.stem as int) } else { qword.stem as int }) - 1,
                        prefix_case(rword, qword) && rslice < qw.len() ==> good(best_match), // [C03]
                        prefix_case(rword, qword) && good(best_match) ==> good_full(best_match, qw.len() as int), // [C05]
                        edit1_case(rword, qword) && rslice < rw.len() ==> best_match is Some, // [C04]
                        edit1_case(rword, qword) && rslice == rw.len() && __qslice1 <= qw.len() ==> best_match is Some, // [C04]
                        prefix_case(rword, qword) && rslice == qw.len() && __qslice1 <= qw.len() ==> good(best_match), // [C03]
                        equal_case(rword, qword) && rslice < qw.len() ==> good_full(best_match, qw.len() as int), // [C13 C08]
                        equal_case(rword, qword) && rslice == qw.len() && __qslice1 <= qw.len() ==> good_full(best_match, qw.len() as int), // [C13 C08]
                        equal_case(rword, qword) && rslice == qw.len() && __qslice1 > qw.len() ==> best_match is None, // [C13 C08]
                        equal_case(rword, qword) && rslice > qw.len() ==> best_match is None, // [C13 C08]
                        dists.full_wf(), dists.size >= qw.len() + 2, dists.size >= rw.len() + 2, dists.rows_ok(qw, qk, rw, rk, qw.len() as int),
                        rword.wfs(), qword.wfs(), rword.small(), qword.small(), qw == qword.vchars(), qk == qword.vclasses(), rw == rword.vchars(), rk == rword.vclasses(),
                        qw.len() == qword.vlen(), rw.len() == rword.vlen(),
                    ensures prefix_case(rword, qword) && rslice <= qw.len() ==> good(best_match), // [C03]
                        edit1_case(rword, qword) && rslice <= rw.len() ==> best_match is Some, // [C04]
                        equal_case(rword, qword) && rslice <= qw.len() ==> good_full(best_match, qw.len() as int), // [C13 C08]
                    decreases __qslice1,
                {
                    __qslice1 -= 1;
                    let qslice = __qslice1;
                    if qslice > qword.len() {
                        continue;
                    }
                    if rslice > rword.len() {
                        continue;
                    }
                    if qslice < qword.stem {
                        continue;
                    }
                    if rslice == left && qslice == left {
                        continue;
                    }
                    if qword.fin && rslice < rword.stem {
                        break;
                    }
                    if usize_absdiff(qslice, rslice) > 1 {
                        continue;
                    }
                    let dist = dists.get(qslice + 1, rslice + 1);
                    proof {
                        f64_obeys();
                        lemma_dcell_range(qw, qk, rw, rk, qslice as int, rslice as int);
                        if (prefix_case(rword, qword) || equal_case(rword, qword)) && qslice == qw.len() && rslice == qw.len() {
                            lemma_dl_zero(qw, qk, rw, rk, qw.len() as int);
                            gax::ax_dl_gate_pass(dist, qw.len() as int);
                        }
                        if edit1_case(rword, qword) && qslice == qw.len() && rslice == rw.len() {
                            gax::ax_dl_gate_pass(dist, imax(qw.len() as int, rw.len() as int));
                        }
                        // DL-pos: a zero distance only between equal-length equal prefixes
                        if hv(dist) == 0 { lemma_dl_pos(qw, qk, rw, rk, qslice as int, rslice as int); }
                    }
                    let rel = dist / usize_as_f64(vmax(qslice, vmax(rslice, 1)));
                    if rel > DAMLEV_THRESHOLD {
                        continue;
                    }
                    proof {
                        gax::ax_dl_gate_sound(dist, imax(qslice as int, imax(rslice as int, 1)));
                        // DL-pos for the pair (1, 0): a non-empty query prefix never matches the empty record prefix
                        if rslice == 0 { assert(dcell(qw, qk, rw, rk, qslice as int, 0) == bs(qk, qslice as int)); assert(bs(qk, 1) == bs(qk, 0) + ch(qk[0])); }
                    }
                    best_match = best_match
                        .take()
                        .filter(|pair: &(WordMatch, WordMatch)| -> (ret: bool)
                            requires typos_ok(pair.0.typos),
                            ensures ret == (hv(pair.0.typos) <= hv(dist)),
                        {
                            pair.0.typos <= dist
                        })
                        .or_else(|| -> (ret: Option<(WordMatch, WordMatch)>)
                            ensures ret matches Some(p) && p.0.offset == rword.offset && p.0.slice == rword.slice && p.0.subslice == (0usize, rslice) && p.0.typos == dist
                                && p.0.func == spec_is_function(rword.pos) && p.0.fin == (qword.fin || rword.slice.1 - rword.slice.0 == rslice)
                                && p.1.offset == qword.offset && p.1.slice == qword.slice && p.1.subslice == (0usize, qslice) && p.1.typos == dist
                                && p.1.func == spec_is_function(qword.pos) && p.1.fin == p.0.fin,
                        {
                            Some(WordMatch::new_pair(rword, qword, rslice, qslice, dist))
                        });
                    proof { gax::ax_eps(dist); }
                    if dist <= F64_EPSILON {
                        break;
                    }
                }
            }
        }
    };
    best_match
}
// @item rust/core/src/matching/word.rs :: fn length_check
pub fn length_check(rword: &WordView, qword: &WordView) -> (ret: bool)
    requires rword.wfs(), qword.wfs(), rword.small(), qword.small(),
    ensures prefix_case(rword, qword) ==> ret, // [C03]
        equal_case(rword, qword) ==> ret, // [C13 C08]
        edit1_case(rword, qword) ==> ret, // [C04]
{
    proof { f64_obeys(); }
    let qlen = qword.len();
    let rlen = if qword.fin { rword.len() } else { vmin(qlen, rword.len()) };
    if qlen <= 1 || rlen <= 1 {
        return qlen == rlen;
    }
    let long = vmax(qlen, rlen);
    let short = vmin(qlen, rlen);
    proof { if 4 * short >= 3 * long { gax::ax_len_gate_pass(short as int, long as int); } }
    let dist = 1.0 - (usize_as_f64(short) / usize_as_f64(long));
    dist < LENGTH_THRESHOLD
}
// @item rust/core/src/matching/word.rs :: fn jaccard_check
pub fn jaccard_check(rword: &WordView, qword: &WordView, tls: &mut Tls) -> (ret: bool)
    requires rword.wfs(), qword.wfs(),
    ensures final(tls).DAMLEV == old(tls).DAMLEV,
        !qword.fin && jac_passes(rword, qword) ==> ret, // [C03 C04 C05]
        qword.fin && jac_passes(rword, qword) ==> ret, // [C13 C08]
{
    proof { f64_obeys(); }
    let rslice = if qword.fin { rword.chars() } else { &rword.chars()[..vmin(qword.len() + 1, rword.len())] };
    proof { if !qword.fin { assert(rslice@ =~= jac_arg(rword, qword)); } } // [C03 C04 C05]
    proof { if qword.fin { assert(rslice@ =~= jac_arg(rword, qword)); } } // [C13 C08]
    let dist = {
        let j = &mut tls.JACCARD;
        j.rel_dist(rslice, qword.chars())
    };
    dist < JACCARD_THRESHOLD
}
