// @item rust/core/src/search/score.rs :: const SCORES_SIZE
pub const SCORES_SIZE: usize = 9;
// @item rust/core/src/search/score.rs :: struct Scores
pub struct Scores(pub [isize; SCORES_SIZE]);
// @item rust/core/src/search/hit.rs :: struct Hit
pub struct Hit<'a> {
    pub id: usize,
    pub title: TextRef<'a>,
    pub rating: usize,
    pub rmatches: Vec<WordMatch>,
    pub qmatches: Vec<WordMatch>,
    pub scores: Scores,
}
// ======================================================================= U9: highlight (C02, C09)
// the part of Text::wf that highlight needs: words non-empty, in bounds, ordered and disjoint
pub open spec fn words_wf(words: Seq<WordShape>, n: int) -> bool {
    (forall|k: int| 0 <= k < words.len() ==> (#[trigger] words[k]).slice.0 < words[k].slice.1 && words[k].slice.1 <= n)
    && (forall|k: int, m: int| 0 <= k < m < words.len() ==> (#[trigger] words[k]).slice.1 <= (#[trigger] words[m]).slice.0)
}
// every match addressed to a word lies inside that word
pub open spec fn matches_wf(ms: Seq<WordMatch>, words: Seq<WordShape>) -> bool {
    forall|m: WordMatch| #[trigger] ms.contains(m) ==> (m.offset < words.len() ==> m.subslice.0 <= m.subslice.1 && words[m.offset as int].slice.0 + m.subslice.1 <= words[m.offset as int].slice.1)
}
// the match `find` returns for word k: the first one addressed to it
pub open spec fn first_match(ms: Seq<WordMatch>, k: int, upto: int) -> Option<WordMatch>
    decreases upto
{ if upto <= 0 { None } else { match first_match(ms, k, upto - 1) { Some(m) => Some(m), None => if ms[upto - 1].offset == k { Some(ms[upto - 1]) } else { None } } } }
proof fn lemma_first_stable(ms: Seq<WordMatch>, k: int, a: int, b: int)
    requires 0 <= a <= b, first_match(ms, k, a) is Some
    ensures first_match(ms, k, b) == first_match(ms, k, a)
    decreases b - a
{ if a < b { lemma_first_stable(ms, k, a, b - 1); } }
pub open spec fn not_nul() -> spec_fn(char) -> bool { |c: char| c != '\0' }
pub open spec fn word_start(words: Seq<WordShape>, k: int) -> int { if k <= 0 { 0 } else { words[k - 1].slice.1 as int } }
// C02/C09 reference rendering of the text up to the end of word k-1: the source, each character once and in order, with
// `l` / `r` inserted around [word.slice.0 + subslice.0, word.slice.0 + subslice.1) of every word that has a match
pub open spec fn render(src: Seq<char>, words: Seq<WordShape>, ms: Seq<WordMatch>, l: Seq<char>, r: Seq<char>, k: int) -> Seq<char>
    decreases k
{
    if k <= 0 { Seq::<char>::empty() } else {
        let w = words[k - 1];
        let start = word_start(words, k - 1);
        let prev = render(src, words, ms, l, r, k - 1);
        match first_match(ms, k - 1, ms.len() as int) {
            Some(m) => prev + src.subrange(start, w.slice.0 + m.subslice.0) + l + src.subrange(w.slice.0 + m.subslice.0, w.slice.0 + m.subslice.1) + r + src.subrange(w.slice.0 + m.subslice.1, w.slice.1 as int),
            None => prev + src.subrange(start, w.slice.1 as int),
        }
    }
}
pub open spec fn render_all(src: Seq<char>, words: Seq<WordShape>, ms: Seq<WordMatch>, l: Seq<char>, r: Seq<char>) -> Seq<char> {
    render(src, words, ms, l, r, words.len() as int) + src.subrange(word_start(words, words.len() as int), src.len() as int)
}
// C09 / C12: without matches nothing is highlighted: the rendering is the source itself, whatever the markers
proof fn lemma_render_plain(src: Seq<char>, words: Seq<WordShape>, l: Seq<char>, r: Seq<char>, k: int)
    requires words_wf(words, src.len() as int), 0 <= k <= words.len(),
    ensures render(src, words, Seq::<WordMatch>::empty(), l, r, k) == src.subrange(0, word_start(words, k)),
        k == words.len() ==> render_all(src, words, Seq::<WordMatch>::empty(), l, r) == src,
    decreases k
{
    let e = Seq::<WordMatch>::empty();
    if k > 0 {
        lemma_render_plain(src, words, l, r, k - 1);
        let w = words[k - 1];
        let start = word_start(words, k - 1);
        if k - 1 > 0 { assert(words[k - 2].slice.1 <= words[k - 1].slice.0); }
        assert(first_match(e, k - 1, 0) is None);
        assert(src.subrange(0, start) + src.subrange(start, w.slice.1 as int) == src.subrange(0, w.slice.1 as int));
    }
    if k == words.len() {
        let ws = word_start(words, k);
        assert(0 <= ws <= src.len());
        assert(src.subrange(0, ws) + src.subrange(ws, src.len() as int) == src);
    }
}
// C02: with the markers deleted the rendering is the source itself (nothing dropped, duplicated, reordered or altered)
proof fn lemma_render_erase(src: Seq<char>, words: Seq<WordShape>, ms: Seq<WordMatch>, k: int)
    requires words_wf(words, src.len() as int), matches_wf(ms, words), 0 <= k <= words.len(),
    ensures render(src, words, ms, Seq::<char>::empty(), Seq::<char>::empty(), k) == src.subrange(0, word_start(words, k))
    decreases k
{
    let e = Seq::<char>::empty();
    if k > 0 {
        lemma_render_erase(src, words, ms, k - 1);
        let w = words[k - 1];
        let start = word_start(words, k - 1);
        if k - 1 > 0 { assert(words[k - 2].slice.1 <= words[k - 1].slice.0); }
        match first_match(ms, k - 1, ms.len() as int) {
            Some(m) => {
                lemma_first_in(ms, k - 1, ms.len() as int);
                assert(ms.contains(m) && m.offset == k - 1);
                let a = w.slice.0 + m.subslice.0; let b = w.slice.0 + m.subslice.1;
                assert(src.subrange(0, start) + src.subrange(start, a) + e + src.subrange(a, b) + e + src.subrange(b, w.slice.1 as int) =~= src.subrange(0, w.slice.1 as int));
            }
            None => { assert(src.subrange(0, start) + src.subrange(start, w.slice.1 as int) =~= src.subrange(0, w.slice.1 as int)); }
        }
    } else {
        assert(src.subrange(0, 0) =~= e);
    }
}
proof fn lemma_first_in(ms: Seq<WordMatch>, k: int, upto: int)
    requires 0 <= upto <= ms.len()
    ensures first_match(ms, k, upto) matches Some(m) ==> ms.contains(m) && m.offset == k
    decreases upto
{ if upto > 0 { lemma_first_in(ms, k, upto - 1); } }
proof fn lemma_render_all_erase(src: Seq<char>, words: Seq<WordShape>, ms: Seq<WordMatch>)
    requires words_wf(words, src.len() as int), matches_wf(ms, words),
    ensures render_all(src, words, ms, Seq::<char>::empty(), Seq::<char>::empty()) == src
{
    lemma_render_erase(src, words, ms, words.len() as int);
    let n = words.len() as int;
    assert(src.subrange(0, word_start(words, n)) + src.subrange(word_start(words, n), src.len() as int) =~= src);
}
proof fn lemma_filter_sat(s: Seq<char>, p: spec_fn(char) -> bool)
    ensures forall|i: int| 0 <= i < s.filter(p).len() ==> p(#[trigger] s.filter(p)[i])
    decreases s.len()
{
    reveal(Seq::filter);
    if s.len() > 0 { lemma_filter_sat(s.drop_last(), p); }
}
// C02: a returned title never contains NUL
proof fn lemma_no_nul(s: Seq<char>)
    ensures forall|i: int| 0 <= i < s.filter(not_nul()).len() ==> #[trigger] s.filter(not_nul())[i] != '\0'
{ lemma_filter_sat(s, not_nul()); }
// @item rust/core/src/search/highlight.rs :: fn highlight
pub fn highlight(hit: &Hit, dividers: (&[char], &[char])) -> (ret: String)
    requires words_wf(hit.title.words@, hit.title.source@.len() as int), matches_wf(hit.rmatches@, hit.title.words@),
        hit.title.source@.len() <= 0x4000_0000, hit.title.words@.len() <= 0x4000_0000, dividers.0@.len() <= 0x10000, dividers.1@.len() <= 0x10000,
    // C02 / C09: the returned title is exactly the reference rendering with NUL removed
    ensures ret@ == render_all(hit.title.source@, hit.title.words@, hit.rmatches@, dividers.0@, dividers.1@).filter(not_nul()),
{
    let (div_left, div_right) = dividers;
    let Hit { title: TextRef { words, source, .. }, rmatches, .. } = hit;
    let mut highlighted = {
        let chars_src = source.len();
        proof { assert((div_left@.len() + div_right@.len() + 1) * words@.len() <= 0x20001 * 0x4000_0000) by (nonlinear_arith) requires div_left@.len() + div_right@.len() + 1 <= 0x20001, words@.len() <= 0x4000_0000; }
        let chars_hl = (div_left.len() + div_right.len() + 1) * words.len();
        String::with_capacity((chars_src + chars_hl) * 4)
    };
    let mut char_offset = 0;
    let __end0 = words.len();
    for word_offset in 0..__end0
        invariant __end0 == words@.len(), words_wf(words@, source@.len() as int), matches_wf(rmatches@, words@),
            char_offset == word_start(words@, word_offset as int),
            highlighted@ == render(source@, words@, rmatches@, div_left@, div_right@, word_offset as int),
    {
        let word = &words[word_offset];
        let mut __found1: Option<&WordMatch> = None;
        let mut __i1 = 0;
        while __i1 < rmatches.len()
            invariant_except_break __found1 is None, first_match(rmatches@, word_offset as int, __i1 as int) is None,
            invariant __i1 <= rmatches@.len(), __end0 == words@.len(), word_offset < __end0, words_wf(words@, source@.len() as int), matches_wf(rmatches@, words@),
                char_offset == word_start(words@, word_offset as int), *word == words@[word_offset as int],
                highlighted@ == render(source@, words@, rmatches@, div_left@, div_right@, word_offset as int),
            ensures match __found1 {
                Some(m) => first_match(rmatches@, word_offset as int, rmatches@.len() as int) == Some(*m) && m.offset == word_offset && rmatches@.contains(*m),
                None => first_match(rmatches@, word_offset as int, rmatches@.len() as int) is None },
            decreases rmatches@.len() - __i1,
        {
            let m = &rmatches[__i1];
            if m.offset == word_offset {
                proof { assert(first_match(rmatches@, word_offset as int, __i1 as int + 1) == Some(*m)); lemma_first_stable(rmatches@, word_offset as int, __i1 as int + 1, rmatches@.len() as int); }
                __found1 = Some(m);
                break;
            }
            __i1 += 1;
        }
        proof { if word_offset > 0 { assert(words@[word_offset as int - 1].slice.1 <= words@[word_offset as int].slice.0); } }
        let ghost h0 = highlighted@;
        match __found1 {
            Some(rmatch) => {
                let match_start = word.slice.0 + rmatch.subslice.0;
                let match_end = word.slice.0 + rmatch.subslice.1;
                highlighted.extend(&source[char_offset..match_start]);
                highlighted.extend(div_left);
                highlighted.extend(&source[match_start..match_end]);
                highlighted.extend(div_right);
                highlighted.extend(&source[match_end..word.slice.1]);
                proof {
                    assert(highlighted@ == h0 + source@.subrange(char_offset as int, match_start as int) + div_left@ + source@.subrange(match_start as int, match_end as int) + div_right@ + source@.subrange(match_end as int, word.slice.1 as int));
                }
            }
            None => {
                highlighted.extend(&source[char_offset..word.slice.1]);
                proof { assert(highlighted@ == h0 + source@.subrange(char_offset as int, word.slice.1 as int)); }
            }
        }
        proof {
            let k = word_offset as int + 1;
            assert(word_start(words@, k - 1) == char_offset);
            assert(words@[k - 1] == *word);
            match __found1 {
                Some(rmatch) => {
                    assert(first_match(rmatches@, k - 1, rmatches@.len() as int) == Some(*rmatch));
                }
                None => {
                    assert(first_match(rmatches@, k - 1, rmatches@.len() as int) is None);
                }
            }
        }
        char_offset = word.slice.1;
    }
    highlighted.extend(&source[char_offset..]);
    let __clo0 = |ch: char| -> (ret: bool)
        ensures ret == (ch != '\0'),
    {
        ch != '\0'
    };
    let ghost before_retain = highlighted@;
    highlighted.retain(__clo0);
    proof {
        let keep = choose|keep: spec_fn(char) -> bool| (forall|c: char| #[trigger] __clo0.ensures((c,), keep(c))) && highlighted@ == before_retain.filter(keep);
        assert forall|c: char| #[trigger] keep(c) == not_nul()(c) by { assert(__clo0.ensures((c,), keep(c))); }
        sx::lemma_filter_ext(before_retain, keep, not_nul());
    }
    highlighted
}
