//@append rust/core/src/utils/limitsort.rs
// C06 / C12 / C18: contract LS of the bounded top-k selection on the real LimitSortIter, N symbolic keys.
// BOUNDED (N items, the stated limits); small limits make the mid-stream sort+truncate at 2*limit fire repeatedly.
#[cfg(kani)]
mod verif_limitsort {
    use super::LimitSort;

    fn run<const N: usize>(limit: usize) {
        let keys: [u8; N] = kani::any();
        let items: Vec<(u8, u8)> = (0..N).map(|i| (keys[i], i as u8)).collect();
        let out: Vec<(u8, u8)> = items.iter().cloned()
            .limit_sort_unstable(limit, |a, b| a.0.cmp(&b.0))
            .collect();
        // LS-len: never more than limit, exactly min(limit, N)
        let expect = if limit < N { limit } else { N };
        assert!(out.len() == expect);
        // LS-sub: a sub-multiset of the input (no duplicates, no invented items); LS-sorted
        let mut seen = [false; N];
        let mut i = 0;
        while i < out.len() {
            let (k, id) = out[i];
            assert!((id as usize) < N && keys[id as usize] == k && !seen[id as usize]);
            seen[id as usize] = true;
            if i > 0 { assert!(out[i - 1].0 <= k); }
            i += 1;
        }
        // LS-best: no omitted item compares Less than a listed one
        if out.len() > 0 {
            let worst = out[out.len() - 1].0;
            let mut j = 0;
            while j < N { if !seen[j] { assert!(keys[j] >= worst); } j += 1; }
        }
    }

    #[kani::proof]
    #[kani::unwind(7)]
    fn limit_sort_n5_l0() { run::<5>(0); }
    #[kani::proof]
    #[kani::unwind(7)]
    fn limit_sort_n5_l1() { run::<5>(1); }
    #[kani::proof]
    #[kani::unwind(7)]
    fn limit_sort_n5_l2() { run::<5>(2); }
    #[kani::proof]
    #[kani::unwind(7)]
    fn limit_sort_n5_l3() { run::<5>(3); }
    #[kani::proof]
    #[kani::unwind(7)]
    fn limit_sort_n4_l5() { run::<4>(5); }
    // thorough tier: more items (the mid-stream sort+truncate fires up to three times)
    #[kani::proof]
    #[kani::unwind(9)]
    fn limit_sort_n7_l1() { run::<7>(1); }
    #[kani::proof]
    #[kani::unwind(9)]
    fn limit_sort_n7_l2() { run::<7>(2); }
    #[kani::proof]
    #[kani::unwind(9)]
    fn limit_sort_n7_l3() { run::<7>(3); }
    #[kani::proof]
    #[kani::unwind(10)]
    fn limit_sort_n8_l2() { run::<8>(2); }
}
