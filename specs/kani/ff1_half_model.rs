//@append rust/core/src/matching/damlev/mod.rs
// Float facts FF1 (DESIGN.md §6.0.2): the half-integer model of f64 used by the Verus units.
// Each harness is loop-free over the full stated domain: a complete proof of the axiom of the same name
// in specs/verus/common/float.rs.  The repository's own cost constants are named here, so a changed
// constant is judged against the model.
#[cfg(kani)]
mod verif_ff1 {
    use super::*;

    fn half(k: u64) -> f64 { (k as f64) * 0.5 }

    // axiom h_add: hb(a), hb(b) ==> a + b is the half-integer hv(a) + hv(b)
    #[kani::proof]
    fn ff1_add() {
        let a: u64 = kani::any();
        let b: u64 = kani::any();
        kani::assume(a < (1 << 40) && b < (1 << 40));
        assert!(half(a) + half(b) == half(a + b));
        kani::cover!(a > 3 && b > 5);
    }

    // axioms h_cmp, h_eq: comparison of half-integers is comparison of the integers
    #[kani::proof]
    fn ff1_cmp() {
        let a: u64 = kani::any();
        let b: u64 = kani::any();
        kani::assume(a < (1 << 40) && b < (1 << 40));
        let (x, y) = (half(a), half(b));
        assert!((x < y) == (a < b));
        assert!((x > y) == (a > b));
        assert!((x <= y) == (a <= b));
        assert!((x == y) == (a == b));
        assert!(x.partial_cmp(&y) == Some(a.cmp(&b)));
        kani::cover!(a > b);
    }

    // axioms h_conv, h_half_mul, h_lit_*: `n as f64` is exact; 0.5 * n; the literals
    #[kani::proof]
    fn ff1_conv() {
        let n: u64 = kani::any();
        kani::assume(n < (1 << 39));
        let m = n as usize;
        assert!((m as f64) == half(2 * n));
        assert!(0.5 * (m as f64) == half(n));
        assert!(0.0f64 == half(0) && 0.5f64 == half(1) && 1.0f64 == half(2));
        kani::cover!(n > 7);
    }

    // the repository's cost constants are half-integers in {0.5, 1.0} (Verus reads their literal values
    // from the extracted text; this harness ties the literals of the *compiled* constants to the model)
    #[kani::proof]
    fn ff1_costs() {
        assert!(COST_TRANS == half(1));
        for c in [COST_DOUBLE, COST_VOWEL, COST_NOTALPHA, COST_CONSONANT, COST_DEFAULT].iter() {
            assert!(*c == half(1) || *c == half(2));
        }
    }
}
