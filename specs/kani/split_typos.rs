//@append rust/core/src/matching/word_match.rs
// Float fact FF4: typo arithmetic of WordMatch::split_typos on the real function (loop-free: complete on the stated domain).
#[cfg(kani)]
mod verif_split_typos {
    use super::WordMatch;

    #[kani::proof]
    fn ff4_split_typos() {
        let k: u8 = kani::any();
        let len1: usize = kani::any();
        let len2: usize = kani::any();
        kani::assume(len1 <= 64 && len2 <= 64 && len1 + len2 >= 1);
        kani::assume(k <= 40);
        let typos = (k as f64) * 0.5;
        let (a, b) = WordMatch::split_typos(typos, len1, len2);
        assert!(a >= 0.0 && b >= 0.0);
        assert!(a <= typos + 0.1);
        // 2*ceil(t) is h or h+1
        let c = typos.ceil() as usize;
        assert!(2 * c == k as usize || 2 * c == k as usize + 1);
        assert!((a.ceil() as usize) <= c && (b.ceil() as usize) <= c);
        kani::cover!(a > 0.0 && b > 0.0);
    }
}
