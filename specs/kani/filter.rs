//@append rust/core/src/search/filter.rs
// The clauses of `hit_matches` that C12 / C09 / C03 / C13 rest on (the same clauses as in the Verus contract of unit `filter`),
// checked on the real function for symbolic hits with up to two matches on either side and queries of up to three words.
// hit_matches is loop-free and looks only at the three lengths and at element 0 of the two match lists, so lengths 0, 1, 2 cover
// its case split; the bound is on the vector lengths only (all field values are symbolic).  A failed harness comes with CBMC's
// concrete hit and query.
#[cfg(kani)]
mod verif_filter {
    use crate::tokenization::{TextOwn, WordShape};
    use crate::store::Record;
    use crate::search::Hit;
    use crate::matching::WordMatch;
    use super::hit_matches;

    fn any_match() -> WordMatch {
        let a: usize = kani::any();
        let b: usize = kani::any();
        let c: usize = kani::any();
        kani::assume(a <= b && b <= 0x4000_0000 && c <= b - a);
        WordMatch { offset: kani::any(), slice: (a, b), subslice: (0, c), typos: 0.0, func: kani::any(), fin: kani::any() }
    }
    fn any_matches() -> Vec<WordMatch> {
        let n: u8 = kani::any();
        kani::assume(n <= 2);
        let mut v = Vec::new();
        if n >= 1 { v.push(any_match()); }
        if n >= 2 { v.push(any_match()); }
        v
    }
    // hit_matches reads only the number of query words
    fn query_with(nwords: u8) -> TextOwn {
        let mut words = vec![];
        if nwords >= 1 { words.push(WordShape { offset: 0, slice: (0, 1), stem: 1, pos: None, fin: true }); }
        if nwords >= 2 { words.push(WordShape { offset: 1, slice: (2, 3), stem: 1, pos: None, fin: true }); }
        if nwords >= 3 { words.push(WordShape { offset: 2, slice: (4, 5), stem: 1, pos: None, fin: kani::any() }); }
        // the character arrays are not what the filter decides on: empty or not, independently of the words
        let some_chars: bool = kani::any();
        let (chars, classes) = if some_chars { (vec![' '], vec![crate::lang::CharClass::Any]) } else { (vec![], vec![]) };
        TextOwn { words, source: chars.clone(), chars, classes }
    }
    fn setup() -> (TextOwn, Record) {
        let nwords: u8 = kani::any();
        kani::assume(nwords <= 3);
        (query_with(nwords), Record { ix: 0, id: 0, rating: 0, title: TextOwn { words: vec![], source: vec![], chars: vec![], classes: vec![] } })
    }

    // C12: a query without words lets every hit through
    #[kani::proof]
    #[kani::unwind(4)]
    fn filter_empty_query_passes() {
        let (q, r) = setup();
        let mut hit = Hit::from_record(&r);
        hit.rmatches = any_matches();
        hit.qmatches = any_matches();
        let ret = hit_matches(&q.to_ref(), &hit);
        if q.words.len() == 0 { assert!(ret); }
        kani::cover!(q.words.len() == 0 && hit.rmatches.len() == 0);
    }

    // C09 / C05: a hit for a query with words has at least one match
    #[kani::proof]
    #[kani::unwind(4)]
    fn filter_hit_has_match() {
        let (q, r) = setup();
        let mut hit = Hit::from_record(&r);
        hit.rmatches = any_matches();
        hit.qmatches = any_matches();
        kani::assume(hit.rmatches.len() == 0 || hit.qmatches.len() >= 1);
        let ret = hit_matches(&q.to_ref(), &hit);
        if q.words.len() > 0 && ret { assert!(hit.rmatches.len() >= 1); }
        kani::cover!(q.words.len() > 0 && ret);
    }

    // C03 / C04 / C13: a one-word query with a match passes
    #[kani::proof]
    #[kani::unwind(4)]
    fn filter_one_word_passes() {
        let (q, r) = setup();
        let mut hit = Hit::from_record(&r);
        hit.rmatches = any_matches();
        hit.qmatches = any_matches();
        kani::assume(hit.rmatches.len() == 0 || hit.qmatches.len() >= 1);
        let ret = hit_matches(&q.to_ref(), &hit);
        if q.words.len() == 1 && hit.rmatches.len() >= 1 { assert!(ret); }
        kani::cover!(q.words.len() == 1 && hit.rmatches.len() == 1);
    }

    // C13 / C14: more than one match on either side passes; a lone pair passes when the record-side match is marked finished
    #[kani::proof]
    #[kani::unwind(4)]
    fn filter_several_or_finished_passes() {
        let (q, r) = setup();
        let mut hit = Hit::from_record(&r);
        hit.rmatches = any_matches();
        hit.qmatches = any_matches();
        kani::assume(hit.rmatches.len() == 0 || hit.qmatches.len() >= 1);
        let ret = hit_matches(&q.to_ref(), &hit);
        if hit.rmatches.len() >= 1 && !(hit.rmatches.len() == 1 && hit.qmatches.len() == 1) { assert!(ret); }
        if hit.rmatches.len() == 1 && hit.qmatches.len() == 1 && hit.rmatches[0].fin { assert!(ret); }
        kani::cover!(q.words.len() == 2 && hit.rmatches.len() == 1 && hit.qmatches.len() == 1 && !ret);
    }
}
