//@append rust/core/src/matching/word_match.rs
// C14 / C09: the contracts of WordMatch::split and WordView::join (the same clauses as in the Verus contracts of unit `shapes`),
// checked on the real functions for symbolic words and matches.  Both functions are loop-free and read only the numeric fields of
// their arguments; domain: positions up to 2^30 for join, up to 64 for split (its typo split is floating-point arithmetic), typos a
// half-integer up to 20;
// their purpose is the counterexample: a failed harness comes with CBMC's concrete words and match.
#[cfg(kani)]
mod verif_split_join {
    use crate::tokenization::{TextOwn, WordShape, WordView, Word};
    use super::WordMatch;

    fn two_words(max: usize) -> TextOwn {
        let a0: usize = kani::any();
        let a1: usize = kani::any();
        let b0: usize = kani::any();
        let b1: usize = kani::any();
        kani::assume(a0 < a1 && a1 <= b0 && b0 < b1 && b1 <= max);
        let s1: usize = kani::any();
        let s2: usize = kani::any();
        kani::assume(1 <= s1 && s1 <= a1 - a0 && 1 <= s2 && s2 <= b1 - b0);
        let w1 = WordShape { offset: 0, slice: (a0, a1), stem: s1, pos: None, fin: kani::any() };
        let w2 = WordShape { offset: 1, slice: (b0, b1), stem: s2, pos: None, fin: kani::any() };
        TextOwn { words: vec![w1, w2], source: vec![], chars: vec![], classes: vec![] }
    }

    #[kani::proof]
    fn split_contract() {
        // positions up to 64: the typo split is floating-point arithmetic on the two word lengths (cf. ff4_split_typos)
        let text = two_words(64);
        let w1 = WordView::new(&text.words[0], &text);
        let w2 = WordView::new(&text.words[1], &text);
        let s: usize = kani::any();
        kani::assume(s <= w2.slice.1 - w1.slice.0);
        let k: u8 = kani::any();
        kani::assume(k <= 40);
        let at_first: bool = kani::any();
        let m = WordMatch { offset: if at_first { 0 } else { 1 }, slice: (w1.slice.0, w2.slice.1), subslice: (0, s), typos: (k as f64) * 0.5, func: false, fin: kani::any() };
        let ret = m.split(&w1, &w2);
        // Some exactly when the match reaches into the second word
        assert!(ret.is_some() == (w1.slice.0 + s > w2.slice.0));
        let some = ret.is_some();
        if let Some((p1, p2)) = ret {
            assert!(p1.offset == 0 && p1.slice == w1.slice && p1.subslice == (0, w1.len()) && p1.fin);
            assert!(p2.offset == 1 && p2.slice == w2.slice && p2.subslice.0 == 0);
            assert!(p2.subslice.1 == s - (w2.slice.0 - w1.slice.0));
            assert!(1 <= p2.subslice.1 && p2.subslice.1 <= w2.len());
            assert!(p2.fin == m.fin);
            assert!(p1.typos >= 0.0 && p2.typos >= 0.0);
        }
        kani::cover!(some);
        kani::cover!(!some);
    }

    #[kani::proof]
    fn join_contract() {
        let text = two_words(0x4000_0000);
        let w1 = WordView::new(&text.words[0], &text);
        let w2 = WordView::new(&text.words[1], &text);
        let j = w1.join(&w2);
        assert!(j.offset == w1.offset);
        assert!(j.slice == (w1.slice.0, w2.slice.1));
        assert!(j.stem == w2.slice.0 - w1.slice.0 + w2.stem);
        assert!(1 <= j.stem && j.stem <= j.slice.1 - j.slice.0);
        assert!(j.fin == w2.fin);
        assert!(j.pos.is_none());
        kani::cover!(j.stem > w2.stem);
    }
}
