//@append rust/core/src/matching/jaccard/mod.rs
// Float fact FF2: quotient of two counts (axiom ff2_quot).  Loop-free, full stated domain: complete.
// Domain: a set of distinct `char`s has at most 0x110000 members, so |A u B| < 2^21.
#[cfg(kani)]
mod verif_ff2 {
    #[kani::proof]
    fn ff2_quot() {
        let i: u32 = kani::any();
        let u: u32 = kani::any();
        kani::assume(i <= u && 1 <= u && u < (1 << 21));
        let q = (i as usize) as f64 / (u as usize) as f64;
        assert!(0.0 <= q && q <= 1.0);
        assert!((q == 1.0) == (i == u));
        assert!((q == 0.0) == (i == 0));
        kani::cover!(i > 2 && i < u);
    }
}
