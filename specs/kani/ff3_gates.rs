//@append rust/core/src/matching/word.rs
// Float facts FF3: one-sided integer characterisations of the three threshold gates, stated over the
// repository's own constants and the exact expressions of `length_check`, `jaccard_check`, `word_match`.
#[cfg(kani)]
mod verif_ff3 {
    use super::*;

    // length gate: `1.0 - short/long < LENGTH_THRESHOLD`
    #[kani::proof]
    fn ff3_len_gate() {
        let s: u32 = kani::any();
        let l: u32 = kani::any();
        kani::assume(2 <= s && s <= l && l < (1 << 20));
        let (short, long) = (s as usize, l as usize);
        let dist = 1.0 - (short as f64 / long as f64);
        let pass = dist < LENGTH_THRESHOLD;
        if 4 * (s as u64) >= 3 * (l as u64) { assert!(pass); }
        if pass { assert!(100 * (s as u64) > 73 * (l as u64)); }
        kani::cover!(pass);
        kani::cover!(!pass);
    }

    // Jaccard gate: `1.0 - inter/union < JACCARD_THRESHOLD`
    #[kani::proof]
    fn ff3_jac_gate() {
        let i: u32 = kani::any();
        let u: u32 = kani::any();
        kani::assume(i <= u && 1 <= u && u < (1 << 22));
        let sim = (i as usize) as f64 / (u as usize) as f64;
        let dist = 1.0 - sim;
        let pass = dist < JACCARD_THRESHOLD;
        if 2 * (i as u64) >= (u as u64) { assert!(pass); }
        if pass { assert!(100 * (i as u64) > 48 * (u as u64)); }
        kani::cover!(pass);
        kani::cover!(!pass);
    }

    // DL gate: `dist / max(q, r, 1) > DAMLEV_THRESHOLD` for dist = h halves; and the EPSILON test
    #[kani::proof]
    fn ff3_dl_gate() {
        let h: u32 = kani::any();
        let n: u32 = kani::any();
        kani::assume(1 <= n && n < (1 << 20) && h < (1 << 21));
        let dist = (h as f64) * 0.5;
        let rel = dist / (n as usize) as f64;
        let exceeds = rel > DAMLEV_THRESHOLD;
        if 5 * (h as u64) <= 2 * (n as u64) { assert!(!exceeds); }
        if !exceeds { assert!(100 * (h as u64) <= 43 * (n as u64)); }
        assert!((dist <= std::f64::EPSILON) == (h == 0));
        kani::cover!(exceeds);
        kani::cover!(!exceeds);
    }
}
