//@append rust/core/src/search/sort.rs
// C07: compare_hits is the descending lexicographic order of the nine score slots, for ALL isize vectors
// (fixed trip count 9: complete), and that order is a strict weak order.
#[cfg(kani)]
mod verif_compare {
    use std::cmp::Ordering;
    use crate::tokenization::TextOwn;
    use crate::store::Record;
    use crate::search::Hit;
    use crate::search::score::ScoreType;
    use super::compare_hits;

    fn empty_record() -> Record {
        Record { ix: 0, id: 0, rating: 0, title: TextOwn { words: vec![], source: vec![], chars: vec![], classes: vec![] } }
    }
    fn any_scores(hit: &mut Hit) -> [isize; 9] {
        let s: [isize; 9] = kani::any();
        hit.scores[ScoreType::Chars] = s[0];
        hit.scores[ScoreType::Words] = s[1];
        hit.scores[ScoreType::Tails] = s[2];
        hit.scores[ScoreType::Trans] = s[3];
        hit.scores[ScoreType::Fin] = s[4];
        hit.scores[ScoreType::Offset] = s[5];
        hit.scores[ScoreType::Rating] = s[6];
        hit.scores[ScoreType::WordLen] = s[7];
        hit.scores[ScoreType::CharLen] = s[8];
        s
    }
    // reference: descending lexicographic order; slot order = documented priority order
    fn lex(a: &[isize; 9], b: &[isize; 9]) -> Ordering {
        let mut i = 0;
        while i < 9 { if a[i] != b[i] { return if a[i] > b[i] { Ordering::Less } else { Ordering::Greater }; } i += 1; }
        Ordering::Equal
    }

    #[kani::proof]
    #[kani::unwind(11)]
    fn compare_hits_is_lex_desc() {
        let r = empty_record();
        let mut h1 = Hit::from_record(&r);
        let mut h2 = Hit::from_record(&r);
        let a = any_scores(&mut h1);
        let b = any_scores(&mut h2);
        let got = compare_hits(&h1, &h2);
        assert!(got == lex(&a, &b));
        // antisymmetry and Equal <=> all nine slots equal
        assert!(compare_hits(&h2, &h1) == got.reverse());
        let mut same = true;
        let mut i = 0;
        while i < 9 { if a[i] != b[i] { same = false; } i += 1; }
        assert!((got == Ordering::Equal) == same);
        kani::cover!(got == Ordering::Less);
        kani::cover!(got == Ordering::Greater);
    }

    #[kani::proof]
    #[kani::unwind(11)]
    fn lex_desc_transitive() {
        let a: [isize; 9] = kani::any();
        let b: [isize; 9] = kani::any();
        let c: [isize; 9] = kani::any();
        if lex(&a, &b) != Ordering::Greater && lex(&b, &c) != Ordering::Greater {
            assert!(lex(&a, &c) != Ordering::Greater);
        }
        if lex(&a, &b) == Ordering::Less && lex(&b, &c) == Ordering::Less {
            assert!(lex(&a, &c) == Ordering::Less);
        }
    }
}
